"""sys.path set-up so that `import tskit` is /repo/python/tskit backed by the
extension built from /repo's C sources; asserts that this is really the case."""
import os
import sys

from . import build as _build

_state = {}


def setup(variant="plain"):
    """Build (if needed) and import tskit from the repo.  Returns info dict."""
    if _state.get("variant") == variant:
        return _state["info"]
    if "variant" in _state:
        raise RuntimeError("env.setup called twice with different variants")
    bdir = os.environ.get("VERIF_BUILD_DIR_" + variant.upper())
    if not bdir or not os.path.isdir(bdir):
        bdir = _build.build(variant)
        os.environ["VERIF_BUILD_DIR_" + variant.upper()] = bdir
    os.environ.setdefault("TSKIT_VERIF", "1")
    pydir = os.path.join(_build.REPO, "python")
    for p in (pydir, bdir):
        while p in sys.path:
            sys.path.remove(p)
    sys.path.insert(0, pydir)
    sys.path.insert(0, bdir)
    import _tskit
    import tskit

    assert os.path.realpath(_tskit.__file__).startswith(
        os.path.realpath(bdir)
    ), f"_tskit imported from {_tskit.__file__}, expected under {bdir}"
    assert os.path.realpath(tskit.__file__).startswith(
        os.path.realpath(pydir)
    ), f"tskit imported from {tskit.__file__}, expected under {pydir}"
    info = {
        "tskit_file": tskit.__file__,
        "_tskit_file": _tskit.__file__,
        "c_source_hash": os.path.basename(bdir),
        "py_source_hash": _build.python_source_hash(),
        "variant": variant,
    }
    _state["variant"] = variant
    _state["info"] = info
    return info
