"""Per-shard accumulator used by the property modules."""
import json

from . import journal


class Acc:
    MAX_PER_KEY = 3
    MAX_SAMPLES = 3

    def __init__(self):
        self.evals = 0
        self.nontrivial = 0
        self.failures = []
        self._perkey = {}
        self.samples = []
        self.counters = {}
        self.suppressed = 0

    def enter(self, case):
        """Journal the case about to be executed (for crash attribution)."""
        journal.note(json.dumps(case, default=str))

    def ev(self, n=1, nontrivial=False):
        self.evals += n
        if nontrivial:
            self.nontrivial += n

    def count(self, name, n=1):
        self.counters[name] = self.counters.get(name, 0) + n

    def sample(self, s):
        if len(self.samples) < self.MAX_SAMPLES:
            self.samples.append(s)

    def fail(self, key, what, case):
        k = self._perkey.get(key, 0)
        self._perkey[key] = k + 1
        if k < self.MAX_PER_KEY:
            self.failures.append({"key": key, "what": str(what)[:2000], "case": case})
        else:
            self.suppressed += 1

    def result(self):
        return {
            "evals": self.evals, "nontrivial": self.nontrivial,
            "failures": self.failures, "samples": self.samples,
            "counters": self.counters, "suppressed": self.suppressed,
        }
