"""Out-of-tree builds of the _tskit extension from /repo's current working tree.

Variants: plain (-O1 -g), asan (ASan+UBSan), tsan.  Builds are cached under
/verif/build/<variant>-<hash of sources+flags>/ so that an unchanged tree costs
nothing and an edited tree is always rebuilt.
"""
import fcntl
import hashlib
import os
import shutil
import subprocess
import sys
import sysconfig
from concurrent.futures import ThreadPoolExecutor

REPO = os.environ.get("VERIF_REPO", "/repo")
VERIF = os.path.dirname(os.path.dirname(os.path.abspath(__file__)))
BUILD_ROOT = os.path.join(VERIF, "build")
PY = "/venv/bin/python"

C_SOURCES = [
    "python/_tskitmodule.c",
    "c/tskit/core.c",
    "c/tskit/tables.c",
    "c/tskit/trees.c",
    "c/tskit/genotypes.c",
    "c/tskit/stats.c",
    "c/tskit/convert.c",
    "c/tskit/haplotype_matching.c",
    "c/subprojects/kastore/kastore.c",
]
HEADER_DIRS = ["c", "c/tskit", "c/subprojects/kastore", "python/lwt_interface"]

FLAGS = {
    "plain": ["-O1", "-g"],
    "asan": [
        "-O1",
        "-g",
        "-fsanitize=address,undefined",
        "-fno-sanitize-recover=undefined",
        "-fno-sanitize=nonnull-attribute",
        "-fno-omit-frame-pointer",
    ],
    "tsan": ["-O1", "-g", "-fsanitize=thread"],
}
LDFLAGS = {
    "plain": [],
    "asan": ["-fsanitize=address,undefined"],
    "tsan": ["-fsanitize=thread"],
}


def _numpy_include():
    out = subprocess.check_output(
        [PY, "-c", "import numpy;print(numpy.get_include())"], text=True
    )
    return out.strip()


def _py_include():
    out = subprocess.check_output(
        [
            PY,
            "-c",
            "import sysconfig;print(sysconfig.get_paths()['include']);"
            "print(sysconfig.get_config_var('EXT_SUFFIX'))",
        ],
        text=True,
    )
    inc, suffix = out.strip().split("\n")
    return inc, suffix


def source_hash(variant="plain"):
    h = hashlib.sha256()
    h.update(" ".join(FLAGS[variant]).encode())
    files = list(C_SOURCES)
    for d in HEADER_DIRS:
        full = os.path.join(REPO, d)
        for name in sorted(os.listdir(full)):
            if name.endswith(".h"):
                files.append(os.path.join(d, name))
    for f in files:
        h.update(f.encode())
        with open(os.path.join(REPO, f), "rb") as fh:
            h.update(fh.read())
    return h.hexdigest()[:16]


def python_source_hash():
    h = hashlib.sha256()
    base = os.path.join(REPO, "python", "tskit")
    for name in sorted(os.listdir(base)):
        p = os.path.join(base, name)
        if os.path.isfile(p) and (name.endswith(".py") or name.endswith(".json")):
            h.update(name.encode())
            with open(p, "rb") as fh:
                h.update(fh.read())
    return h.hexdigest()[:16]


def build(variant="plain", quiet=True):
    """Return the directory containing a freshly built (or cached) _tskit."""
    os.makedirs(BUILD_ROOT, exist_ok=True)
    lock = open(os.path.join(BUILD_ROOT, ".lock"), "w")
    fcntl.flock(lock, fcntl.LOCK_EX)
    try:
        tag = source_hash(variant)
        out_dir = os.path.join(BUILD_ROOT, f"{variant}-{tag}")
        inc, suffix = _py_include()
        so = os.path.join(out_dir, "_tskit" + suffix)
        if os.path.exists(so):
            os.utime(out_dir)
            return out_dir
        tmp = out_dir + ".tmp"
        shutil.rmtree(tmp, ignore_errors=True)
        os.makedirs(tmp)
        incs = ["-I" + inc, "-I" + _numpy_include()]
        for d in ["python/lwt_interface", "c", "c/subprojects/kastore"]:
            incs.append("-I" + os.path.join(REPO, d))
        cflags = ["-std=c99", "-fPIC", "-w"] + FLAGS[variant] + incs

        def compile_one(src):
            obj = os.path.join(tmp, os.path.basename(src) + ".o")
            cmd = ["gcc"] + cflags + ["-c", os.path.join(REPO, src), "-o", obj]
            r = subprocess.run(cmd, capture_output=True, text=True)
            if r.returncode != 0:
                raise RuntimeError(f"compile failed: {src}\n{r.stderr[-4000:]}")
            return obj

        with ThreadPoolExecutor(len(C_SOURCES)) as ex:
            objs = list(ex.map(compile_one, C_SOURCES))
        cmd = (
            ["gcc", "-shared"]
            + LDFLAGS[variant]
            + objs
            + ["-o", os.path.join(tmp, "_tskit" + suffix), "-lm"]
        )
        r = subprocess.run(cmd, capture_output=True, text=True)
        if r.returncode != 0:
            raise RuntimeError("link failed\n" + r.stderr[-4000:])
        for o in objs:
            os.unlink(o)
        os.rename(tmp, out_dir)
        # keep at most two cached builds per variant
        olds = sorted(
            (
                d
                for d in os.listdir(BUILD_ROOT)
                if d.startswith(variant + "-") and not d.endswith(".tmp")
            ),
            key=lambda d: os.path.getmtime(os.path.join(BUILD_ROOT, d)),
        )
        for d in olds[:-8]:
            shutil.rmtree(os.path.join(BUILD_ROOT, d), ignore_errors=True)
        return out_dir
    finally:
        fcntl.flock(lock, fcntl.LOCK_UN)
        lock.close()


def sanitizer_env(variant):
    env = {}
    if variant == "asan":
        libs = []
        for name in ("libasan.so", "libubsan.so"):
            p = subprocess.check_output(
                ["gcc", "-print-file-name=" + name], text=True
            ).strip()
            libs.append(os.path.realpath(p))
        env["LD_PRELOAD"] = ":".join(libs)
        env["ASAN_OPTIONS"] = (
            "detect_leaks=0:allocator_may_return_null=1:abort_on_error=1:"
            "handle_segv=1:symbolize=1"
        )
        env["UBSAN_OPTIONS"] = "print_stacktrace=1:halt_on_error=1"
    elif variant == "tsan":
        p = subprocess.check_output(
            ["gcc", "-print-file-name=libtsan.so"], text=True
        ).strip()
        env["LD_PRELOAD"] = os.path.realpath(p)
        env["TSAN_OPTIONS"] = "halt_on_error=0:report_signal_unsafe=0"
    return env


if __name__ == "__main__":
    for v in sys.argv[1:] or ["plain"]:
        print(v, build(v))
