"""The small-scope universe of tree sequences (DESIGN.md section 2.1).

A member is fixed by: N nodes, a time rank vector, a coordinate grid with G cells,
for every cell and node a parent among the strictly older nodes (or none), and a
subset of nodes flagged as samples.  Enumeration is complete for the given bounds.
"""
import itertools
import math

TIMESCALES = {
    "int": lambda r: float(r),
    "quarter": lambda r: r / 4.0,
    "big": lambda r: r * 1e6 - 5e5,
    # values that a narrower or sloppier number type cannot tell apart: consecutive doubles, magnitudes
    # beyond float32, denormals
    "ulp": lambda r: 1.0 + r * 2.0 ** -52,
    "huge": lambda r: r * 1e300,
    "tiny": lambda r: r * 5e-324,
}
EXTRA_FLAG_BITS = (0, 1 << 17, 1 << 31, 1 << 1, (1 << 17) | (1 << 31))
_ULP_A = math.nextafter(0.25, 1.0)
GRIDS = {
    "int": lambda G: tuple(float(i) for i in range(G + 1)),
    "frac": lambda G: tuple([0.0, 0.5, 2.25, 2.5, 4.0][: G + 1]),
    # a cell exactly one ulp wide (coordinates that differ only in the last bit of a double)
    # (the left end has an odd mantissa, so that (a + b) / 2 rounds to the RIGHT end b)
    "ulp": lambda G: tuple([0.0, _ULP_A, math.nextafter(_ULP_A, 1.0), 1.0, 2.0][: G + 1]),
}


def weak_orders(n):
    """All dense rank vectors of length n (ordered Bell number many)."""
    out = []
    for t in itertools.product(range(n), repeat=n):
        used = set(t)
        if used == set(range(len(used))):
            out.append(t)
    return out


class Member:
    __slots__ = ("N", "G", "ranks", "parents", "flags", "grid", "squash", "timescale")

    def __init__(self, N, G, ranks, parents, flags, grid="int", squash=True,
                 timescale="int"):
        self.N = N
        self.G = G
        self.ranks = tuple(ranks)
        self.parents = tuple(tuple(p) for p in parents)
        self.flags = tuple(flags)
        self.grid = grid
        self.squash = squash
        self.timescale = timescale

    # ---- description / replay -------------------------------------------------
    def desc(self):
        return {
            "N": self.N, "G": self.G, "ranks": list(self.ranks),
            "parents": [list(p) for p in self.parents], "flags": list(self.flags),
            "grid": self.grid, "squash": self.squash, "timescale": self.timescale,
        }

    @staticmethod
    def from_desc(d):
        return Member(d["N"], d["G"], d["ranks"], d["parents"], d["flags"],
                      d.get("grid", "int"), d.get("squash", True),
                      d.get("timescale", "int"))

    def key(self):
        return (self.N, self.G, self.ranks, self.parents, self.flags, self.grid,
                self.squash, self.timescale)

    # ---- plain data -----------------------------------------------------------
    @property
    def coords(self):
        return GRIDS[self.grid](self.G)

    @property
    def L(self):
        return self.coords[-1]

    @property
    def times(self):
        f = TIMESCALES[self.timescale]
        return tuple(f(r) for r in self.ranks)

    @property
    def samples(self):
        return [u for u in range(self.N) if self.flags[u]]

    def parent_in_cell(self, cell, u):
        return self.parents[cell][u]

    def edges(self):
        """Edge rows (left, right, parent, child) in TableCollection.sort() order."""
        c = self.coords
        rows = []
        for u in range(self.N):
            cur = None
            for g in range(self.G):
                p = self.parents[g][u]
                if p < 0:
                    cur = None
                    continue
                if self.squash and cur is not None and cur[2] == p:
                    cur[1] = c[g + 1]
                else:
                    cur = [c[g], c[g + 1], p, u]
                    rows.append(cur)
        t = self.times
        rows.sort(key=lambda e: (t[e[2]], e[2], e[3], e[0]))
        return [tuple(e) for e in rows]

    def num_trees_expected(self):
        bps = {0.0, self.L}
        for l, r, _, _ in self.edges():
            bps.add(l)
            bps.add(r)
        return len(bps) - 1

    # ---- tskit objects --------------------------------------------------------
    def tables(self):
        import tskit

        tc = tskit.TableCollection(self.L)
        t = self.times
        for u in range(self.N):
            # besides the sample bit most nodes carry application-defined flag bits (tskit reserves only
            # bit 0): "is a sample" must be a test of that bit, never a comparison of the whole word
            tc.nodes.add_row(flags=(1 if self.flags[u] else 0) | EXTRA_FLAG_BITS[u % len(EXTRA_FLAG_BITS)], time=t[u])
        for l, r, p, ch in self.edges():
            tc.edges.add_row(l, r, p, ch)
        return tc

    def ts(self):
        return self.tables().tree_sequence()


def parent_vectors(ranks):
    """All per-cell parent vectors for the given rank vector."""
    n = len(ranks)
    choices = []
    for u in range(n):
        choices.append([-1] + [v for v in range(n) if ranks[v] > ranks[u]])
    return list(itertools.product(*choices))


def enumerate_members(N, G, times="id", flags="all", grid="int", squash=True,
                      timescale="int"):
    """Yield every member with exactly N nodes and G cells.

    times: "id" (rank = node id) | "rev" (rank = N-1-id) | "weak" (all weak orders)
    flags: "all" (every subset) | "leaves+" (see code) | a callable(member_no_flags)->iter
    """
    if times == "id":
        rank_vectors = [tuple(range(N))]
    elif times == "rev":
        rank_vectors = [tuple(range(N - 1, -1, -1))]
    elif times == "weak":
        rank_vectors = weak_orders(N)
    else:
        rank_vectors = list(times)
    for ranks in rank_vectors:
        pv = parent_vectors(ranks)
        for cells in itertools.product(pv, repeat=G):
            if flags == "all":
                flag_iter = itertools.product((0, 1), repeat=N)
            elif flags == "none":
                flag_iter = [tuple([0] * N)]
            elif flags == "allsamples":
                flag_iter = [tuple([1] * N)]
            else:
                flag_iter = flags(N, ranks, cells)
            for fl in flag_iter:
                yield Member(N, G, ranks, cells, fl, grid, squash, timescale)


def count_members(N, G, times="id", flags="all"):
    if times == "id":
        rank_vectors = [tuple(range(N))]
    elif times == "weak":
        rank_vectors = weak_orders(N)
    else:
        rank_vectors = list(times)
    tot = 0
    for ranks in rank_vectors:
        tot += len(parent_vectors(ranks)) ** G
    return tot * (2 ** N if flags == "all" else 1)


def universe(bounds):
    """bounds: list of dicts of enumerate_members kwargs; yields all members."""
    for b in bounds:
        yield from enumerate_members(**b)


U_B = [dict(N=n, G=g, times="id") for n in (0, 1, 2, 3, 4) for g in (1, 2)]
U_B3 = [dict(N=n, G=3, times="id") for n in (2, 3)]
U_A = [dict(N=n, G=g, times="weak") for n in (1, 2, 3, 4) for g in (1, 2)]
U_D = [dict(N=3, G=3, times="weak")]


def shard(iterable, k, n):
    """Every n-th element starting at k."""
    return itertools.islice(iterable, k, None, n)
