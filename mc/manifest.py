"""Generates /verif/MANIFEST.json from the property modules that exist."""
import importlib
import json
import os

from . import build as _build

ALL = [f"C{i:02d}" for i in range(1, 21)]
PY = _build.PY


def main():
    checks = []
    na = []
    for pid in ALL:
        path = os.path.join(_build.VERIF, "mc", "props", pid.lower() + ".py")
        if pid not in READY or not os.path.exists(path):
            na.append({"property_id": pid, "reason": "check not built yet (work in progress; see DESIGN.md)"})
            continue
        mod = importlib.import_module(f"mc.props.{pid.lower()}")
        if getattr(mod, "NOT_READY", False):
            na.append({"property_id": pid, "reason": "check under construction"})
            continue
        checks.append({
            "property_id": pid,
            "quick_cmd": f"{PY} -m mc.run {pid} --tier quick",
            "thorough_cmd": f"{PY} -m mc.run {pid} --tier thorough",
            "evidence_file": f"/verif/evidence/{pid}.json",
            "replay_cmd_template": f"{PY} -m mc.run {pid} --replay {{path}}",
            "engine": "mc",
            "level_claimed": {
                "category": getattr(mod, "LEVEL", "exploration"),
                "text": getattr(mod, "LEVEL_TEXT", mod.__doc__.strip()),
                "design_ref": f"DESIGN.md section 3, {pid}",
            },
            "level_note": "; ".join(getattr(mod, "ASSUMPTIONS", [])) or "reference model in mc/ref",
            "technique": getattr(mod, "TECHNIQUE", "bounded exhaustive enumeration of executions of the real "
                                 "implementation against a reference model (explicit-state model checking)"),
        })
    man = {
        "version": 1,
        "setup_cmd": f"cd /verif && {PY} -m compileall -q mc && {PY} -m mc.build plain asan tsan",
        "hooks": {
            "guard": "TSKIT_VERIF",
            "enable": "checks build _tskit out of tree from /repo's working tree into /verif/build and run with TSKIT_VERIF=1",
            "baseline_off_cmd": "cd /repo && env -u TSKIT_VERIF /venv/bin/python -m pytest -ra -q -p no:cacheprovider --timeout=900 --continue-on-collection-errors",
            "source_commits": HOOK_COMMITS,
            "add_only": True,
        },
        "engines": [{
            "name": "mc", "path": "/verif/mc",
            "serves_properties": [c["property_id"] for c in checks],
            "kind_free_text": "hand-written explicit-state / bounded-exhaustive explorer driving the real tskit "
                              "(built from /repo) against Python reference models",
        }],
        "checks": checks,
        "not_applicable": na,
        "notes": "See DESIGN.md. known_findings.json lists recorded genuine defects and fixed ones.",
    }
    with open(os.path.join(_build.VERIF, "MANIFEST.json"), "w") as f:
        json.dump(man, f, indent=1)
    print(f"{len(checks)} checks, {len(na)} not_applicable")


HOOK_COMMITS = ["de5dfe6", "4ad1044"]
# properties whose check has been reviewed and runs clean on the unchanged tree
READY = ["C01", "C02", "C03", "C04", "C05", "C06", "C07", "C08", "C09", "C10", "C11", "C12", "C13", "C14", "C15", "C16", "C17", "C18", "C19", "C20"]

if __name__ == "__main__":
    main()
