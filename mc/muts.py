"""Sites and mutation placements over a universe member (DESIGN.md section 2.1)."""
import itertools
import math

from .ref.trees import NULL, RefTS

UNKNOWN = "unknown"


def site_positions(m):
    """Every grid point < L and every cell midpoint."""
    c = m.coords
    out = []
    for i in range(m.G):
        out.append(c[i])
        out.append((c[i] + c[i + 1]) / 2)
    if m.grid == "ulp":  # a one-ulp cell has no interior point
        out = sorted({x for x in out if x < m.L})
    return out


def depth_in(parent, u):
    d = 0
    while parent[u] != NULL:
        u = parent[u]
        d += 1
    return d


def mutation_lists(N, max_muts, states):
    """All ordered lists of <= max_muts (node, state) pairs."""
    alphabet = [(u, s) for u in range(N) for s in states]
    for k in range(max_muts + 1):
        yield from itertools.product(alphabet, repeat=k)


def order_valid(parent, muts):
    """True iff the list is already in non-decreasing depth order (one canonical
    representative of each valid table order class, see DESIGN 2.1)."""
    ds = [depth_in(parent, u) for u, _ in muts]
    return all(a <= b for a, b in zip(ds, ds[1:]))


def compute_parents(parent, muts):
    """Reference nearest-mutation rule. muts: list of (node, state) in table order at
    one site; returns list of parent indexes (local to the site) or -1."""
    out = []
    for j, (u, _) in enumerate(muts):
        best = -1
        # previous mutation on the same node
        for k in range(j - 1, -1, -1):
            if muts[k][0] == u:
                best = k
                break
        if best < 0:
            v = parent[u]
            while v != NULL and best < 0:
                for k in range(len(muts) - 1, -1, -1):
                    if muts[k][0] == v:
                        best = k
                        break
                v = parent[v]
        out.append(best)
    return out


def known_times(times, parent, muts):
    """Assign known times, strictly decreasing along each node's own list, inside
    [time(node), time(parent node))."""
    per_node = {}
    for j, (u, _) in enumerate(muts):
        per_node.setdefault(u, []).append(j)
    out = [None] * len(muts)
    for u, idxs in per_node.items():
        k = len(idxs)
        lo = times[u]
        hi = times[parent[u]] if parent[u] != NULL else lo + 1.0
        for r, j in enumerate(idxs):
            out[j] = lo + (hi - lo) * (k - r) / (k + 2)
    return out


def add_sites(tc, m, placement, times_mode=UNKNOWN, metadata=False):
    """placement: list of (position, ancestral_state, [(node, derived_state), ...]).
    Adds rows in a valid order with reference parents. Returns nothing."""
    import tskit

    rts = RefTS(m.times, m.flags, m.edges(), m.L)
    for pos, anc, muts in sorted(placement, key=lambda s: s[0]):
        par = rts.parent_map(pos)
        muts = list(muts)
        tms = None
        if times_mode != UNKNOWN:
            tms = known_times(m.times, par, muts)
            order = sorted(range(len(muts)), key=lambda j: -tms[j])
            muts = [muts[j] for j in order]
            tms = [tms[j] for j in order]
        else:
            order = sorted(range(len(muts)), key=lambda j: depth_in(par, muts[j][0]))
            muts = [muts[j] for j in order]
        parents = compute_parents(par, muts)
        s = tc.sites.add_row(pos, anc, metadata=(b"s%d" % tc.sites.num_rows) if metadata else b"")
        base = tc.mutations.num_rows
        for j, (u, st) in enumerate(muts):
            tc.mutations.add_row(
                site=s, node=u, derived_state=st,
                parent=(base + parents[j]) if parents[j] >= 0 else -1,
                time=tskit.UNKNOWN_TIME if tms is None else tms[j],
                metadata=(b"m%d" % tc.mutations.num_rows) if metadata else b"",
            )


def enumerate_placements(m, max_sites=1, max_muts=2, states=("0", "1", "2"),
                         positions=None, ancestral="0"):
    """Yield every placement with <= max_sites sites (at distinct positions) and
    <= max_muts mutations per site, each mutation list in canonical valid order."""
    rts = RefTS(m.times, m.flags, m.edges(), m.L)
    positions = site_positions(m) if positions is None else positions
    per_pos = {}
    for x in positions:
        par = rts.parent_map(x)
        per_pos[x] = [ml for ml in mutation_lists(m.N, max_muts, states)
                      if order_valid(par, ml)]
    for k in range(0, max_sites + 1):
        for combo in itertools.combinations(positions, k):
            for mls in itertools.product(*[per_pos[x] for x in combo]):
                yield [(x, ancestral, list(ml)) for x, ml in zip(combo, mls)]
