"""Per-worker case journal: the parent reads it when a worker dies or hangs."""
import os

_f = None


def note(text):
    global _f
    path = os.environ.get("VERIF_JOURNAL")
    if not path:
        return
    if _f is None:
        _f = open(path, "wb", buffering=0)
    data = text.encode("utf8", "replace")[:4000]
    os.pwrite(_f.fileno(), data + b" " * max(0, 200 - len(data)), 0)
    os.ftruncate(_f.fileno(), max(len(data), 200))
