"""Free-running pass under ThreadSanitizer for the thread-parallel statistics (C08).

The schedule enumeration in mc/props/c08.py controls the order in which worker TASKS complete,
but a cooperative executor cannot see unsynchronised accesses inside the GIL-released C
sections.  This script runs the same calls with real threads against the -fsanitize=thread
build; the parent (c08.run_shard, kind 'tsan') scans stderr for data-race reports.

usage: python -m mc.tsan_pass <N> <G>      (prints 'TSAN-PASS-DONE <calls>')
"""
import sys


def main():
    from . import env

    env.setup("tsan")
    import numpy as np
    import tskit  # noqa

    from . import muts as MU
    from . import universe as U

    N, G = int(sys.argv[1]), int(sys.argv[2])
    calls = 0
    for m in U.enumerate_members(N, G, flags="allsamples"):
        if not m.edges():
            continue
        tc = m.tables()
        pos = MU.site_positions(m)
        MU.add_sites(tc, m, [(pos[0], "0", [(0, "1")]), (pos[-1], "0", [(N - 1, "1")])])
        ts = tc.tree_sequence()
        S = ts.samples()
        base = ts.divergence_matrix(num_threads=0)
        for k in (2, 3, 5):
            for mode in ("branch", "site"):
                a = ts.divergence_matrix(num_threads=k, mode=mode)
                b = ts.divergence_matrix(num_threads=0, mode=mode)
                assert np.allclose(a, b, equal_nan=True)
                calls += 1
            w = [0, m.L / 2, m.L]
            a = ts.divergence_matrix(windows=w, num_threads=k)
            b = ts.divergence_matrix(windows=w, num_threads=0)
            assert np.allclose(a, b, equal_nan=True)
            g1 = ts.genealogical_nearest_neighbours(S, [S[:1], S[1:]] if len(S) > 1 else [S], num_threads=k)
            g0 = ts.genealogical_nearest_neighbours(S, [S[:1], S[1:]] if len(S) > 1 else [S], num_threads=0)
            assert np.allclose(g1, g0, equal_nan=True)
            calls += 2
        del base
    # a larger hand-built tree sequence so that the GIL-released C sections really overlap in time
    import random

    rng = random.Random(1)
    n, trees = 300, 40
    tc = tskit.TableCollection(float(trees))
    for _ in range(n):
        tc.nodes.add_row(flags=1, time=0)
    for g in range(trees):
        live = list(range(n))
        t = 0.0
        while len(live) > 1:
            a = live.pop(rng.randrange(len(live)))
            b = live.pop(rng.randrange(len(live)))
            t += 1.0
            p = tc.nodes.add_row(flags=0, time=t)
            tc.edges.add_row(g, g + 1, p, a)
            tc.edges.add_row(g, g + 1, p, b)
            live.append(p)
        tc.sites.add_row(g + 0.5, "0")
        tc.mutations.add_row(site=g, node=rng.randrange(n), derived_state="1")
    tc.sort()
    big = tc.tree_sequence()
    S = big.samples()
    ref = big.divergence_matrix(num_threads=0, mode="branch")
    refs = big.divergence_matrix(num_threads=0, mode="site")
    for rep in range(2):
        for k in (2, 4, 8):
            assert np.allclose(big.divergence_matrix(num_threads=k, mode="branch"), ref)
            assert np.allclose(big.divergence_matrix(num_threads=k, mode="site"), refs)
            assert np.allclose(big.divergence_matrix(num_threads=k, windows=list(range(0, trees + 1, 4))),
                               big.divergence_matrix(num_threads=0, windows=list(range(0, trees + 1, 4))))
            g1 = big.genealogical_nearest_neighbours(S, [S[:150], S[150:]], num_threads=k)
            g0 = big.genealogical_nearest_neighbours(S, [S[:150], S[150:]], num_threads=0)
            assert np.allclose(g1, g0)
            calls += 3
    print("TSAN-PASS-DONE", calls)


if __name__ == "__main__":
    main()
