"""C18  Newick, Nexus and FASTA exports encode the trees and sequences faithfully.

Exhaustive input-space exploration.  Every marginal tree of every member of the small-scope
universe, under several node-time scales, is written with Tree.as_newick / Tree.newick for
every root x precision x node_labels x include_branch_lengths; the text is read back with an
independent Newick reader (mc/ref/newick.py) and compared with the subtree, labels and
branch-length renderings derived from the reference tree model; the fast C writer and the
general Python writer are compared string for string.  Deterministic shape probes (chains,
combs, stars up to 10^4 nodes) cover buffer sizing and deep trees.  as_nexus / as_fasta are
parsed and compared with the documented layout, with the per-tree Newick strings, with
alignments() and with an independent alignment model (mc/ref/geno.py)."""
import itertools
import re

from .. import muts as MU
from .. import universe as U
from ..acc import Acc
from ..ref import newick as NW
from ..ref.geno import site_allele_list, site_alleles
from ..ref.trees import NULL, RefTS

ID = "C18"
LEVEL = "exploration"
RULE = ("newick: every universe member (all parent choices, all sample-flag subsets) x time scale x "
        "marginal tree x root in {None, every node} x precision x label mode x include_branch_lengths, "
        "one evaluation per as_newick/newick call, non-trivial = the call must succeed and the subtree "
        "below the root has >= 1 edge; probes: shape x size x scale x flags x precision x label mode; "
        "export: member x coordinate stretch x site placement x (as_fasta | as_nexus) option tuple, "
        "non-trivial = the tree sequence has >= 1 edge and >= 1 sample and the call must succeed. "
        "Every (input, option) tuple is a distinct code by construction.")
ASSUMPTIONS = [
    "child order in the Newick text is unspecified: parsed trees are compared up to child order "
    "(the fast and general writers must nevertheless agree string for string)",
    "branch length = time[parent] - time[child] in double precision, rendered with %.<precision>f",
    "default precision is 0 iff every node time of the tree sequence is an integer (no mutation or "
    "migration times are used in the newick part), else 17",
    "as_newick(root=None) on a tree with zero roots is a don't-care (ValueError accepted)",
    "block order inside a nexus file is not constrained, only block contents",
    "alignments() raising ValueError when any sample is isolated anywhere is the documented behaviour",
]

# --------------------------------------------------------------------------------------
# time scales (strictly increasing in the rank, so validity and edge order are preserved)
# --------------------------------------------------------------------------------------
SCALES = {
    "int": lambda r, N: float(r),
    "quarter": lambda r, N: r / 4.0,
    "eighth": lambda r, N: r / 8.0,
    "tenth": lambda r, N: r * 0.1,
    "mixed": lambda r, N: r + 0.5 * (r % 2),
    "big": lambda r, N: r * 1e6,
    # whole numbers beyond the range of a 64-bit integer (still "integer times": default precision 0)
    "e19": lambda r, N: r * 1e19,
    "pow10": lambda r, N: r * 10.0,
    "neg": lambda r, N: (r - N) * 12345.0,
    "negbig": lambda r, N: r * 1e6 - 5e5,
    "negfrac": lambda r, N: (r - N) * 1024.0 - 0.5,
}

PRECISIONS = (None, 0, 1, 3, 17)
MODES = ("default", "empty", "partial", "all", "default_explicit", "legacy", "legacy_explicit")
FAST_MODES = ("default", "legacy")


def bounds(tier):
    if tier == "quick":
        return {
            "newick": "single-tree members N<=4 (times=id, all flags) x scales {int,quarter,tenth,mixed,big,"
                      "neg,negbig}; N=3 all weak time orders x {int,neg}; full option grid "
                      "(root x precision{None,0,1,3,17} x 7 label modes x ibl{None,True,False})",
            "newick_multitree": "members N<=3,G=2 and N=3,G=3 (times=id), trees reached forwards and "
                                "backwards, reduced grid",
            "all_trees": "every tree of tskit.all_trees(n), n<=5, x scales {int,quarter,neg,big} x flags{leaves,all} x "
                     "medium grid (every root x 4 label modes x precision{None,0,1,17} + no-branch-length)",
        "probes": "chain/comb/ladder/star, sizes 2..12,13..40 (chain), 99,100,101,1000,1001,2000 x 9 scales x "
                      "flags{leaves,all} x precision{None,0,1,3,17} x modes{default,default_explicit,legacy,all}",
            "export": "members N<=3,G<=2 (times=id; int grid, stretch 1 with quarter times and stretch 4 "
                      "with int times; frac grid) x site placements (<=1 mutation per site) x fasta "
                      "(wrap 0..L+1 and default) x nexus option grid",
        }
    return {
        "newick": "single-tree members N<=5 (times=id) x 8 scales; N=4 all weak time orders x {int,neg,quarter}; "
                  "full option grid",
        "newick_multitree": "members N<=4,G=2 and N=3,G=3, forwards and backwards, reduced grid",
        "probes": "as quick plus sizes 9999,10000,10001",
        "export": "members N<=3,G<=3, N=4,G=1 and (all nodes samples) N=4,G=2 x stretch {1,4} x time scale {int,quarter} x site placements "
                  "(<=2 mutations per site for N<=3,G<=2) x fasta x nexus grids",
        "all_trees": "every tree of tskit.all_trees(n), n<=6, x 7 scales x flags{leaves,all} x medium grid",
    }


# --------------------------------------------------------------------------------------
# building inputs
# --------------------------------------------------------------------------------------
def scaled_times(ranks, scale):
    f = SCALES[scale]
    N = len(ranks)
    return [f(r, N) for r in ranks]


def build_tables(m, scale, stretch=1):
    """Tables of member m with node times rescaled and coordinates multiplied by `stretch`."""
    import tskit

    times = scaled_times(m.ranks, scale)
    tc = tskit.TableCollection(m.L * stretch)
    for u in range(m.N):
        tc.nodes.add_row(flags=1 if m.flags[u] else 0, time=times[u])
    for l, r, p, c in m.edges():
        tc.edges.add_row(l * stretch, r * stretch, p, c)
    # parts of the data model that the tree text formats do not depend on, present on every second member:
    # a migration with FRACTIONAL genome coordinates (and an integer time), time units, top-level metadata
    if m.N >= 1 and (m.N + m.G + len(m.edges())) % 2 == 1:
        tc.populations.add_row(metadata=b"p")
        tc.migrations.add_row(left=0.25, right=0.75 * m.L * stretch, node=0, source=0, dest=0, time=3.0)
        tc.time_units = "uncalibrated"
        tc.metadata = b"top"
    return tc, times


# --------------------------------------------------------------------------------------
# newick oracle
# --------------------------------------------------------------------------------------
def label_spec(mode, N, flags, children):
    """(node_labels argument or marker, expected label dict)."""
    if mode == "default":
        return None, {u: f"n{u}" for u in range(N) if flags[u]}
    if mode == "empty":
        return {}, {}
    if mode == "partial":
        d = {u: f"p{u}" for u in range(0, N, 2)}
        arg = dict(d)
        arg[N + 3] = "zz"  # not a node: must be ignored
        return arg, d
    if mode == "all":
        d = {u: "A" * (1 + u % 3) + f"{u}q" for u in range(N)}
        return dict(d), d
    if mode == "default_explicit":
        d = {u: f"n{u}" for u in range(N) if flags[u]}
        return dict(d), d
    if mode in ("legacy", "legacy_explicit"):
        d = {u: f"{u + 1}" for u in range(N) if not children[u]}
        return (None if mode == "legacy" else dict(d)), d
    raise ValueError(mode)


def call_newick(tree, root, p, mode, ibl, arg):
    kw = {}
    if p != "omit":
        kw["precision"] = p
    if root is not None:
        kw["root"] = root
    if ibl is not None:
        kw["include_branch_lengths"] = ibl
    if mode == "legacy":
        return tree.newick(**kw)
    if mode != "default":
        kw["node_labels"] = arg
    return tree.as_newick(**kw)


def exc_key(e, orc=None, root=None):
    name = type(e).__name__
    msg = str(e)
    if name == "LibraryError" and "buffer" in msg.lower():
        if orc is not None:
            return "buffer_overflow:" + orc.overflow_class(root)
        return "buffer_overflow"
    if isinstance(e, RecursionError):
        return "recursion_error"
    return "raises:" + name


class TreeOracle:
    """Everything the newick oracle needs about one marginal tree."""

    def __init__(self, N, times, flags, parent, intern):
        self.N = N
        self.times = times
        self.flags = flags
        self.parent = parent
        self.children = [[] for _ in range(N)]
        for c, p in enumerate(parent):
            if p != NULL:
                self.children[p].append(c)
        self.all_int = all(float(t).is_integer() for t in times)
        self.intern = intern
        # roots at the default threshold: parentless nodes with >= 1 sample below
        has_sample = list(flags)
        order = sorted(range(N), key=lambda u: times[u])
        for u in order:
            if parent[u] != NULL and has_sample[u]:
                has_sample[parent[u]] = 1
        self.has_sample_below = has_sample
        self.roots = [u for u in range(N) if parent[u] == NULL and has_sample[u]]
        self._labels = {}

    def overflow_class(self, root):
        """Input class of a 'buffer too small' failure (only used to name the failure key): does
        some branch below `root` have more integer digits than the time of `root` itself?"""
        import math

        if root is None:
            return "other"
        t = self.times
        assumed = math.ceil(math.log10(max(1.0, t[root])))
        needed = 0
        stack = list(self.children[root])
        while stack:
            u = stack.pop()
            needed = max(needed, len("%d" % int(t[self.parent[u]] - t[u])))
            stack.extend(self.children[u])
        if needed > assumed:
            return "branch_wider_than_root_time:" + ("negative_times" if min(t) < 0 else "times_at_most_one")
        return "other"

    def labels(self, mode):
        v = self._labels.get(mode)
        if v is None:
            v = self._labels[mode] = label_spec(mode, self.N, self.flags, self.children)
        return v

    def expected_nodes(self, root, prec, want_len, lab):
        times, parent = self.times, self.parent
        if want_len:
            def length_of(u):
                return "%.*f" % (prec, times[parent[u]] - times[u])
        else:
            def length_of(u):
                return None
        return NW.build(self.children, root, lambda u: lab.get(u, ""), length_of)


def fast_path(mode, ibl):
    return mode in FAST_MODES and ibl is not False


def check_call(tree, orc, root, p, mode, ibl, acc, case, where="newick"):
    """One as_newick/newick call against the oracle.  Returns the produced string or None."""
    arg, lab = orc.labels(mode)
    must_fail = root is None and len(orc.roots) != 1
    dont_care = root is None and len(orc.roots) == 0
    r = root if root is not None else (orc.roots[0] if len(orc.roots) == 1 else None)
    nontrivial = (not must_fail) and r is not None and bool(orc.children[r])
    acc.ev(1, nontrivial)
    path = "fast_path" if fast_path(mode, ibl) else "general_path"
    try:
        s = call_newick(tree, root, p, mode, ibl, arg)
    except ValueError as e:
        if must_fail:
            return None
        acc.fail(f"{where}:{path}:{exc_key(e, orc, r)}", f"{mode} root={root} precision={p} ibl={ibl}: {e!r}", case)
        return None
    except Exception as e:  # noqa
        if dont_care:
            acc.count("dontcare_noroot")
            return None
        acc.fail(f"{where}:{path}:{exc_key(e, orc, r)}", f"{mode} root={root} precision={p} ibl={ibl}: {e!r}", case)
        return None
    if must_fail:
        if dont_care:
            acc.count("dontcare_noroot")
            return None
        acc.fail(f"{where}:multiroot_accepted",
                 f"as_newick(root=None) on a tree with roots {orc.roots} returned {s[:200]!r}", case)
        return None
    if p == "omit" and mode == "legacy":
        prec = 14  # documented default of the deprecated Tree.newick
    elif p is None or p == "omit":
        prec = 0 if orc.all_int else 17
    else:
        prec = p
    want_len = ibl is None or ibl
    try:
        got = NW.parse(s)
    except NW.NewickError as e:
        acc.fail(f"{where}:{mode}:unparsable", f"root={root} precision={p} ibl={ibl}: {e}: {s[:300]!r}", case)
        return s
    exp = orc.expected_nodes(r, prec, want_len, lab)
    it = orc.intern
    if NW.canon(got, it, 2) != NW.canon(exp, it, 2):
        if len(got) != len(exp) or NW.canon(got, it, 0) != NW.canon(exp, it, 0):
            kind = "topology"
        elif NW.canon(got, it, 1) != NW.canon(exp, it, 1):
            kind = "labels"
            if mode == "legacy" and ibl is False and root is not None and not orc.has_sample_below[r]:
                kind = "labels:sampleless_subtree"
        else:
            kind = "branch_lengths"
            if want_len and (p is None or p == "omit"):
                # right values written at another precision?
                for alt in (0, 14, 17):
                    if alt != prec and NW.canon(orc.expected_nodes(r, alt, True, lab), it, 2) == NW.canon(got, it, 2):
                        kind = "default_precision"
        acc.fail(f"{where}:{mode}:{kind}",
                 f"root={root} precision={p} ibl={ibl}: got {s[:400]!r}; expected (up to child order) "
                 f"{render(exp)[:400]!r}", case)
    return s


def render(nodes):
    """Newick text of a node list (iterative)."""
    out = []
    stack = [(0, 0)]
    # emit using explicit state: (node, next child index)
    while stack:
        u, k = stack.pop()
        label, length, ch = nodes[u]
        if k == 0 and ch:
            out.append("(")
        if k < len(ch):
            if k > 0:
                out.append(",")
            stack.append((u, k + 1))
            stack.append((ch[k], 0))
            continue
        if ch:
            out.append(")")
        out.append(label)
        if length is not None:
            out.append(":" + length)
    return "".join(out) + ";"


def grid_full(N):
    out = []
    for root in [None] + list(range(N)):
        for mode in MODES:
            for ibl in (None, True, False):
                ps = PRECISIONS if ibl is not False else (None, 3)
                if ibl is None and mode in ("default", "legacy", "all"):
                    ps = ps + ("omit",)
                for p in ps:
                    out.append((root, p, mode, ibl))
    return out


def grid_reduced(N):
    out = []
    for root in [None] + list(range(N)):
        for mode in ("default", "default_explicit", "all", "legacy"):
            for ibl in (None, False):
                for p in ((None, 1) if ibl is None else (None,)):
                    out.append((root, p, mode, ibl))
    return out


def check_tree_grid(tree, orc, grid, acc, base):
    outs = {}
    for root, p, mode, ibl in grid:
        case = dict(base, root=root, precision=p, labels=mode, ibl=ibl)
        s = check_call(tree, orc, root, p, mode, ibl, acc, case)
        outs[(root, p, mode, ibl)] = s
    # string identity between the fast C writer and the general Python writer
    for (root, p, mode, ibl), s in outs.items():
        if mode not in ("default_explicit", "legacy_explicit"):
            continue
        twin = "default" if mode == "default_explicit" else "legacy"
        if (root, p, twin, ibl) not in outs:
            continue
        t = outs[(root, p, twin, ibl)]
        if s is None or t is None:
            continue
        if mode == "legacy_explicit" and ibl is False and root is not None \
                and not orc.has_sample_below[root]:
            continue  # reported once under labels:sampleless_subtree
        if s != t:
            case = dict(base, root=root, precision=p, labels=mode, ibl=ibl)
            kind = "fast_vs_general" if fast_path(twin, ibl) else "implicit_vs_explicit_labels"
            acc.fail(f"newick:{twin}:{kind}",
                     f"root={root} precision={p} ibl={ibl}: node_labels omitted gives {t[:300]!r}, the "
                     f"equivalent explicit mapping gives {s[:300]!r}", case)


def ref_trees(N, times, flags, edges, L):
    rts = RefTS(times, flags, edges, L)
    ivs = rts.intervals()
    return rts, ivs, [rts.parent_map(l) for l, _ in ivs]


def check_member_newick(m, scale, gridname, acc, only=None):
    base = {"part": "nw", "member": m.desc(), "scale": scale, "grid": gridname}
    acc.enter(base)
    tc, times = build_tables(m, scale)
    ts = tc.tree_sequence()
    rts, ivs, pmaps = ref_trees(m.N, times, m.flags, m.edges(), m.L)
    if ts.num_trees != len(ivs):
        acc.fail("newick:num_trees", f"{ts.num_trees} trees, model has {len(ivs)}", base)
        return
    intern = {}
    grid = grid_full(m.N) if gridname == "full" else grid_reduced(m.N)
    directions = ("fwd",) if m.G == 1 else ("fwd", "rev")
    for direction in directions:
        it = ts.trees() if direction == "fwd" else reversed(ts.trees())
        idxs = range(len(ivs)) if direction == "fwd" else range(len(ivs) - 1, -1, -1)
        for i, tree in zip(idxs, it):
            if tree.index != i:
                acc.fail("newick:tree_index", f"tree.index={tree.index} expected {i}", base)
                return
            orc = TreeOracle(m.N, times, m.flags, pmaps[i], intern)
            b = dict(base, tree=i, direction=direction)
            if only is not None:
                if only["tree"] != i or only["direction"] != direction:
                    continue
                g = [(only["root"], only["precision"], only["labels"], only["ibl"])]
                if only["labels"].endswith("_explicit"):
                    twin = "default" if only["labels"] == "default_explicit" else "legacy"
                    g.append((only["root"], only["precision"], twin, only["ibl"]))
                check_tree_grid(tree, orc, g, acc, b)
            else:
                check_tree_grid(tree, orc, grid, acc, b)
    if m.N and m.edges():
        acc.sample({"part": "nw", "member": m.desc(), "scale": scale})


# --------------------------------------------------------------------------------------
# every leaf-labelled tree shape with n leaves (tskit.all_trees is only the input generator;
# the oracle works from the tables it produced)
# --------------------------------------------------------------------------------------
def grid_medium(N):
    out = []
    for root in [None] + list(range(N)):
        for mode in ("default", "default_explicit", "all", "legacy"):
            for p in (None, 0, 1, 17):
                out.append((root, p, mode, None))
            out.append((root, None, mode, False))
    return out


def check_all_trees_case(n, idx, tree, scale, flagmode, acc, only=None):
    import tskit

    base = {"part": "at", "n": n, "index": idx, "scale": scale, "flags": flagmode}
    acc.enter(base)
    src = tree.tree_sequence.dump_tables()
    ranks = [int(t) for t in src.nodes.time]
    N = len(ranks)
    R = max(ranks) + 1
    f = SCALES[scale]
    times = [f(r, R) for r in ranks]
    parent = [NULL] * N
    for e in src.edges:
        parent[e.child] = e.parent
    has_child = [False] * N
    for p in parent:
        if p != NULL:
            has_child[p] = True
    flags = [1 if (flagmode == "all" or not has_child[u]) else 0 for u in range(N)]
    tc = tskit.TableCollection(1)
    tc.nodes.set_columns(flags=[int(x) for x in flags], time=times)
    rows = sorted((times[p], p, c) for c, p in enumerate(parent) if p != NULL)
    tc.edges.set_columns(left=[0.0] * len(rows), right=[1.0] * len(rows),
                         parent=[p for _, p, _ in rows], child=[c for _, _, c in rows])
    t = tc.tree_sequence().first()
    orc = TreeOracle(N, times, flags, parent, {})
    grid = grid_medium(N)
    if only is not None:
        grid = [(only["root"], only["precision"], only["labels"], only["ibl"])]
        if only["labels"] == "default_explicit":
            grid.append((only["root"], only["precision"], "default", only["ibl"]))
    check_tree_grid(t, orc, grid, acc, base)


def run_all_trees(spec, acc):
    import tskit

    n = spec["n"]
    for idx, tree in U.shard(enumerate(tskit.all_trees(n)), spec["k"], spec["m"]):
        for scale in spec["scales"]:
            for fl in ("leaves", "all"):
                check_all_trees_case(n, idx, tree, scale, fl, acc)
        acc.count("all_trees_shapes")


# --------------------------------------------------------------------------------------
# shape probes
# --------------------------------------------------------------------------------------
def shape(name, n):
    """(ranks, parent, leaves) of a deterministic tree with n leaves (chain: n nodes)."""
    if name == "chain":
        ranks = list(range(n))
        parent = [i + 1 for i in range(n - 1)] + [NULL]
    elif name == "star":
        ranks = [0] * n + [1]
        parent = [n] * n + [NULL]
    elif name == "comb":
        # leaves 0..n-1 at rank 0, internal n+j at rank j+1
        ranks = [0] * n + [j + 1 for j in range(n - 1)]
        parent = [NULL] * (2 * n - 1)
        parent[n - 1] = n
        parent[n - 2] = n
        for j in range(1, n - 1):
            parent[n - 2 - j] = n + j
            parent[n + j - 1] = n + j
    elif name == "ladder":
        # comb whose leaves sit one rank below their parent (all branches short)
        ranks = [0, 0] + [j for j in range(1, n - 1)] + [j + 1 for j in range(n - 1)]
        parent = [NULL] * (2 * n - 1)
        parent[0] = n
        parent[1] = n
        for j in range(1, n - 1):
            parent[j + 1] = n + j
            parent[n + j - 1] = n + j
    else:
        raise ValueError(name)
    return ranks, parent


PROBE_MODES = ("default", "default_explicit", "legacy", "all")


def check_probe(pr, acc, only=None):
    import tskit

    name, n, scale, flagmode = pr["shape"], pr["n"], pr["scale"], pr["flags"]
    base = {"part": "probe", "shape": name, "n": n, "scale": scale, "flags": flagmode}
    acc.enter(base)
    ranks, parent = shape(name, n)
    N = len(ranks)
    f = SCALES[scale]
    R = max(ranks) + 1
    times = [f(r, R) for r in ranks]
    has_child = [False] * N
    for c, p in enumerate(parent):
        if p != NULL:
            has_child[p] = True
    flags = [1 if (flagmode == "all" or not has_child[u]) else 0 for u in range(N)]
    tc = tskit.TableCollection(1)
    tc.nodes.set_columns(flags=[int(x) for x in flags], time=times)
    rows = sorted((times[p], p, c) for c, p in enumerate(parent) if p != NULL)
    tc.edges.set_columns(left=[0.0] * len(rows), right=[1.0] * len(rows),
                         parent=[p for _, p, _ in rows], child=[c for _, _, c in rows])
    ts = tc.tree_sequence()
    tree = ts.first()
    intern = {}
    orc = TreeOracle(N, times, flags, parent, intern)
    roots = [None]
    if n <= 12:
        # also the child of the root with the largest subtree (a non-root start)
        top = orc.roots[0]
        if orc.children[top]:
            roots.append(max(orc.children[top]))
    grid = []
    for root in roots:
        for mode in PROBE_MODES:
            for ibl in (None, False):
                for p in (PRECISIONS if ibl is None else (None,)):
                    grid.append((root, p, mode, ibl))
    if only is not None:
        grid = [(only["root"], only["precision"], only["labels"], only["ibl"])]
        if only["labels"] == "default_explicit":
            grid.append((only["root"], only["precision"], "default", only["ibl"]))
    check_tree_grid(tree, orc, grid, acc, base)
    acc.sample(base)


def probe_list(tier):
    sizes = {
        "chain": list(range(2, 41)) + [99, 100, 101, 1000, 1001, 2000],
        "comb": list(range(2, 13)) + [99, 100, 101, 1000, 1001, 2000],
        "ladder": list(range(3, 13)) + [100, 1000],
        "star": list(range(2, 13)) + [99, 100, 101, 999, 1000, 1001, 2000],
    }
    if tier != "quick":
        for k in ("chain", "comb", "star"):
            sizes[k] += [9999, 10000, 10001]
    scales = ("int", "quarter", "eighth", "tenth", "big", "pow10", "neg", "negbig", "negfrac")
    out = []
    for name, ns in sizes.items():
        for n in ns:
            for scale in scales:
                for fl in ("leaves", "all"):
                    out.append({"shape": name, "n": n, "scale": scale, "flags": fl})
    return out


# --------------------------------------------------------------------------------------
# nexus / fasta
# --------------------------------------------------------------------------------------
def site_position_sets(m, stretch):
    """Integer site positions used on an int-grid member (in stretched coordinates)."""
    L = int(m.L * stretch)
    P = {0, L - 1}
    if stretch > 1:
        P.add(1)
        if m.G >= 2:
            P.add(stretch)          # exactly on the first breakpoint
            P.add(stretch - 1)      # last position of the first cell
    else:
        P.update(range(L))
    return sorted(P)


def enumerate_site_placements(m, stretch, max_muts):
    """Placements in *member* coordinates (position/stretch is exact: stretch is 1 or 4)."""
    P = site_position_sets(m, stretch)
    N = m.N
    rts = RefTS(m.times, m.flags, m.edges(), m.L)
    yield []
    states = ("1",) if max_muts == 1 else ("1", "2")
    for x in P:
        xm = x / stretch
        par = rts.parent_map(xm)
        for ml in MU.mutation_lists(N, max_muts, states):
            if MU.order_valid(par, ml):
                yield [(xm, "0", list(ml))]
    if len(P) >= 2:
        # a site at every chosen position; mutation of site j on node (j + shift) % N
        yield [(x / stretch, "ACGT"[j % 4], []) for j, x in enumerate(P)]
        for shift in range(N):
            yield [(x / stretch, "0", [((j + shift) % N, "1")]) for j, x in enumerate(P)]


def build_export_ts(m, stretch, tscale, placement, embedded):
    import tskit

    tc = m.tables()  # timescale of m is "int"
    if placement:
        MU.add_sites(tc, m, placement)
    times = scaled_times(m.ranks, tscale)
    out = tskit.TableCollection(m.L * stretch)
    for u in range(m.N):
        out.nodes.add_row(flags=1 if m.flags[u] else 0, time=times[u])
    for e in tc.edges:
        out.edges.add_row(e.left * stretch, e.right * stretch, e.parent, e.child)
    for s in tc.sites:
        out.sites.add_row(s.position * stretch, s.ancestral_state)
    for mu in tc.mutations:
        out.mutations.add_row(site=mu.site, node=mu.node, derived_state=mu.derived_state,
                              parent=mu.parent, time=tskit.UNKNOWN_TIME)
    if embedded is not None:
        out.reference_sequence.data = embedded
    return out, times


def refseq(kind, L):
    base = "ACGTTGCAGATC"
    if kind == "param":
        return (base * (L // len(base) + 1))[:L]
    if kind == "embedded":
        return ("gattaca" * (L // 7 + 1))[:L]
    if kind == "short":
        return (base * (L // len(base) + 1))[:L - 1]
    if kind == "long":
        return (base * (L // len(base) + 2))[:L + 1]
    raise ValueError(kind)


class ExportOracle:
    def __init__(self, tc, times, intern):
        self.rts = RefTS.from_tables(tc)
        self.rts.times = list(times)
        self.L = tc.sequence_length
        self.ivs = self.rts.intervals()
        self.pmaps = [self.rts.parent_map(l) for l, _ in self.ivs]
        self.samples = self.rts.samples
        rts = self.rts
        self.discrete = float(self.L).is_integer() and all(
            float(x).is_integer() for e in rts.edges for x in e[:2]) and all(
            float(p).is_integer() for p, _ in rts.sites)
        self.trees = [TreeOracle(rts.N, rts.times, rts.flags, pm, intern) for pm in self.pmaps]
        self.isolated = any(
            rts.flags[u] and pm[u] == NULL and not t.children[u]
            for pm, t in zip(self.pmaps, self.trees) for u in range(rts.N))
        self.single_rooted = all(len(t.roots) == 1 for t in self.trees)
        self.allele_lists = [site_allele_list(rts, j) for j in range(len(rts.sites))]
        self.site_rows = [site_alleles(rts, j, self.samples, False) for j in range(len(rts.sites))]

    def alignments(self, ref, embedded, missing):
        """('ok', [strings]) or ('error', reason) from the documentation of alignments()."""
        L = self.L
        if not self.samples:
            # nothing to write: whether argument errors surface is not specified
            return "dontcare", []
        if not self.discrete:
            return "error", "non-discrete genome"
        L = int(L)
        if ref is None:
            ref = embedded if embedded is not None else missing * L
        if len(ref) != L:
            return "error", "reference length"
        if self.isolated:
            return "error", "isolated samples"
        for al in self.allele_lists:
            if missing in al:
                return "error", "missing character clashes with an allele"
        out = []
        for k, _u in enumerate(self.samples):
            a = list(ref)
            for j, (pos, _anc) in enumerate(self.rts.sites):
                a[int(pos)] = self.site_rows[j][k]
            out.append("".join(a))
        return "ok", out


def parse_fasta(text):
    if text and not text.endswith("\n"):
        raise ValueError("no trailing newline")
    recs = []
    for line in text.split("\n")[:-1]:
        if line.startswith(">"):
            recs.append((line[1:], []))
        else:
            if not recs:
                raise ValueError("sequence line before the first header")
            recs[-1][1].append(line)
    return recs


_TREE_RE = re.compile(r"TREE (\S+) = \[&R\] (.*)\Z")


def parse_nexus(text):
    if not text.endswith("\n"):
        raise ValueError("no trailing newline")
    lines = [ln.strip() for ln in text.split("\n")[:-1]]
    if not lines or lines[0] != "#NEXUS":
        raise ValueError("missing #NEXUS")
    blocks = {}
    order = []
    i = 1
    while i < len(lines):
        mm = re.match(r"BEGIN (\w+);\Z", lines[i])
        if not mm:
            raise ValueError(f"expected BEGIN at line {i}: {lines[i]!r}")
        name = mm.group(1)
        body = []
        i += 1
        while i < len(lines) and lines[i] != "END;":
            body.append(lines[i])
            i += 1
        if i >= len(lines):
            raise ValueError(f"block {name} not closed")
        i += 1
        if name in blocks:
            raise ValueError(f"duplicate block {name}")
        blocks[name] = body
        order.append(name)
    out = {"order": order}
    if "TAXA" not in blocks:
        raise ValueError("no TAXA block")
    b = blocks["TAXA"]
    if len(b) != 2:
        raise ValueError(f"TAXA body {b}")
    mm = re.match(r"DIMENSIONS NTAX=(\d+);\Z", b[0])
    m2 = re.match(r"TAXLABELS ?(.*);\Z", b[1])
    if not mm or not m2:
        raise ValueError(f"TAXA body {b}")
    out["ntax"] = int(mm.group(1))
    out["taxlabels"] = m2.group(1).split()
    out["data"] = None
    if "DATA" in blocks:
        b = blocks["DATA"]
        if len(b) < 4 or b[2] != "MATRIX" or b[-1] != ";":
            raise ValueError(f"DATA body {b}")
        mm = re.match(r"DIMENSIONS NCHAR=(\d+);\Z", b[0])
        m2 = re.match(r"FORMAT DATATYPE=DNA MISSING=(.);\Z", b[1])
        if not mm or not m2:
            raise ValueError(f"DATA header {b[:2]}")
        rows = []
        for ln in b[3:-1]:
            parts = ln.split(" ")
            if len(parts) != 2:
                raise ValueError(f"matrix row {ln!r}")
            rows.append((parts[0], parts[1]))
        out["data"] = {"nchar": int(mm.group(1)), "missing": m2.group(1), "rows": rows}
    out["trees"] = None
    if "TREES" in blocks:
        trees = []
        for ln in blocks["TREES"]:
            mm = _TREE_RE.match(ln)
            if not mm:
                raise ValueError(f"tree line {ln!r}")
            trees.append((mm.group(1), mm.group(2)))
        out["trees"] = trees
    extra = set(blocks) - {"TAXA", "DATA", "TREES"}
    if extra:
        raise ValueError(f"unexpected blocks {extra}")
    return out


def fasta_grid(L):
    out = []
    for w in ["omit"] + list(range(0, L + 2)):
        out.append((w, "param", None))
    for w in ("omit", 3):
        for ref in ("none", "embedded", "both", "short", "long"):
            for miss in (None, "-", "1"):
                out.append((w, ref, miss))
        for miss in ("-", "1"):
            out.append((w, "param", miss))
    return out


def nexus_grid():
    out = []
    for p in (None, 0, 1, 17):
        for it in (None, True, False):
            for ia in (None, True, False):
                out.append((p, it, ia, "param", None))
    for ref in ("none", "embedded", "both", "short"):
        for miss in (None, "-", "1"):
            out.append((None, False, True, ref, miss))
    out.append((3, None, None, "none", None))
    out.append((None, None, None, "embedded", "-"))
    return out


def ref_args(refkind, L):
    """(reference_sequence argument, embedded data) for a reference mode."""
    Li = int(L)
    if refkind == "none":
        return None, None
    if refkind == "param":
        return refseq("param", Li), None
    if refkind == "embedded":
        return None, refseq("embedded", Li)
    if refkind == "both":
        return refseq("param", Li), refseq("embedded", Li)
    if refkind == "short":
        return refseq("short", Li), None
    if refkind == "long":
        return refseq("long", Li), None
    raise ValueError(refkind)


def impl_alignments(ts, ref, miss_eff):
    try:
        return "ok", list(ts.alignments(reference_sequence=ref, missing_data_character=miss_eff))
    except (ValueError, TypeError) as e:
        return "error", type(e).__name__


def check_fasta(ts, eo, cfg, embedded, acc, case, nontrivial):
    w, refkind, miss = cfg
    ref, _ = ref_args(refkind, eo.L)
    kw = {}
    if w != "omit":
        kw["wrap_width"] = w
    if ref is not None:
        kw["reference_sequence"] = ref
    if miss is not None:
        kw["missing_data_character"] = miss
    miss_eff = "N" if miss is None else miss
    status, exp = eo.alignments(ref, embedded, miss_eff)
    acc.ev(1, nontrivial and status == "ok")
    try:
        text = ts.as_fasta(**kw)
    except ValueError as e:
        if status == "dontcare":
            acc.count("dontcare_nosamples")
        elif status == "ok":
            acc.fail("fasta:raises", f"{cfg}: {e!r} but alignments are defined: {exp}", case)
        return
    except Exception as e:  # noqa
        acc.fail("fasta:raises:" + type(e).__name__, f"{cfg}: {e!r}", case)
        return
    if status == "dontcare":
        acc.count("dontcare_nosamples")
        if text != "":
            acc.fail("fasta:output_without_samples", f"{cfg}: {text[:200]!r}", case)
        return
    if status != "ok":
        acc.fail("fasta:error_expected", f"{cfg}: expected ValueError ({exp}), got {text[:200]!r}", case)
        return
    ist, impl = impl_alignments(ts, ref, miss)
    if ist != "ok" or impl != exp:
        acc.fail("fasta:alignments_model", f"{cfg}: alignments() gives {impl}, model {exp}", case)
    # an alignments() iterator that is still being consumed while OTHER exports of the same tree sequence run
    # (another reference, another missing-data character) must keep yielding its own alignments
    if len(exp) >= 2:
        try:
            it = ts.alignments(reference_sequence=ref, missing_data_character=miss)
            got = [next(it)]
            other = "ACGT"[int(eo.L) % 4] * int(eo.L)
            try:
                ts.as_fasta(reference_sequence=other, missing_data_character="x" if miss_eff != "x" else "y")
                list(ts.alignments(missing_data_character="z"))
            except ValueError:
                pass
            got += list(it)
            if got != exp:
                acc.fail("fasta:interleaved_iterators", f"{cfg}: an alignments() iterator interleaved with other exports "
                         f"yields {got}, expected {exp}", case)
        except Exception as e:  # noqa
            acc.fail("fasta:interleaved_iterators:raised", f"{cfg}: {e!r}", case)
    try:
        recs = parse_fasta(text)
    except ValueError as e:
        acc.fail("fasta:unparsable", f"{cfg}: {e}: {text[:300]!r}", case)
        return
    labels = [r[0] for r in recs]
    if labels != [f"n{u}" for u in eo.samples]:
        acc.fail("fasta:labels", f"{cfg}: headers {labels}, samples {eo.samples}", case)
        return
    width = 60 if w == "omit" else w
    for (lab, lines), a in zip(recs, exp):
        if "".join(lines) != a:
            acc.fail("fasta:sequence", f"{cfg}: {lab}: lines {lines} expected alignment {a!r}", case)
            break
        if width == 0:
            good = len(lines) == 1
        else:
            good = all(len(x) == width for x in lines[:-1]) and 1 <= len(lines[-1]) <= width \
                and len(lines) == -(-len(a) // width)
        if not good:
            acc.fail("fasta:wrap", f"{cfg}: {lab}: lines {lines} for width {width}", case)
            break


def check_nexus(ts, eo, cfg, embedded, acc, case, nontrivial):
    p, it, ia, refkind, miss = cfg
    ref, _ = ref_args(refkind, eo.L)
    kw = {}
    if p is not None:
        kw["precision"] = p
    if it is not None:
        kw["include_trees"] = it
    if ia is not None:
        kw["include_alignments"] = ia
    if ref is not None:
        kw["reference_sequence"] = ref
    if miss is not None:
        kw["missing_data_character"] = miss
    nsites = len(eo.rts.sites)
    ia_eff = (eo.discrete and nsites > 0) if ia is None else ia
    it_eff = True if it is None else it
    miss_eff = "?" if miss is None else miss
    status, exp = ("ok", None)
    if ia_eff:
        status, exp = eo.alignments(ref, embedded, miss_eff)
    tree_error = it_eff and not eo.single_rooted
    if status == "dontcare":
        if tree_error:
            status = "error"
        else:
            # no samples and no tree to write (a tree without samples has no root)
            acc.ev(1, False)
            acc.count("dontcare_nosamples")
            try:
                nx = parse_nexus(ts.as_nexus(**kw))
                if nx["ntax"] != 0 or nx["taxlabels"] or (nx["data"] and nx["data"]["rows"]):
                    acc.fail("nexus:output_without_samples", f"{cfg}: {nx}", case)
            except ValueError:
                pass
            return
    ok_expected = status == "ok" and not tree_error
    acc.ev(1, nontrivial and ok_expected)
    try:
        text = ts.as_nexus(**kw)
    except ValueError as e:
        if ok_expected:
            acc.fail("nexus:raises", f"{cfg}: {e!r} although trees are single-rooted and alignments defined", case)
        return
    except Exception as e:  # noqa
        key = exc_key(e)
        acc.fail("nexus:" + key, f"{cfg}: {e!r}", case)
        return
    if not ok_expected:
        why = exp if status != "ok" else "a tree without a single root"
        acc.fail("nexus:error_expected", f"{cfg}: expected ValueError ({why}), got {text[:300]!r}", case)
        return
    try:
        nx = parse_nexus(text)
    except ValueError as e:
        acc.fail("nexus:unparsable", f"{cfg}: {e}: {text[:400]!r}", case)
        return
    want = [f"n{u}" for u in eo.samples]
    if nx["ntax"] != len(want) or nx["taxlabels"] != want:
        acc.fail("nexus:taxa", f"{cfg}: NTAX={nx['ntax']} TAXLABELS={nx['taxlabels']} samples {eo.samples}", case)
    if (nx["data"] is not None) != bool(ia_eff):
        acc.fail("nexus:data_presence", f"{cfg}: DATA block present={nx['data'] is not None} expected {ia_eff}", case)
    elif ia_eff:
        d = nx["data"]
        if d["nchar"] != int(eo.L) or d["missing"] != miss_eff:
            acc.fail("nexus:data_header", f"{cfg}: NCHAR={d['nchar']} MISSING={d['missing']!r} expected "
                     f"{int(eo.L)} {miss_eff!r}", case)
        rows = d["rows"]
        if [r[0] for r in rows] != want:
            acc.fail("nexus:data_labels", f"{cfg}: rows {rows}", case)
        elif [r[1] for r in rows] != exp:
            acc.fail("nexus:data_sequence", f"{cfg}: rows {rows} expected {exp}", case)
        ist, impl = impl_alignments(ts, ref, miss_eff)
        if ist != "ok" or impl != exp:
            acc.fail("nexus:alignments_model", f"{cfg}: alignments() gives {impl}, model {exp}", case)
    if (nx["trees"] is not None) != bool(it_eff):
        acc.fail("nexus:trees_presence", f"{cfg}: TREES block present={nx['trees'] is not None}", case)
    elif it_eff:
        pos_prec = p if p is not None else (0 if eo.discrete else 17)
        names = ["t%.*f^%.*f" % (pos_prec, l, pos_prec, r) for l, r in eo.ivs]
        got_names = [t[0] for t in nx["trees"]]
        if got_names != names:
            acc.fail("nexus:tree_names", f"{cfg}: names {got_names} expected {names}", case)
            return
        impl_newicks = [(t.num_roots, t.as_newick(precision=p) if t.num_roots == 1 else None)
                        for t in ts.trees()]
        for k, (name, nwk) in enumerate(nx["trees"]):
            orc = eo.trees[k]
            prec = p if p is not None else (0 if orc.all_int else 17)
            _, lab = orc.labels("default")
            try:
                got = NW.parse(nwk)
            except NW.NewickError as e:
                acc.fail("nexus:tree_unparsable", f"{cfg}: {name}: {e}: {nwk[:300]!r}", case)
                break
            expn = orc.expected_nodes(orc.roots[0], prec, True, lab)
            if NW.canon(got, orc.intern, 2) != NW.canon(expn, orc.intern, 2):
                acc.fail("nexus:tree_newick", f"{cfg}: {name}: {nwk[:300]!r} expected (up to child order) "
                         f"{render(expn)[:300]!r}", case)
                break
            same = impl_newicks[k][1]
            if same != nwk:
                acc.fail("nexus:tree_vs_as_newick", f"{cfg}: {name}: {nwk[:300]!r} but as_newick gives {same[:300]!r}", case)
                break


def check_export_input(m, stretch, tscale, placement, acc, only=None):
    base = {"part": "ex", "member": m.desc(), "stretch": stretch, "tscale": tscale,
            "placement": [[x, a, [list(mu) for mu in ml]] for x, a, ml in placement]}
    acc.enter(base)
    intern = {}
    cache = {}

    def get(embedded):
        if embedded not in cache:
            tc, times = build_export_ts(m, stretch, tscale, placement, embedded)
            cache[embedded] = (tc.tree_sequence(), ExportOracle(tc, times, intern))
        return cache[embedded]

    L = m.L * stretch
    nontrivial = bool(m.edges()) and bool(m.samples)
    Li = int(L)
    fg = fasta_grid(Li)
    ng = nexus_grid()
    if only is not None:
        fg = [tuple(only["cfg"])] if only["fmt"] == "fasta" else []
        ng = [tuple(only["cfg"])] if only["fmt"] == "nexus" else []
    for cfg in fg:
        _, emb = ref_args(cfg[1], L)
        ts, eo = get(emb)
        check_fasta(ts, eo, cfg, emb, acc, dict(base, fmt="fasta", cfg=list(cfg)), nontrivial)
    for cfg in ng:
        _, emb = ref_args(cfg[3], L)
        ts, eo = get(emb)
        check_nexus(ts, eo, cfg, emb, acc, dict(base, fmt="nexus", cfg=list(cfg)), nontrivial)


def export_inputs(m, spec):
    for stretch, tscale in spec["variants"]:
        if m.grid != "int":
            yield stretch, tscale, []
            rts_pos = m.coords[0]
            yield stretch, tscale, [(rts_pos, "0", [])]
            continue
        for pl in enumerate_site_placements(m, stretch, spec["max_muts"]):
            yield stretch, tscale, pl
        # one site at a non-integer position: the genome is no longer discrete
        yield stretch, tscale, [(m.coords[0] + 1 / 8, "0", [])]


# --------------------------------------------------------------------------------------
# shards
# --------------------------------------------------------------------------------------
def _split(specs, part, b, per, **extra):
    cnt = U.count_members(b["N"], b["G"], b.get("times", "id"), b.get("flags", "all"))
    n = max(1, -(-cnt // per))
    for k in range(n):
        specs.append(dict(part=part, b=b, k=k, n=n, **extra))


def shards(tier, seed):
    specs = []
    quick = tier == "quick"
    # --- newick, single-tree members, full grid
    if quick:
        sc = ["int", "quarter", "tenth", "mixed", "big", "neg", "negbig", "e19"]
        for n in (0, 1, 2, 3):
            _split(specs, "nw", dict(N=n, G=1, times="id"), 24, scales=sc, grid="full")
        _split(specs, "nw", dict(N=4, G=1, times="id"), 6, scales=sc, grid="full")
        _split(specs, "nw", dict(N=3, G=1, times="weak"), 40, scales=["int", "neg"], grid="full")
        _split(specs, "nw", dict(N=2, G=2, times="id"), 16, scales=["int", "neg"], grid="reduced")
        _split(specs, "nw", dict(N=3, G=2, times="id"), 40, scales=["int", "neg"], grid="reduced")
        _split(specs, "nw", dict(N=3, G=3, times="id"), 100, scales=["quarter"], grid="reduced")
    else:
        sc = ["int", "quarter", "tenth", "mixed", "big", "neg", "negbig", "negfrac", "e19"]
        for n in (0, 1, 2, 3):
            _split(specs, "nw", dict(N=n, G=1, times="id"), 24, scales=sc, grid="full")
        _split(specs, "nw", dict(N=4, G=1, times="id"), 8, scales=sc, grid="full")
        _split(specs, "nw", dict(N=5, G=1, times="id"), 16, scales=sc, grid="full")
        _split(specs, "nw", dict(N=3, G=1, times="weak"), 40, scales=sc, grid="full")
        _split(specs, "nw", dict(N=4, G=1, times="weak"), 120, scales=["int", "neg", "quarter"], grid="full")
        _split(specs, "nw", dict(N=3, G=2, times="id"), 40, scales=["int", "neg", "quarter"], grid="reduced")
        _split(specs, "nw", dict(N=4, G=2, times="id"), 150, scales=["int", "neg"], grid="reduced")
        _split(specs, "nw", dict(N=3, G=3, times="id"), 100, scales=["quarter", "neg"], grid="reduced")
    # --- every tree shape with n leaves
    at_sc = ["int", "quarter", "neg", "big"] if quick else ["int", "quarter", "tenth", "mixed", "big", "neg", "negbig"]
    for n, parts in ((2, 1), (3, 1), (4, 2), (5, 12)) if quick else ((2, 1), (3, 1), (4, 2), (5, 12), (6, 120)):
        for k in range(parts):
            specs.append(dict(part="at", n=n, k=k, m=parts, scales=at_sc))
    # --- probes
    pl = probe_list(tier)
    cost = lambda pr: (pr["n"] if pr["shape"] != "star" else pr["n"] // 2) + 30  # noqa
    pl.sort(key=cost, reverse=True)
    budget = 9000 if quick else 30000
    cur, acc_cost = [], 0
    for pr in pl:
        cur.append(pr)
        acc_cost += cost(pr)
        if acc_cost >= budget:
            specs.append(dict(part="probe", probes=cur))
            cur, acc_cost = [], 0
    if cur:
        specs.append(dict(part="probe", probes=cur))
    # --- export
    if quick:
        v = [(1, "quarter"), (4, "int")]
        for n in (0, 1, 2):
            for g in (1, 2):
                _split(specs, "ex", dict(N=n, G=g, times="id"), 8, variants=v, max_muts=1)
        _split(specs, "ex", dict(N=3, G=1, times="id"), 6, variants=v, max_muts=1)
        _split(specs, "ex", dict(N=3, G=2, times="id"), 6, variants=v, max_muts=1)
        _split(specs, "ex", dict(N=2, G=2, times="id", grid="frac"), 16, variants=[(1, "int")], max_muts=1)
        _split(specs, "ex", dict(N=3, G=2, times="id", grid="frac"), 100, variants=[(1, "int")], max_muts=1)
    else:
        v = [(1, "quarter"), (4, "int"), (1, "int"), (4, "quarter")]
        for n in (0, 1, 2):
            for g in (1, 2, 3):
                _split(specs, "ex", dict(N=n, G=g, times="id"), 8, variants=v, max_muts=2)
        _split(specs, "ex", dict(N=3, G=1, times="id"), 2, variants=v, max_muts=2)
        _split(specs, "ex", dict(N=3, G=2, times="id"), 2, variants=v[:2], max_muts=2)
        _split(specs, "ex", dict(N=3, G=3, times="id"), 12, variants=v[:2], max_muts=1)
        _split(specs, "ex", dict(N=4, G=1, times="id"), 6, variants=v[:2], max_muts=1)
        _split(specs, "ex", dict(N=4, G=2, times="id", flags="allsamples"), 6, variants=[(4, "int")], max_muts=1)
        _split(specs, "ex", dict(N=3, G=2, times="id", grid="frac"), 100, variants=[(1, "int")], max_muts=1)
    return specs


def run_shard(spec):
    acc = Acc()
    part = spec["part"]
    if part == "nw":
        for m in U.shard(U.enumerate_members(**spec["b"]), spec["k"], spec["n"]):
            for scale in spec["scales"]:
                check_member_newick(m, scale, spec["grid"], acc)
    elif part == "at":
        run_all_trees(spec, acc)
    elif part == "probe":
        for pr in spec["probes"]:
            check_probe(pr, acc)
    elif part == "ex":
        first = True
        for m in U.shard(U.enumerate_members(**spec["b"]), spec["k"], spec["n"]):
            for stretch, tscale, pl in export_inputs(m, spec):
                check_export_input(m, stretch, tscale, pl, acc)
                acc.count("export_inputs")
            if first and m.edges() and m.samples:
                acc.sample({"part": "ex", "member": m.desc()})
                first = False
    else:
        raise ValueError(part)
    return acc.result()


def replay(case):
    acc = Acc()
    part = case.get("part")
    if part == "nw":
        m = U.Member.from_desc(case["member"])
        only = case if "labels" in case else None
        check_member_newick(m, case["scale"], case.get("grid", "full"), acc, only=only)
    elif part == "probe":
        only = case if "labels" in case else None
        check_probe(case, acc, only=only)
    elif part == "at":
        import tskit

        tree = next(itertools.islice(tskit.all_trees(case["n"]), case["index"], None))
        only = case if "labels" in case else None
        check_all_trees_case(case["n"], case["index"], tree, case["scale"], case["flags"], acc, only=only)
    elif part == "ex":
        m = U.Member.from_desc(case["member"])
        pl = [(x, a, [tuple(mu) for mu in ml]) for x, a, ml in case["placement"]]
        only = case if "fmt" in case else None
        check_export_input(m, case["stretch"], case["tscale"], pl, acc, only=only)
    else:
        raise ValueError(f"unknown case {case}")
    return acc.failures
