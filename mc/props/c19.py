"""C19  IBD segments are exactly the maximal shared-path intervals of each sample pair.

Exhaustive input-space exploration: every edge structure of the small-scope universe x
every `within` node subset / `between` family of disjoint node sets / default (sample
flags) x min_span x max_time x store_pairs x store_segments, each call of the real
TableCollection.ibd_segments / TreeSequence.ibd_segments compared with the positional
reference model mc/ref/ibd.py (per elementary interval: MRCA + edge-row chains; maximal
runs), including every summary (num_segments, total_span, num_pairs, pairs, per-pair
len/total_span) and the not-stored errors."""
import itertools
import math

from .. import universe as U
from ..acc import Acc
from .. import argforms as AF
from ..ref.ibd import RefIBD, between_pairs, within_pairs
from ..ref.trees import NULL, RefTS

ID = "C19"
LEVEL = "exploration"
VARIANT = "plain"
RULE = ("every edge structure of the universe piece (all parent choices per node per cell; sample "
        "flags are a configuration) x set configuration (within = every node subset of size >= 2, "
        "non-samples included | between = every family of 2-3 disjoint non-empty node sets | "
        "default = every sample-flag subset) x (min_span, max_time) grid x (store_pairs, "
        "store_segments); one evaluation = one ibd_segments call fully compared; non-trivial = at "
        "least one requested pair has a common ancestor somewhere (unfiltered expected result "
        "non-empty); all (structure, configuration) tuples are distinct by construction")
ASSUMPTIONS = [
    "a 'path' is a chain of edge rows (TableCollection.ibd_segments docstring: adjacent rows with equal "
    "parent and child split the segments underneath)",
    "max_time exactly equal to an MRCA's time is a don't-care (docs: 'more recent than'; the code keeps "
    "equality): either reading is accepted, occurrences are counted",
    "order of pairs and of segments within a pair is unspecified: compared as sets / sorted lists",
    "node times are >= 0 in all pieces (negative max_time is rejected by the library)",
    "errors for not-stored information may be any exception",
]
EPS = 1e-9

STORES_ALL = [(False, False), (True, False), (False, True), (True, True)]


# ----------------------------------------------------------------------------------------
# bounds / shards
# ----------------------------------------------------------------------------------------
def pieces(tier):
    """(universe kwargs, options, structures per shard)."""
    if tier == "quick":
        return [
            (dict(N=2, G=1, times="weak"), dict(sets="ordered", filters="full", stores="all"), 50),
            (dict(N=2, G=2, times="weak"), dict(sets="ordered", filters="full", stores="all"), 50),
            (dict(N=2, G=3, times="weak"), dict(sets="ordered", filters="full", stores="all"), 50),
            (dict(N=3, G=1, times="weak"), dict(sets="ordered", filters="full", stores="all"), 20),
            (dict(N=3, G=2, times="weak"), dict(sets="ordered", filters="quickfull", stores="all"), 16),
            (dict(N=3, G=3, times="id"), dict(sets="unordered", filters="quickfull", stores="all"), 12),
            (dict(N=4, G=1, times="id"), dict(sets="ordered", filters="full", stores="all"), 2),
            (dict(N=4, G=2, times="id"), dict(sets="unordered", filters="quickfull", stores="two"), 8),
            (dict(N=4, G=2, times="id", squash=False),
             dict(sets="unordered", filters="reduced", stores="two", only_unsquashed=True), 12),
            (dict(N=3, G=2, times="weak", grid="frac", timescale="quarter"),
             dict(sets="unordered", filters="quickfull", stores="two"), 16),
            (dict(N=5, G=1, times="id"), dict(sets="unordered", filters="reduced", stores="two"), 2),
        ]
    return [
        (dict(N=2, G=1, times="weak"), dict(sets="ordered", filters="full", stores="all"), 50),
        (dict(N=2, G=2, times="weak"), dict(sets="ordered", filters="full", stores="all"), 50),
        (dict(N=2, G=3, times="weak"), dict(sets="ordered", filters="full", stores="all"), 50),
        (dict(N=3, G=1, times="weak"), dict(sets="ordered", filters="full", stores="all"), 40),
        (dict(N=3, G=2, times="weak"), dict(sets="ordered", filters="full", stores="all"), 100),
        (dict(N=3, G=3, times="weak"), dict(sets="ordered", filters="full", stores="all"), 80),
        (dict(N=4, G=1, times="weak"), dict(sets="unordered", filters="full", stores="all"), 50),
        (dict(N=4, G=2, times="id"), dict(sets="ordered", filters="full", stores="all"), 20),
        (dict(N=4, G=2, times="id", squash=False),
         dict(sets="unordered", filters="full", stores="all", only_unsquashed=True), 40),
        (dict(N=4, G=2, times="weak"),
         dict(sets="unordered", filters="reduced", stores="one", no_empty=True), 300),
        (dict(N=4, G=3, times="id"),
         dict(sets="unordered", filters="reduced", stores="one", no_empty=True), 250),
        (dict(N=3, G=3, times="weak", grid="frac", timescale="quarter"),
         dict(sets="ordered", filters="full", stores="two"), 80),
        (dict(N=5, G=1, times="id"), dict(sets="unordered", filters="full", stores="all"), 10),
        (dict(N=5, G=2, times="id"),
         dict(sets="unordered2", filters="reduced", stores="one", no_default=True, no_empty=True), 120),
    ]


def bounds(tier):
    return {"pieces": [{"universe": b, "options": o} for b, o, _ in pieces(tier)],
            "sets": "ordered = every ordered family; unordered = every family once (set order and element "
                    "order varied deterministically); unordered2 = families of exactly 2 sets",
            "filters": "full = min_span grid x max_time grid; quickfull = the same but the don't-care max_time "
                       "values (equal to a node time) only with two min_span values; reduced = each axis "
                       "alone + a diagonal, exact max_time values only",
            "min_span": "0, every distinct span of the grid, and the midpoints between them",
            "max_time": "None, midpoints between consecutive distinct node times, above the oldest node, "
                        "and (don't-care class) each node time itself",
            "stores": "all = 4 (store_pairs, store_segments) combinations; two = (F,T)/(T,T) alternating "
                      "plus one of (F,F)/(T,F); one = (F,T)/(T,T) alternating only; the default-sample-set configurations use one rotating "
                      "variant per filter"}


def shards(tier, seed):
    specs = []
    for b, o, per in pieces(tier):
        cnt = U.count_members(b["N"], b["G"], b.get("times", "id"), flags="none")
        n = max(1, -(-cnt // per))
        for k in range(n):
            specs.append(dict(b=b, o=o, k=k, n=n))
    nb = 4 if tier == "quick" else 16
    for k in range(nb):
        specs.append(dict(bigid=True, b=dict(N=3, G=2) if tier == "quick" else dict(N=4, G=2), o={}, k=k, n=nb))
    return specs


# ----------------------------------------------------------------------------------------
# configuration spaces
# ----------------------------------------------------------------------------------------
def within_configs(N):
    out = []
    for k in range(2, N + 1):
        for c in itertools.combinations(range(N), k):
            out.append(list(c) if len(out) % 2 == 0 else list(c)[::-1])
    return out


def between_configs(N, mode):
    out = []
    ks = (2,) if mode == "unordered2" else (2, 3)
    for k in ks:
        if k > N:
            continue
        for lab in itertools.product(range(-1, k), repeat=N):
            if set(range(k)) - set(lab):
                continue
            if mode != "ordered":
                firsts = [lab.index(j) for j in range(k)]
                if firsts != sorted(firsts):
                    continue
            fam = [[u for u in range(N) if lab[u] == j] for j in range(k)]
            if mode != "ordered" and len(out) % 2 == 1:
                fam = [s[::-1] for s in fam[::-1]]
            out.append(fam)
    return out


def min_span_values(coords, mode):
    spans = sorted({b - a for a, b in itertools.combinations(coords, 2)})
    vals = [0.0]
    prev = 0.0
    for s in spans:
        vals.append((prev + s) / 2)
        vals.append(s)
        prev = s
    if mode == "reduced":
        vals = vals[:4]  # the DESIGN list {0, .5, 1, 1.5} on the integer grid
    return vals


def max_time_values(times):
    """[(value, exact)]: exact=False when the value equals some node time (don't-care)."""
    ts = sorted(set(times))
    out = [(None, True)]
    for a, b in zip(ts, ts[1:]):
        out.append(((a + b) / 2, True))
    if ts:
        out.append((ts[-1] + 1.0, True))
    for t in ts[1:]:
        out.append((t, False))
    return out


# thresholds at the ends of their ranges: nothing is longer than an infinite min_span (an empty result, not an
# error); an infinite max_time is the documented default given explicitly
EXTREME_FILTERS = [(math.inf, None, True), (0.0, math.inf, True), (math.inf, math.inf, True)]


def filter_grid(coords, times, mode):
    return _filter_grid(coords, times, mode) + EXTREME_FILTERS


def _filter_grid(coords, times, mode):
    ms = min_span_values(coords, mode)
    mt = max_time_values(times)
    if mode == "full":
        return [(a, b, ex) for a in ms for (b, ex) in mt]
    if mode == "quickfull":
        # full cross product for the exact max_time values; the don't-care values (max_time
        # equal to a node time) only with min_span 0 and the smallest span
        return [(a, b, ex) for a in ms for (b, ex) in mt if ex or a in (ms[0], ms[2])]
    mt = [x for x in mt if x[1]]  # the don't-care values are left to the full modes
    out = [(a, None, True) for a in ms]
    out += [(0.0, b, ex) for (b, ex) in mt[1:]]
    for i, a in enumerate(ms[1:]):
        b, ex = mt[1 + (i % (len(mt) - 1))] if len(mt) > 1 else (None, True)
        if (a, b, ex) not in out:
            out.append((a, b, ex))
    return out


def store_list(mode, i):
    if mode == "all":
        return STORES_ALL
    if mode == "one":
        return [STORES_ALL[2 + (i % 2)]]
    return [STORES_ALL[2 + (i % 2)], STORES_ALL[(i // 2) % 2]]


# ----------------------------------------------------------------------------------------
# one structure
# ----------------------------------------------------------------------------------------
class Ctx:
    def __init__(self, m0):
        self.m0 = m0
        self.N = m0.N
        self.times = m0.times
        self.rts = RefTS(m0.times, [0] * m0.N, m0.edges(), m0.L)
        self.R = RefIBD(self.rts)
        self._tables = {}
        self._ts = {}
        self._trees = None

    def member(self, mask):
        fl = [(mask >> u) & 1 for u in range(self.N)]
        m = self.m0
        return U.Member(m.N, m.G, m.ranks, m.parents, fl, m.grid, m.squash, m.timescale)

    def tables(self, mask):
        # ONE TableCollection per structure, re-flagged IN PLACE when another sample set is wanted: whatever
        # an earlier ibd_segments() call remembered about the samples must not survive the edit
        import numpy as np

        tc = self._tables.get("tc")
        if tc is None:
            tc = self._tables["tc"] = self.member(mask).tables()
        elif self._tables.get("mask") != mask:
            tc.nodes.flags = np.array([(mask >> u) & 1 for u in range(self.N)], dtype=np.uint32)
        self._tables["mask"] = mask
        return tc

    def ts(self, mask):
        ts = self._ts.get(mask)
        if ts is None:
            ts = self._ts[mask] = self.tables(mask).tree_sequence()
        return ts

    def trees(self):
        if self._trees is None:
            self._trees = [(l, r, self.rts.tree_at(l)) for l, r in self.rts.intervals()]
        return self._trees

    def pairs(self, kind, sets, mask):
        if kind == "within":
            return within_pairs(sets)
        if kind == "between":
            return between_pairs(sets)
        return within_pairs([u for u in range(self.N) if (mask >> u) & 1])


def flt_tag(ms, mt):
    if ms > 0 and mt is not None:
        return "both"
    if ms > 0:
        return "min_span"
    if mt is not None:
        return "max_time"
    return "nofilter"


def read_full(res):
    """-> (dict {(a,b): sorted segs}, problems list)."""
    probs = []
    got = {}
    keys = [tuple(int(x) for x in row) for row in res.pairs.tolist()]
    for a, b in keys:
        k = (a, b) if a < b else (b, a)
        if k in got:
            probs.append(("pairs:duplicate", f"pair {k} listed twice in pairs {keys}"))
            continue
        lst = res[(a, b)]
        left = lst.left.tolist()
        right = lst.right.tolist()
        node = lst.node.tolist()
        segs = sorted(zip(left, right, node))
        got[k] = segs
        if len(lst) != len(segs):
            probs.append(("pair:len", f"len(result[{k}]) = {len(lst)} but {len(segs)} segments stored"))
        tot = sum(r - l for l, r, _ in segs)
        if abs(lst.total_span - tot) > EPS:
            probs.append(("pair:total_span", f"result[{k}].total_span = {lst.total_span}, segments sum to {tot}"))
    return got, keys, probs


def expect_error(fn):
    try:
        fn()
    except Exception:  # noqa
        return True
    return False


def precompute(ctx, kind, sets, mask, ms, mt, exact, pairs=None, nontrivial=None):
    R = ctx.R
    if pairs is None:
        pairs = ctx.pairs(kind, sets, mask)
    exp = R.expected(pairs, ms, mt, True)
    alt = None
    if not exact:
        alt = R.expected(pairs, ms, mt, False)
        if alt == exp:
            alt = None
    if nontrivial is None:
        nontrivial = any(R.pair_segments(a, b) for a, b in pairs)
    return pairs, exp, alt, nontrivial


def check_call(ctx, kind, sets, mask, ms, mt, exact, sp, ss, via, acc, deep=False, pre=None):
    """Run one ibd_segments call and compare everything observable.  Returns nothing."""
    def case():
        return {"member": ctx.member(mask).desc(), "kind": kind, "sets": sets, "min_span": ms,
                "max_time": mt, "store_pairs": sp, "store_segments": ss, "via": via}
    if pre is None:
        pre = precompute(ctx, kind, sets, mask, ms, mt, exact)
    pairs, exp, alt, nontrivial = pre
    acc.ev(1, nontrivial)

    kw = {}
    if kind == "within":
        kw["within"] = sets
    elif kind == "between":
        kw["between"] = sets
    kwc = None
    # omitted / None arguments and the documented defaults are the same thing: both forms occur
    if ms != 0 or (sp and ss):
        kw["min_span"] = ms
    if mt is not None:
        kw["max_time"] = mt
    elif sp and not ss:
        kw["max_time"] = None
    if sp or ss:
        kw["store_pairs"] = sp
    if ss:
        kw["store_segments"] = ss
    obj = ctx.ts(mask) if via == "ts" else ctx.tables(mask)
    # the id lists in one of the forms a caller may pass (strided / reversed views, int64, tuples ...)
    kwc = dict(kw)
    if kind == "within":
        kwc["within"] = AF.pick(sets, salt=int(sp) + 2 * int(ss))[1]
    elif kind == "between":
        kwc["between"] = [AF.pick(x, salt=i + int(sp))[1] for i, x in enumerate(sets)]
    try:
        res = obj.ibd_segments(**kwc)
    except Exception as e:  # noqa
        acc.fail(f"{kind}:call_raised", f"ibd_segments({kw}) raised {e!r}", case())
        return

    def fail(key, what):
        acc.fail(key, f"{what} | call ibd_segments({kw}) via {via}; edges={ctx.rts.edges} "
                      f"times={list(ctx.times)}", case())

    try:
        _compare(ctx, kind, res, pairs, exp, alt, ms, mt, sp, ss, deep, acc, fail)
    except Exception as e:  # noqa
        fail(f"{kind}:api_raised", f"an accessor of the result raised unexpectedly: {e!r}")


def _compare(ctx, kind, res, pairs, exp, alt, ms, mt, sp, ss, deep, acc, fail):
    tag = flt_tag(ms, mt)

    def summarise(e):
        n = sum(len(v) for v in e.values())
        tot = sum(r - l for v in e.values() for l, r, _ in v)
        return n, tot, len(e)

    stored_pairs = sp or ss
    chosen = exp
    if ss:
        try:
            got, keys, probs = read_full(res)
        except Exception as e:  # noqa
            fail(f"{kind}:read_raised", f"reading stored segments raised {e!r}")
            return
        for k, w in probs:
            fail(k, w)
        if got != exp:
            if alt is not None and got == alt:
                chosen = alt
                acc.count("dontcare_max_time_equal_kept")
            else:
                fail(f"{kind}:segments:{tag}", f"segments {got} expected {exp}"
                     + (f" (or {alt})" if alt is not None else ""))
                return
    elif stored_pairs:
        try:
            keys = [tuple(int(x) for x in row) for row in res.pairs.tolist()]
            gotsum = {}
            for a, b in keys:
                k = (a, b) if a < b else (b, a)
                if k in gotsum:
                    fail("pairs:duplicate", f"pair {k} listed twice in pairs {keys}")
                lst = res[(a, b)]
                gotsum[k] = (len(lst), lst.total_span)
        except Exception as e:  # noqa
            fail(f"{kind}:read_raised", f"reading stored pairs raised {e!r}")
            return

        def sums(e):
            return {k: (len(v), sum(r - l for l, r, _ in v)) for k, v in e.items()}

        def same(g, e):
            return g.keys() == e.keys() and all(
                g[k][0] == e[k][0] and abs(g[k][1] - e[k][1]) <= EPS for k in e)

        if not same(gotsum, sums(exp)):
            if alt is not None and same(gotsum, sums(alt)):
                chosen = alt
                acc.count("dontcare_max_time_equal_kept")
            else:
                fail(f"{kind}:pair_summaries:{tag}",
                     f"per-pair (num, total_span) {gotsum} expected {sums(exp)}"
                     + (f" (or {sums(alt)})" if alt is not None else ""))
                return
    else:
        n, tot, _ = summarise(exp)
        if not (res.num_segments == n and abs(res.total_span - tot) <= EPS):
            if alt is not None:
                n2, tot2, _ = summarise(alt)
                if res.num_segments == n2 and abs(res.total_span - tot2) <= EPS:
                    chosen = alt
                    acc.count("dontcare_max_time_equal_kept")

    n, tot, npairs = summarise(chosen)
    if res.num_segments != n:
        fail(f"summary:num_segments:{kind}", f"num_segments = {res.num_segments} expected {n}")
    if abs(res.total_span - tot) > EPS:
        fail(f"summary:total_span:{kind}", f"total_span = {res.total_span} expected {tot}")
    if stored_pairs:
        if res.num_pairs != npairs or len(res) != npairs:
            fail("summary:num_pairs", f"num_pairs = {res.num_pairs}, len = {len(res)} expected {npairs}")
        it = [tuple(int(x) for x in k) for k in res]
        if it != keys:
            fail("pairs:iter", f"iteration gives {it} but pairs gives {keys}")
        # look-ups in both orders, and for absent pairs (deep: every form; otherwise one
        # look-up per node pair: reversed order when present, KeyError when absent)
        N = ctx.N
        for a in range(N):
            for b in range(a + 1, N):
                present = (a, b) in chosen
                for k in (((a, b), (b, a)) if deep else ((b, a),) if present else ((a, b),)):
                    try:
                        lst = res[k]
                        ok = present
                        if present and ss:
                            s = sorted(zip(lst.left.tolist(), lst.right.tolist(), lst.node.tolist()))
                            ok = s == chosen[(a, b)]
                        elif present:
                            ok = len(lst) == len(chosen[(a, b)])
                    except KeyError:
                        ok = not present
                    except Exception as e:  # noqa
                        fail("lookup:raised", f"result[{k}] raised {e!r}")
                        continue
                    if not ok:
                        fail("lookup:present" if present else "lookup:absent",
                             f"result[{k}]: expected {'segments ' + str(chosen[(a, b)]) if present else 'KeyError'}")
                    if deep and (k in res) != present:
                        fail("lookup:contains", f"({k} in result) = {k in res} expected {present}")
        if not ss and chosen:
            k0 = next(iter(chosen))
            lst = res[k0]
            for name in ("left", "right", "node"):
                if not expect_error(lambda: getattr(lst, name)):
                    fail("notstored:segments", f"result[{k0}].{name} gave a value although segments are not stored")
            if not expect_error(lambda: list(lst)):
                fail("notstored:segments", f"list(result[{k0}]) gave a value although segments are not stored")
    else:
        for name, fn in (("num_pairs", lambda: res.num_pairs), ("pairs", lambda: res.pairs),
                         ("len", lambda: len(res)), ("iter", lambda: list(res)),
                         ("getitem", lambda: res[(0, 1)])):
            if not expect_error(fn):
                fail("notstored:pairs", f"{name} gave a value although pairs are not stored")

    if deep:
        try:
            str(res)
            repr(res)
        except Exception as e:  # noqa
            fail("str_repr", f"str/repr raised {e!r}")
    if deep and ss:
        # Python-level sequence protocol
        for k, lst in res.items():
            k = tuple(sorted(int(x) for x in k))
            objs = list(lst)
            trip = sorted((o.left, o.right, o.node) for o in objs)
            if trip != got.get(k) or any(o.span != o.right - o.left for o in objs):
                fail("protocol:items", f"items() gives {k}: {objs}")
            if not (lst == res[k]):
                fail("protocol:eq", f"IdentitySegmentList for {k} is not equal to itself")
    if deep and ss and ms == 0 and mt is None:
        # without filters: disjoint, and covering exactly where a common ancestor exists
        # (stated directly on the reference trees, independently of the signature code)
        for a, b in pairs:
            segs = got.get((a, b), [])
            for (l1, r1, _), (l2, r2, _) in zip(segs, segs[1:]):
                if r1 > l2:
                    fail("nofilter:overlap", f"pair {(a, b)}: segments {segs} overlap")
            for l, r, t in ctx.trees():
                mr = t.mrca(a, b)
                cover = [n for (sl, sr, n) in segs if sl <= l and r <= sr]
                if (mr == NULL and cover) or (mr != NULL and cover != [mr]):
                    fail("nofilter:cover", f"pair {(a, b)} on [{l},{r}): MRCA {mr}, covering segment nodes {cover}")


def config_list(ctx, opts):
    """[(kind, sets, mask)] for one structure."""
    N = ctx.N
    out = []
    full = (1 << N) - 1
    for i, W in enumerate(within_configs(N)):
        out.append(("within", W, (i * 5 + 3) & full))
    for i, F in enumerate(between_configs(N, opts["sets"])):
        out.append(("between", F, (i * 7 + 1) & full))
    if not opts.get("no_default"):
        for mask in range(1 << N):
            out.append(("default", None, mask))
    return out


def check_config(ctx, kind, sets, mask, ci, opts, acc):
    acc.enter({"member": ctx.member(mask).desc(), "kind": kind, "sets": sets, "group": True,
               "opts": opts})
    grid = filter_grid(ctx.m0.coords, ctx.times, opts["filters"])
    pairs = ctx.pairs(kind, sets, mask)
    nontrivial = any(ctx.R.pair_segments(a, b) for a, b in pairs)
    pres = []
    for fi, (ms, mt, exact) in enumerate(grid):
        pre = precompute(ctx, kind, sets, mask, ms, mt, exact, pairs, nontrivial)
        pres.append(pre)
        stores = store_list(opts["stores"], ci + fi)
        if kind == "default":
            # the default sample set differs from `within` only in how the set is initialised:
            # one rotating store variant per filter
            stores = [STORES_ALL[(ci + fi) % 4]]
        for sp, ss in stores:
            check_call(ctx, kind, sets, mask, ms, mt, exact, sp, ss, "tables", acc,
                       deep=(fi == 0 or fi == len(grid) - 1), pre=pre)
    # the TreeSequence entry point: no filter and one filtered call
    for fi in (0, len(grid) // 2):
        ms, mt, exact = grid[fi]
        check_call(ctx, kind, sets, mask, ms, mt, exact, False, True, "ts", acc, deep=False,
                   pre=pres[fi])
    if kind == "between" and len(sets) == 2 and not opts.get("no_empty"):
        # an empty list among the sets contributes nothing
        for fam in ([sets[0], [], sets[1]], [[], sets[0], sets[1]], [sets[0], sets[1], []]):
            check_empty_between(ctx, fam, mask, acc)


def check_empty_between(ctx, fam, mask, acc):
    case = {"member": ctx.member(mask).desc(), "kind": "between", "sets": fam, "min_span": 0.0,
            "max_time": None, "store_pairs": False, "store_segments": True, "via": "tables",
            "empty": True}
    exp = ctx.R.expected(between_pairs([s for s in fam if s]), 0.0, None)
    acc.ev(1, bool(exp))
    try:
        res = ctx.tables(mask).ibd_segments(between=fam, store_segments=True)
        got, _, _ = read_full(res)
    except Exception as e:  # noqa
        acc.fail("between:empty_set", f"between={fam} raised {e!r}", case)
        return
    if got != exp:
        acc.fail("between:empty_set", f"between={fam}: segments {got} expected {exp}; "
                                      f"edges={ctx.rts.edges}", case)


def unsquashed_matters(m):
    for u in range(m.N):
        for g in range(m.G - 1):
            if m.parents[g][u] >= 0 and m.parents[g][u] == m.parents[g + 1][u]:
                return True
    return False


def check_struct(m0, opts, acc):
    ctx = Ctx(m0)
    acc.count("structures")
    for ci, (kind, sets, mask) in enumerate(config_list(ctx, opts)):
        check_config(ctx, kind, sets, mask, ci, opts, acc)
    if m0.edges():
        acc.sample({"member": m0.desc(), "edges": m0.edges()})


BIG_SHIFT = 50000  # > 46340 = sqrt(2**31): products of two node ids no longer fit 32 bits


def check_bigid(m, acc):
    """Metamorphic scale probe: the same genealogy with every node id shifted by BIG_SHIFT (dummy
    non-sample nodes in front) must give the same segments with shifted ids, under every store option."""
    import numpy as np

    S = [u for u in range(m.N)]
    tc = m.tables()
    K = BIG_SHIFT
    big = tc.copy()
    big.nodes.clear()
    big.edges.clear()
    n = tc.nodes
    big.nodes.set_columns(flags=np.concatenate([np.zeros(K, dtype=n.flags.dtype), n.flags]),
                          time=np.concatenate([np.zeros(K), n.time]))
    e = tc.edges
    big.edges.set_columns(left=e.left, right=e.right, parent=e.parent + K, child=e.child + K)
    case = {"bigid": True, "member": m.desc()}
    acc.enter(case)
    configs = [("within", S)]
    if m.N >= 2:
        configs.append(("between", [[S[0]], S[1:]]))
        configs.append(("within", S[::-1][:2]))
    for kind, sets in configs:
        for sp, ss in ((False, False), (True, False), (False, True), (True, True)):
            kw0 = {kind: sets}
            kw1 = {kind: ([u + K for u in sets] if kind == "within" else [[u + K for u in x] for x in sets])}
            try:
                r0 = tc.ibd_segments(store_pairs=sp, store_segments=ss, **kw0)
                r1 = big.ibd_segments(store_pairs=sp, store_segments=ss, **kw1)
                ok = r0.num_segments == r1.num_segments and abs(r0.total_span - r1.total_span) <= EPS
                what = f"num_segments/total_span {r1.num_segments}/{r1.total_span} vs {r0.num_segments}/{r0.total_span}"
                if ok and (sp or ss):
                    p0 = sorted(tuple(sorted((a + K, b + K))) for a, b in r0.pairs.tolist())
                    p1 = sorted(tuple(sorted((int(a), int(b)))) for a, b in r1.pairs.tolist())
                    ok = p0 == p1
                    what = f"pairs {p1[:4]} expected {p0[:4]}"
                    if ok:
                        for a, b in p1:
                            l1, l0 = r1[(a, b)], r0[(a - K, b - K)]
                            if len(l1) != len(l0) or abs(l1.total_span - l0.total_span) > EPS:
                                ok, what = False, f"pair {(a, b)}: {len(l1)} segments / span {l1.total_span}"
                                break
                            if ss and sorted(zip(l1.left.tolist(), l1.right.tolist(), l1.node.tolist())) != \
                                    sorted((l, r, u + K) for l, r, u in zip(l0.left.tolist(), l0.right.tolist(), l0.node.tolist())):
                                ok, what = False, f"pair {(a, b)}: segments differ after the id shift"
                                break
            except Exception as ex:  # noqa
                ok, what = False, f"raised {ex!r}"
            acc.ev(1, bool(m.edges()))
            if not ok:
                acc.fail(f"bigid:{kind}", f"ids shifted by {K}, store_pairs={sp}, store_segments={ss}, {kind}={sets}: {what}",
                         dict(case, kind=kind, sets=sets))


def run_shard(spec):
    acc = Acc()
    if spec.get("bigid"):
        for m in U.shard(U.enumerate_members(flags="none", **spec["b"]), spec["k"], spec["n"]):
            if m.N >= 2:
                check_bigid(m, acc)
        return acc.result()
    gen = U.enumerate_members(flags="none", **spec["b"])
    if spec["o"].get("only_unsquashed"):
        gen = (m for m in gen if unsquashed_matters(m))
    for m in U.shard(gen, spec["k"], spec["n"]):
        check_struct(m, spec["o"], acc)
    return acc.result()


def replay(case):
    acc = Acc()
    m = U.Member.from_desc(case["member"])
    if case.get("bigid"):
        check_bigid(m, acc)
        return acc.failures
    mask = sum(1 << u for u in range(m.N) if m.flags[u])
    m0 = U.Member(m.N, m.G, m.ranks, m.parents, [0] * m.N, m.grid, m.squash, m.timescale)
    ctx = Ctx(m0)
    if case.get("group"):
        opts = dict(case.get("opts") or {})
        opts.update(filters="full", stores="all")
        opts.setdefault("sets", "ordered")
        check_config(ctx, case["kind"], case["sets"], mask, 0, opts, acc)
        return acc.failures
    if case.get("empty"):
        check_empty_between(ctx, case["sets"], mask, acc)
        return acc.failures
    mt = case["max_time"]
    exact = mt is None or mt not in set(m.times)
    check_call(ctx, case["kind"], case["sets"], mask, case["min_span"], mt, exact,
               case["store_pairs"], case["store_segments"], case["via"], acc, deep=True)
    return acc.failures
