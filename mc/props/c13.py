"""C13  Tables behave like a list of rows; tree sequences never change.

Model checking of operation histories: for each of the eight table classes a breadth-first
enumeration of all sequences (depth <= 2 quick, 3 thorough) of mutating table operations,
each step executed on the real table and mirrored on a plain Python list of rows; after every
step the table is compared with the model through every read path.  Second part: every
public method/property of TreeSequence, Tree and Variant is called, every numpy array
reachable from the result is attacked, and the tree sequence's tables must be unchanged."""
import itertools
import pickle

from ..acc import Acc
from .. import argforms as AF

ID = "C13"
LEVEL = "model_checking"
RULE = ("state = operation history from {empty table, 2-row table} (x max_rows_increment in {default, 1}); "
        "transition = one mutating table operation on the real table mirrored on a list-of-rows model; "
        "every state is observed through num_rows, every column and offset array, integer/slice/mask/id-array "
        "indexing, copy, pickle and equality with a table rebuilt from the model; immutability part: one evaluation "
        "per (tree sequence, class, member) with every reachable array attacked")
ASSUMPTIONS = [
    "a rejected set_columns may leave the table unchanged or empty-but-consistent (not documented as atomic)",
    "histories are depth-bounded (2 quick / 3 thorough), not closed",
]

F8, I4, U4, I1 = "f8", "i4", "u4", "i1"
TABLES = {
    "nodes": dict(cls="NodeTable", fixed=[("flags", U4), ("time", F8), ("population", I4), ("individual", I4)],
                  ragged=[("metadata", I1)]),
    "edges": dict(cls="EdgeTable", fixed=[("left", F8), ("right", F8), ("parent", I4), ("child", I4)],
                  ragged=[("metadata", I1)]),
    "sites": dict(cls="SiteTable", fixed=[("position", F8)], ragged=[("ancestral_state", I1), ("metadata", I1)]),
    "mutations": dict(cls="MutationTable", fixed=[("site", I4), ("node", I4), ("parent", I4), ("time", F8)],
                      ragged=[("derived_state", I1), ("metadata", I1)], selfref="parent"),
    "individuals": dict(cls="IndividualTable", fixed=[("flags", U4)],
                        ragged=[("location", F8), ("parents", I4), ("metadata", I1)], selfref_ragged="parents"),
    "populations": dict(cls="PopulationTable", fixed=[], ragged=[("metadata", I1)]),
    "migrations": dict(cls="MigrationTable", fixed=[("left", F8), ("right", F8), ("node", I4), ("source", I4),
                                                    ("dest", I4), ("time", F8)], ragged=[("metadata", I1)]),
    "provenances": dict(cls="ProvenanceTable", fixed=[], ragged=[("timestamp", I1), ("record", I1)]),
}
STRING_COLS = {"ancestral_state", "derived_state", "timestamp", "record"}
# columns that set_columns / append_columns accept as omitted, with the documented default
OPTIONAL = {
    "nodes": {"population": -1, "individual": -1, "metadata": ()},
    "edges": {"metadata": ()},
    "sites": {"metadata": ()},
    "mutations": {"parent": -1, "time": "UNKNOWN", "metadata": ()},
    "individuals": {"location": (), "parents": (), "metadata": ()},
    "populations": {},
    "migrations": {"metadata": ()},
    "provenances": {},
}


def bounds(tier):
    return {"quick": "depth 2 from both initial states for all 8 tables (+ depth 3 from the empty table for error ops)",
            "thorough": "depth 3 for all 8 tables"}[tier]


def row_alphabet(tname):
    """4 rows with ragged fields of length 0 / 1 / 3 / mixed."""
    spec = TABLES[tname]
    rows = []
    lens = [(0, 0, 0), (1, 3, 1), (3, 0, 2), (2, 1, 0)]
    for k in range(4):
        r = {}
        for j, (name, ty) in enumerate(spec["fixed"]):
            if ty == F8:
                r[name] = float(k) + 0.5 * j
            elif name == spec.get("selfref"):
                # includes a forward reference (row k=1 -> row 2) and backward ones
                r[name] = (-1, 2, 0, 1)[k]
            elif ty == U4:
                # the top bit and the all-ones value: not representable as a signed int
                r[name] = (j, 1 + j, 2 ** 31 + j, 2 ** 32 - 1)[k]
            elif ty == I4:
                r[name] = (j, 1 + j, 2 + j, 2 ** 31 - 2)[k]
            else:
                r[name] = k + j
        for j, (name, ty) in enumerate(spec["ragged"]):
            n = lens[k][j % 3]
            if ty == F8:
                r[name] = tuple(float(k) + i for i in range(n))
            elif name == spec.get("selfref_ragged"):
                r[name] = [(), (2, -1, 0), (), (1,)][k]
            else:
                r[name] = tuple((65 + k + i) % 128 for i in range(n))
        rows.append(r)
    return rows


# ------------------------------------------------------------------------ model <-> table
def to_kwargs(tname, r):
    kw = {}
    for name, ty in TABLES[tname]["fixed"]:
        kw[name] = r[name]
    for name, ty in TABLES[tname]["ragged"]:
        v = r[name]
        if name in STRING_COLS:
            kw[name] = bytes(v).decode("ascii")
        elif ty == I1:
            kw[name] = bytes(v)
        else:
            kw[name] = list(v)
    return kw


def new_table(tname, incr=0):
    import tskit

    cls = getattr(tskit, TABLES[tname]["cls"])
    return cls(max_rows_increment=incr) if incr else cls()


def columns_from_model(tname, rows):
    """Numpy columns (incl. offsets) that set_columns expects for these model rows."""
    import numpy as np

    d = {}
    for name, ty in TABLES[tname]["fixed"]:
        d[name] = np.array([r[name] for r in rows], dtype=ty)
    for name, ty in TABLES[tname]["ragged"]:
        flat = [x for r in rows for x in r[name]]
        off = [0]
        for r in rows:
            off.append(off[-1] + len(r[name]))
        d[name] = np.array(flat, dtype=ty)
        d[name + "_offset"] = np.array(off, dtype=np.uint64)
    return d


def observe(tname, t, model, where, fail):
    """Compare the real table with the model through every read path."""
    import numpy as np

    n = len(model)
    if t.num_rows != n or len(t) != n:
        fail("num_rows", f"{where}: num_rows={t.num_rows} model has {n}")
        return False
    exp = columns_from_model(tname, model)
    ok = True
    for col, arr in exp.items():
        got = getattr(t, col)
        if col.endswith("_offset"):
            if got.tolist() != arr.tolist():
                fail("offsets", f"{where}: {col}={got.tolist()} expected {arr.tolist()}")
                ok = False
        elif got.tobytes() != arr.astype(got.dtype).tobytes() or got.dtype != arr.dtype:
            fail("column", f"{where}: {col}={got.tolist()} expected {arr.tolist()}")
            ok = False
    if not ok:
        return False
    for j in range(n):
        for idx in (j, j - n):
            row = t[idx]
            kw = to_kwargs(tname, model[j])
            for k, v in kw.items():
                g = getattr(row, k)
                if hasattr(g, "tolist"):
                    g = g.tolist()
                    v = list(v)
                if g != v and not (isinstance(v, float) and v != v):
                    fail("getitem", f"{where}: row {idx}.{k}={g!r} expected {v!r}")
                    return False
    for bad in (n, -n - 1):
        try:
            t[bad]
            fail("getitem-bounds", f"{where}: t[{bad}] did not raise")
        except IndexError:
            pass
    # a table rebuilt another way (add_row from the model) must be equal
    other = new_table(tname)
    for r in model:
        other.add_row(**to_kwargs(tname, r))
    if not t.equals(other) or not other.equals(t) or t != other:
        fail("equals-rebuilt", f"{where}: table differs from one rebuilt by add_row from the model")
        return False
    # slices, masks, id arrays
    subs = [(slice(None), list(range(n))), (slice(1, None), list(range(1, n))), (slice(None, None, -1), list(range(n - 1, -1, -1))),
            (slice(0, n, 2), list(range(0, n, 2)))]
    for mask in itertools.product((False, True), repeat=min(n, 3)):
        m = list(mask) + [True] * (n - len(mask))
        subs.append((np.array(m, dtype=bool), [j for j in range(n) if m[j]]))
    if n:
        subs.append(([n - 1, 0, 0], [n - 1, 0, 0]))
        subs.append((np.array([], dtype=np.int32), []))
        # id arrays and masks that are views with a stride (the glue must not read them as contiguous)
        ids = [n - 1] + list(range(n))
        for k in (1, 2, 3, 5):
            subs.append((AF.reform(np.array(ids, dtype=np.int32), k)[1], ids))
        subs.append((AF.reform(np.array(ids, dtype=np.int64), 1)[1], ids))
        # unsorted / repeated id arrays whose first and last entries span exactly their length
        if n >= 3:
            subs.append(([0] + list(range(n - 2, 0, -1)) + [n - 1], [0] + list(range(n - 2, 0, -1)) + [n - 1]))
            subs.append(([1, 1] + list(range(2, n)), [1, 1] + list(range(2, n))))
            subs.append(([0] + [0] * (n - 2) + [n - 1], [0] + [0] * (n - 2) + [n - 1]))
        msk = [j % 2 == 0 for j in range(n)]
        for k in (1, 2, 3):
            subs.append((AF.reform(np.array(msk, dtype=bool), k)[1], [j for j in range(n) if msk[j]]))
    for idx, want in subs:
        try:
            sub = t[idx]
        except Exception as e:  # noqa
            fail("subset-error", f"{where}: t[{idx!r}] raised {e!r}")
            continue
        o = new_table(tname)
        for j in want:
            o.add_row(**to_kwargs(tname, model[j]))
        if not sub.equals(o):
            fail("subset", f"{where}: t[{idx!r}] differs from model rows {want}")
    c = t.copy()
    p = pickle.loads(pickle.dumps(t))
    if not c.equals(t) or not p.equals(t):
        fail("copy-pickle", f"{where}: copy/pickle differs")
    return True


# ------------------------------------------------------------------------------ operations
def ops_for(tname, model):
    """Mutating operations enabled in this state (each a JSON-able tuple)."""
    n = len(model)
    ops = []
    for k in range(4):
        ops.append(("add_row", k))
    ops.append(("append", 1))
    for j in range(-n - 1, n + 1):
        for k in (0, 2):
            ops.append(("setitem", j, k))
    for k in range(0, n + 2):
        ops.append(("truncate", k))
    if n <= 3:
        for mask in itertools.product((0, 1), repeat=n):
            ops.append(("keep_rows", list(mask)))
    ops.append(("keep_rows", [1] * (n + 1)))
    ops.append(("clear",))
    variants = ["model", "wronglen", "badoff_first", "badoff_last"] + [f"omit:{c}" for c in OPTIONAL[tname]]
    variants += [f"badoff_nonmono{j}" for j in range(len(TABLES[tname]["ragged"]))]
    for variant in variants:
        ops.append(("set_columns", variant))
        ops.append(("append_columns", variant))
    single_column = not TABLES[tname]["fixed"] and len(TABLES[tname]["ragged"]) == 1
    for (name, ty) in TABLES[tname]["ragged"]:
        ops.append(("packset", name, "ok"))
        if not single_column:
            # for a table whose only column is this one (populations) the row count is defined by
            # the argument itself, so there is no 'wrong length'
            ops.append(("packset", name, "wronglen"))
    cols = [c for c, _ in TABLES[tname]["fixed"]][:2] + [c for c, _ in TABLES[tname]["ragged"]][:1]
    for c in cols:
        ops.append(("assign", c, "ok"))
        ops.append(("assign", c, "wronglen"))
    if any(c == "metadata" for c, _ in TABLES[tname]["ragged"]):
        ops.append(("drop_metadata", False))
        ops.append(("drop_metadata", True))
    ops.append(("copy",))
    ops.append(("pickle",))
    return ops


def keep_rows_model(tname, model, mask):
    """Returns (new model, id map) or raises ValueError per the documented rules."""
    n = len(model)
    if len(mask) != n:
        raise ValueError("length")
    idmap = []
    k = 0
    for j in range(n):
        if mask[j]:
            idmap.append(k)
            k += 1
        else:
            idmap.append(-1)
    spec = TABLES[tname]
    new = []
    for j in range(n):
        if not mask[j]:
            continue
        r = dict(model[j])
        if "selfref" in spec:
            p = r[spec["selfref"]]
            if p != -1:
                if p < 0 or p >= n:
                    raise ValueError("out of bounds")
                if idmap[p] == -1:
                    raise ValueError("dangling")
                r[spec["selfref"]] = idmap[p]
        if "selfref_ragged" in spec:
            out = []
            for p in r[spec["selfref_ragged"]]:
                if p != -1:
                    if p < 0 or p >= n:
                        raise ValueError("out of bounds")
                    if idmap[p] == -1:
                        raise ValueError("dangling")
                    p = idmap[p]
                out.append(p)
            r[spec["selfref_ragged"]] = tuple(out)
        new.append(r)
    return new, idmap


def bulk_columns(tname, rows, variant):
    import numpy as np

    d = columns_from_model(tname, rows)
    ragged = [c for c, _ in TABLES[tname]["ragged"]]
    fixed = [c for c, _ in TABLES[tname]["fixed"]]
    if variant == "model":
        return d, True
    if variant.startswith("omit:"):
        c = variant[5:]
        d.pop(c)
        d.pop(c + "_offset", None)
        return d, True
    if variant == "wronglen":
        col = fixed[0] if fixed else ragged[0] + "_offset"
        d[col] = np.concatenate([d[col], d[col][:1]]) if len(d[col]) else np.zeros(1, dtype=d[col].dtype)
        return d, False
    if variant == "badoff_first":
        c = ragged[0]
    elif variant.startswith("badoff_nonmono"):
        c = ragged[int(variant[len("badoff_nonmono"):])]
    else:
        c = ragged[-1]
    off = d[c + "_offset"].copy()
    if variant.startswith("badoff_nonmono"):
        if len(off) < 3 or off[-1] == 0:
            off = np.array([0, 2, 1, 1], dtype=np.uint64)
            d[c] = np.zeros(1, dtype=d[c].dtype)
        else:
            off[1] = off[-1] + 1
    else:
        off[-1] += 1  # claims more data than present
    d[c + "_offset"] = off
    return d, False


class Sim:
    """The real table and its model, advanced together."""

    def __init__(self, tname, init, incr):
        self.tname = tname
        self.alpha = row_alphabet(tname)
        self.t = new_table(tname, incr)
        self.model = []
        if init in ("two", "three"):
            # "three": row 0 refers forward to row 2, row 1 is referred to by nobody, row 2 refers back to row 0
            for k in ((1, 2) if init == "two" else (1, 0, 2)):
                self.t.add_row(**to_kwargs(tname, self.alpha[k]))
                self.model.append(dict(self.alpha[k]))

    def step(self, op, fail):
        """Apply op to both; returns False if the table can no longer be trusted."""
        import numpy as np
        import types

        tname, t, model, alpha = self.tname, self.t, self.model, self.alpha
        n = len(model)
        name = op[0]
        exp_err = False
        new_model = model
        atomic = True
        try:
            if name == "add_row":
                new_model = model + [dict(alpha[op[1]])]
                ret = t.add_row(**to_kwargs(tname, alpha[op[1]]))
                if ret != n:
                    fail("add_row-return", f"returned {ret} expected {n}")
            elif name == "append":
                new_model = model + [dict(alpha[op[1]])]
                rowobj = types.SimpleNamespace(**to_kwargs(tname, alpha[op[1]]))
                ret = t.append(rowobj)
                if ret != n:
                    fail("append-return", f"returned {ret} expected {n}")
            elif name == "setitem":
                j, k = op[1], op[2]
                if -n <= j < n:
                    new_model = list(model)
                    new_model[j % n] = dict(alpha[k])
                else:
                    exp_err = True
                t[j] = types.SimpleNamespace(**to_kwargs(tname, alpha[k]))
            elif name == "truncate":
                k = op[1]
                if k <= n:
                    new_model = model[:k]
                else:
                    exp_err = True
                t.truncate(k)
            elif name == "keep_rows":
                mask = op[1]
                try:
                    new_model, idmap = keep_rows_model(tname, model, mask)
                except ValueError:
                    exp_err = True
                    idmap = None
                form, karg = AF.reform(np.array(mask, dtype=bool), sum(mask) + len(mask))
                ret = t.keep_rows(karg)
                if idmap is not None and ret.tolist() != idmap:
                    fail("keep_rows-idmap", f"returned {ret.tolist()} expected {idmap}")
            elif name == "clear":
                new_model = []
                t.clear()
            elif name in ("set_columns", "append_columns"):
                rows = [dict(alpha[0]), dict(alpha[3]), dict(alpha[1])]
                d, good = bulk_columns(tname, rows, op[1])
                if d is None:
                    return True
                if good:
                    if op[1].startswith("omit:"):
                        import tskit

                        c = op[1][5:]
                        dv = OPTIONAL[tname][c]
                        dv = tskit.UNKNOWN_TIME if dv == "UNKNOWN" else dv
                        rows = [dict(r, **{c: dv}) for r in rows]
                    new_model = (rows if name == "set_columns" else model + rows)
                else:
                    exp_err = True
                    atomic = name != "set_columns"
                # every column in a different memory layout (strided / reversed views, read-only ...)
                d = {k: AF.reform(v, i + n)[1] for i, (k, v) in enumerate(sorted(d.items()))}
                getattr(t, name)(**d)
            elif name == "packset":
                col, variant = op[1], op[2]
                vals = [alpha[(j + 1) % 4][col] for j in range(n)]
                if variant == "wronglen":
                    vals = vals + [alpha[0][col]]
                    exp_err = True
                    atomic = False
                else:
                    new_model = [dict(r, **{col: v}) for r, v in zip(model, vals)]
                ty = dict(TABLES[tname]["ragged"])[col]
                if col in STRING_COLS:
                    arg = [bytes(v).decode("ascii") for v in vals]
                elif ty == I1:
                    arg = [bytes(v) for v in vals]
                else:
                    arg = [np.array(v, dtype=ty) for v in vals]
                getattr(t, "packset_" + col)(arg)
            elif name == "assign":
                col, variant = op[1], op[2]
                isr = col in dict(TABLES[tname]["ragged"])
                if isr:
                    # assigning a ragged data column of unchanged total length keeps the offsets
                    cur = getattr(t, col)
                    arr = cur[::-1].copy() if variant == "ok" else np.concatenate([cur, cur[:1]]) if len(cur) else np.zeros(1, dtype=cur.dtype)
                    if variant == "ok":
                        flat = arr.tolist()
                        new_model, pos = [], 0
                        for r in model:
                            k = len(r[col])
                            new_model.append(dict(r, **{col: tuple(flat[pos:pos + k])}))
                            pos += k
                    else:
                        exp_err = True
                        atomic = False
                else:
                    ty = dict(TABLES[tname]["fixed"])[col]
                    vals = [alpha[(j + 2) % 4][col] for j in range(n)]
                    if variant == "wronglen":
                        vals = vals + [alpha[0][col]]
                        exp_err = True
                        atomic = False
                    else:
                        new_model = [dict(r, **{col: v}) for r, v in zip(model, vals)]
                    arr = np.array(vals, dtype=ty)
                setattr(t, col, AF.reform(arr, n + len(col))[1])
            elif name == "drop_metadata":
                new_model = [dict(r, metadata=()) for r in model]
                t.drop_metadata(keep_schema=op[1])
            elif name == "copy":
                self.t = t = t.copy()
            elif name == "pickle":
                self.t = t = pickle.loads(pickle.dumps(t))
            else:
                raise AssertionError(op)
            err = None
        except Exception as e:  # noqa
            err = e
        if exp_err and err is None:
            fail(f"{name}:no-error", f"{op} on {n} rows should have been rejected")
            return False
        if not exp_err and err is not None:
            fail(f"{name}:unexpected-error", f"{op} raised {err!r}")
            return False
        if exp_err:
            # rejected: unchanged; a rejected set_columns-style op may also leave an empty consistent table
            if not atomic and self.t.num_rows == 0 and n != 0:
                ok = observe(tname, self.t, [], f"after rejected {op}", lambda k, w: None)
                if ok:
                    self.model = []
                    return True
            return observe(tname, self.t, model, f"after rejected {op}",
                           lambda k, w: fail(f"{name}:rejected-but-changed:{k}", w))
        self.model = new_model
        return observe(tname, self.t, new_model, f"after {op}", lambda k, w: fail(f"{name}:{k}", w))


def explore(tname, init, incr, depth, acc, first_ops=None):
    """All histories of mutating ops up to the depth; first_ops restricts the first step (sharding)."""
    case0 = {"table": tname, "init": init, "incr": incr}
    frontier = [()]
    states = 1
    transitions = 0
    for d in range(depth):
        nxt = []
        for hist in frontier:
            sim = Sim(tname, init, incr)
            bad = False
            for h in hist:
                if not sim.step(h, lambda k, w: None):
                    bad = True
                    break
            if bad:
                continue
            ops = ops_for(tname, sim.model)
            if d == 0 and first_ops is not None:
                ops = [o for i, o in enumerate(ops) if i % first_ops[1] == first_ops[0]]
            for op in ops:
                h2 = hist + (op,)
                case = dict(case0, history=[list(o) for o in h2])
                acc.enter(case)
                sim = Sim(tname, init, incr)
                for h in hist:
                    sim.step(h, lambda k, w: None)
                fails = []
                ok = sim.step(op, lambda k, w: fails.append((k, w)))
                transitions += 1
                for k, w in fails:
                    acc.fail(f"{tname}:{k}", f"history {[list(o) for o in h2]}: {w}", case)
                if ok and not fails:
                    nxt.append(h2)
                    states += 1
        frontier = nxt
    acc.count("states", states)
    acc.count("transitions", transitions)
    acc.ev(transitions, nontrivial=True)
    return states, transitions


# ------------------------------------------------------------------------------ immutability
def attack(obj, seen, depth=0):
    """Try to write into every numpy array reachable from obj."""
    import numpy as np

    if depth > 3 or id(obj) in seen:
        return
    seen.add(id(obj))
    if isinstance(obj, np.ndarray):
        if obj.size:
            for how in ("direct", "setflags", "base"):
                try:
                    a = obj
                    if how == "setflags":
                        a.setflags(write=True)
                    elif how == "base":
                        a = obj.base if isinstance(obj.base, np.ndarray) else obj
                        a.setflags(write=True)
                    if a.dtype.kind in "iufb":
                        a.flat[0] = a.flat[0] + 1 if a.dtype.kind != "b" else not a.flat[0]
                        a[...] = 0
                except Exception:  # noqa
                    pass
        return
    if isinstance(obj, (list, tuple)):
        for x in obj[:50]:
            attack(x, seen, depth + 1)
    elif isinstance(obj, dict):
        for x in list(obj.values())[:50]:
            attack(x, seen, depth + 1)
    elif hasattr(obj, "__dict__") and not isinstance(obj, type):
        for x in list(vars(obj).values())[:30]:
            attack(x, seen, depth + 1)
    elif hasattr(obj, "__next__"):
        for k, x in enumerate(obj):
            attack(x, seen, depth + 1)
            if k > 50:
                break


def immut(tsname, kind, acc, part, parts):
    import inspect
    import tskit

    from . import c09

    ts = c09._ts(tsname)
    snapshot = ts.dump_tables()
    snapshot_bytes = pickle.dumps(snapshot.asdict())
    ctx = c09._ctx(ts)

    def fresh():
        if kind == "ts":
            return ts
        if kind == "tree":
            t = tskit.Tree(ts, sample_lists=True)
            t.first()
            return t
        v = tskit.Variant(ts)
        if ts.num_sites:
            v.decode(0)
        return v

    obj = fresh()
    meths, props = c09.methods_of(obj)
    members = [(m, True) for m in meths] + [(p, False) for p in props]
    for i, (m, is_method) in enumerate(members):
        if i % parts != part:
            continue
        case = {"kind": "immut", "ts": tsname, "on": kind, "member": m}
        acc.enter(case)
        obj = fresh()
        if is_method:
            plans = c09.call_plans(obj, ctx, m)
            args = plans[0][1]
            if m in ("dump", "write_vcf", "write_fasta", "write_nexus", "dump_text", "to_macs"):
                args = dict(args)
            st, r = c09.do_call(obj, m, args, "ts:" + tsname)
        else:
            st, r = c09.do_call(obj, m, None, "ts:" + tsname)
        if st == "ok":
            attack(r, set())
        acc.ev(1, nontrivial=st == "ok")
        acc.count("transitions")
        now = ts.dump_tables()
        if not now.equals(snapshot) or pickle.dumps(now.asdict()) != snapshot_bytes:
            acc.fail(f"immutable:{type(obj).__name__}.{m}", "tree sequence tables changed after the call / array writes", case)
            return
        if kind == "ts" and st == "ok":
            # arrays handed out must be copies or read-only: re-fetch and compare
            st2, r2 = c09.do_call(ts, m, args if is_method else None, "ts:" + tsname)
    acc.count("states", 1)


# ------------------------------------------------------------------------------ driver
def shards(tier, seed):
    specs = []
    depth = 2 if tier == "quick" else 3
    for tname in TABLES:
        for init in ("empty", "two", "three"):
            for incr in (0, 1):
                if tier == "quick" and incr == 1 and init != "two":
                    continue
                if init == "three" and "selfref" not in TABLES[tname] and "selfref_ragged" not in TABLES[tname] \
                        and tier == "quick":
                    continue
                parts = 6 if tier == "quick" else 48
                for p in range(parts):
                    specs.append(dict(kind="hist", table=tname, init=init, incr=incr, depth=depth, part=p, parts=parts))
    for tsname in ("ts_full", "ts_one", "ts_noedges"):
        for kind in ("ts", "tree", "var"):
            parts = 6 if kind == "ts" else 2
            for p in range(parts):
                specs.append(dict(kind="immut", ts=tsname, on=kind, part=p, parts=parts))
    return specs


def run_shard(spec):
    acc = Acc()
    if spec["kind"] == "hist":
        explore(spec["table"], spec["init"], spec["incr"], spec["depth"], acc, (spec["part"], spec["parts"]))
        acc.sample({"table": spec["table"], "init": spec["init"], "depth": spec["depth"],
                    "example_ops": [list(o) for o in ops_for(spec["table"], [])[:6]]})
    else:
        immut(spec["ts"], spec["on"], acc, spec["part"], spec["parts"])
        acc.sample({"immutability": spec["ts"], "on": spec["on"]})
    return acc.result()


def replay(case):
    acc = Acc()
    if case.get("kind") == "immut":
        import tskit  # noqa

        from . import c09

        ts = c09._ts(case["ts"])
        obj = ts
        meths, props = c09.methods_of(ts)
        immut_one(case, acc)
        return acc.failures
    hist = [tuple(tuple(x) if isinstance(x, list) and o[0] != "keep_rows" else x for x in o) for o in case["history"]]
    hist = [tuple(o) for o in case["history"]]
    sim = Sim(case["table"], case["init"], case["incr"])
    for h in hist[:-1]:
        sim.step(h, lambda k, w: None)
    fails = []
    sim.step(hist[-1], lambda k, w: fails.append((k, w)))
    for k, w in fails:
        acc.fail(f"{case['table']}:{k}", w, case)
    return acc.failures


def immut_one(case, acc):
    """Replay of one immutability case: re-run the whole member list of that object kind and keep the failure."""
    sub = Acc()
    # find the member index
    import tskit

    from . import c09

    ts = c09._ts(case["ts"])
    kind = case["on"]
    if kind == "ts":
        obj = ts
    elif kind == "tree":
        obj = tskit.Tree(ts)
    else:
        obj = tskit.Variant(ts)
    meths, props = c09.methods_of(obj)
    names = meths + props
    i = names.index(case["member"])
    immut(case["ts"], kind, sub, i, len(names))
    acc.failures.extend(sub.failures)
