"""C07  sort and repair tools reorder without changing content; the result loads.

Exhaustive input-space exploration.  For every base table collection of a bounded family the
check applies EVERY row permutation of the sortable tables (references remapped) and every
start-offset argument, runs the real TableCollection.sort / build_index / deduplicate_sites /
compute_mutation_parents / compute_mutation_times / canonicalise / sort_individuals /
EdgeTable.squash, and compares the resulting tables, column by column, with a reference model
written from the documentation (mc/ref/sortmodel.py: a table is a list of row tuples)."""
import itertools
import math

from .. import universe as U
from ..acc import Acc
from ..ref import sortmodel as SM
from ..ref.trees import NULL

ID = "C07"
LEVEL = "exploration"
RULE = (
    "every base collection (universe members with tagged ragged metadata; synthetic site/mutation "
    "and migration key spaces incl. duplicate positions, key ties on every prefix, known/unknown "
    "times) x every row permutation of edges / sites / mutations / migrations / individuals / "
    "populations (references remapped) x every edge_start in [-1, E+1] and (site_start, "
    "mutation_start) in {0,1,n,n+1}^2; repair chain and canonicalise over every member x mutation "
    "placement x every admissible input image (row orders, duplicated sites, wiped parents/times); "
    "compute_mutation_parents/times over every member x every ordered node list per site. "
    "non-trivial = the expected output differs from the input (sort: some row moves; chain: input "
    "is not already the repaired form; parents: some parent is non-null or an error is due; "
    "squash: some rows merge); each (base, variant) pair is a distinct code by construction"
)
ASSUMPTIONS = [
    "reference model mc/ref/sortmodel.py follows the sort()/data-model documentation: edges by "
    "(time[parent], parent, child, left); sites by position, stable; mutations by site then "
    "decreasing known time, stable; migrations by (time, source, dest, left, node)",
    "bases have no two rows with equal full sort key in the edge and migration tables (the "
    "documented keys do not order such rows)",
    "no site mixes known and unknown mutation times (invalid by the data model)",
    "mutation row orders fed to the repair chain keep the within-(site row) order when times are "
    "unknown, as sort() documents that it does not put mutation parents first",
    "canonicalise(remove_unreferenced=False) is only compared across images that keep the single "
    "unreferenced row per table (documented: unreferenced rows stay in original order)",
    "rows are identified by unique metadata tags of different lengths (one empty) per table",
]
SHARD_TIMEOUT = 1500


# ======================================================================================
# helpers
# ======================================================================================
def tag(prefix, j):
    """Unique per row, ragged: lengths 2, 0, 4, 2, 3, 4, ...; row 1 has empty metadata."""
    return "" if j == 1 else prefix + str(j) + "." * (j % 3)


def perms(n):
    return itertools.permutations(range(n))


def extras(c, N):
    """Populations / individuals referenced by the nodes (must never be touched by sort)."""
    c["populations"] = [(tag("p", j),) for j in range(3)]
    c["individuals"] = [(0, (1.5,), (), "i0"), (7, (), (0, NULL), ""), (1, (0.25, 2.0), (1,), "i2..")]
    return c


def member_coll(m, meta=True):
    c = SM.empty(m.L)
    extras(c, m.N)
    t = m.times
    c["nodes"] = [(1 if m.flags[u] else 0, t[u], (u % 4) - 1, ((u + 1) % 4) - 1, tag("n", u))
                  for u in range(m.N)]
    c["edges"] = [(l, r, p, ch, tag("e", j) if meta else "")
                  for j, (l, r, p, ch) in enumerate(m.edges())]
    return c


def ballast_sites(c, N):
    """Unsorted sites (one duplicated position), mutations with a forward parent reference and
    unsorted migrations: present in the edge-centred cases so that every table is non-empty."""
    L = c["L"]
    c["sites"] = [(0.75 * L, "A", "s0"), (0.25 * L, "", ""), (0.25 * L, "CC", "s2..")]
    if N > 0:
        c["mutations"] = [(0, N - 1, "T", 2, None, "m0"), (2, 0, "", NULL, None, ""),
                          (0, 0, "GG", NULL, None, "m2..")]
    return c


def ballast_migrations(c, N):
    L = c["L"]
    if N > 0:
        c["migrations"] = [(0.0, L, N - 1, 1, 0, 2.5, "g0"), (0.0, L / 2, 0, 0, 1, 1.0, ""),
                           (L / 2, L, 0, 0, 1, 1.0, "g2..")]
    return c


def ballast_edges(c):
    """Two unsorted edges over nodes (0,0,1) -> needs >= 3 nodes with time[2] > time[0,1]."""
    L = c["L"]
    c["edges"] = [(0.0, L, 2, 1, "e0"), (0.0, L, 2, 0, "")]
    return c


def fixed_nodes(c, times):
    c["nodes"] = [(1, float(t), (u % 4) - 1, ((u + 1) % 4) - 1, tag("n", u))
                  for u, t in enumerate(times)]
    return c


def cols(rows, idx):
    return [tuple(r[i] for i in idx) for r in rows]


# ======================================================================================
# the sort oracle (shared by sortE / sortSM / sortMig / sortX)
# ======================================================================================
def sort_expect(inp, es, ss, ms):
    E, S, M = len(inp["edges"]), len(inp["sites"]), len(inp["mutations"])
    if es < 0 or es > E:
        return "raise", None
    if ss == S and ms == M:
        return "ok", SM.ref_sort(inp, es, True)
    if ss == 0 and ms == 0:
        return "ok", SM.ref_sort(inp, es, False)
    return "raise", None


def classify(table, got, exp, es, skip):
    """Specific failure key for a table mismatch."""
    pre = "sort_partial" if es > 0 else ("sort_skip" if skip else "sort")
    if table == "edges":
        if cols(got, (0, 1, 2, 3)) != cols(exp, (0, 1, 2, 3)):
            return pre + ":edges"
        return pre + ":edge_metadata"
    if table == "migrations":
        if cols(got, range(6)) != cols(exp, range(6)):
            return pre + ":migrations"
        return pre + ":migration_metadata"
    if table == "sites":
        if cols(got, (0,)) != cols(exp, (0,)):
            return pre + ":sites"
        return pre + ":site_ragged"
    if table == "mutations":
        if len(got) == len(exp):
            d = [i for i in range(6) if cols(got, (i,)) != cols(exp, (i,))]
            if d == [3]:
                return pre + ":mutation_parent"
            if d == [0]:
                return pre + ":mutation_site"
            if set(d) <= {2, 5}:
                return pre + ":mutation_ragged"
        return pre + ":mutations"
    return pre + ":touched_" + table


def run_sort(acc, inp, es, ss, ms, case, indexed=False):
    """One execution of the real sort against the model."""
    status, exp = sort_expect(inp, es, ss, ms)
    nontrivial = status == "ok" and any(exp[t] != inp[t] for t in SM.TABLES)
    acc.ev(1, nontrivial)
    tc = SM.to_tables(inp)
    if indexed == "stale":
        # an index built for ANOTHER order of the same number of edge rows (has_index() only compares
        # counts): sort must not let it survive as the index of the rows it leaves behind
        tc = SM.to_tables(dict(SM.ref_sort(inp, 0, False)))
        tc.build_index()
        tc.edges.replace_with(SM.to_tables(inp).edges)
    elif indexed:
        tc.build_index()
    raised = None
    try:
        tc.sort(es, site_start=ss, mutation_start=ms)
    except Exception as e:  # noqa
        raised = e
    if raised is None and tc.has_index():
        # whatever index the sorted tables carry must be THE index of their edge rows
        try:
            fresh = tc.copy()
            fresh.drop_index()
            fresh.build_index()
            same = (tc.indexes.edge_insertion_order.tolist() == fresh.indexes.edge_insertion_order.tolist()
                    and tc.indexes.edge_removal_order.tolist() == fresh.indexes.edge_removal_order.tolist())
        except Exception:  # noqa: rows that cannot be indexed at all (bad references) are not this check's business
            same = True
        if not same:
            acc.fail("sort:stale_index_kept", f"after sort(edge_start={es}, site_start={ss}, mutation_start={ms}) the tables "
                     f"carry an index that is not the index of their edge rows (indexed={indexed})", case)
    probs = []
    got = SM.from_tables(tc, problems=probs)
    for t, msg in probs:
        key = "sort_partial:edge_metadata" if (t == "edges" and es > 0) else "sort:corrupt_" + t
        acc.fail(key, f"after sort(edge_start={es}, site_start={ss}, mutation_start={ms}): {msg}", case)
    if status == "raise":
        if raised is None:
            acc.fail("sort:bad_offset_accepted",
                     f"sort(edge_start={es}, site_start={ss}, mutation_start={ms}) with "
                     f"{len(inp['edges'])} edges, {len(inp['sites'])} sites, {len(inp['mutations'])} "
                     "mutations did not raise", case)
        d = SM.diff(got, inp)
        if d:
            acc.fail("sort:bad_offset_changed_tables",
                     f"rejected sort(edge_start={es}, site_start={ss}, mutation_start={ms}) "
                     f"[{raised!r}] changed the tables: {d[0][1]}", case)
        return
    if raised is not None:
        acc.fail("sort:raised", f"sort(edge_start={es}, site_start={ss}, mutation_start={ms}) "
                 f"raised {raised!r}", case)
        return
    skip = (ss, ms) != (0, 0)
    d = SM.diff(got, exp)
    for t, what in d:
        acc.fail(classify(t, got[t], exp[t], es, skip),
                 f"sort(edge_start={es}, site_start={ss}, mutation_start={ms}): {what}", case)
    if d or es != 0 or skip:
        return
    # idempotence of the full sort
    try:
        tc.sort()
        got2 = SM.from_tables(tc, only=("edges", "sites", "mutations", "migrations"))
    except Exception as e:  # noqa
        acc.fail("sort:idempotent", f"second sort(): {e!r}", case)
        return
    for t in ("edges", "sites", "mutations", "migrations"):
        if got2[t] != got[t]:
            acc.fail("sort:idempotent", f"second sort() changed {t}: {got[t]} -> {got2[t]}", case)


# ======================================================================================
# kind sortE: edge permutations x edge_start sweep over universe members
# ======================================================================================
def sortE_build(bd):
    m = U.Member.from_desc(bd["member"])
    c = member_coll(m, bd.get("meta", True))
    ballast_sites(c, m.N)
    ballast_migrations(c, m.N)
    return c


def sortE_variants(base, bd):
    E = len(base["edges"])
    if E > bd.get("maxE", 5):
        pl = [tuple(range(E)), tuple(range(E - 1, -1, -1))]
    else:
        pl = perms(E)
    for pe in pl:
        for es in range(-1, E + 2):
            yield {"pe": list(pe), "es": es}


def sortE_run(acc, base, bd, var, kind="sortE"):
    inp = SM.permute(base, "edges", var["pe"])
    run_sort(acc, inp, var["es"], 0, 0, {"kind": kind, "base": bd, "var": var})
    if var["es"] in (0, len(inp["edges"])):
        run_sort(acc, inp, var["es"], 0, 0, {"kind": kind, "base": bd, "var": var, "indexed": "stale"}, indexed="stale")


# ======================================================================================
# kind sortSM: synthetic sites x mutations (duplicate positions, time ties, parents)
# ======================================================================================
POS = (0.0, 0.5, 1.5)
ANC = ("A", "", "CC")
DER = ("T", "", "GG", "C")


def position_patterns(S):
    out = []

    def rec(p):
        if len(p) == S:
            out.append(tuple(p))
            return
        for nxt in (p[-1], p[-1] + 1):
            rec(p + [nxt])
    rec([0])
    return out


def sm_bases(maxS, maxM):
    """All (positions, mutations) with mutation rows (site, time, parent): site
    non-decreasing, no site mixing known/unknown, parent an earlier row of the same site with
    time >= own.  Returns descriptors."""
    out = []
    for S in range(1, maxS + 1):
        for pat in position_patterns(S):
            for M in range(0, maxM + 1):
                for sa in itertools.combinations_with_replacement(range(S), M):
                    for tm in itertools.product((None, 1.0, 2.0), repeat=M):
                        kinds = {}
                        for s, t in zip(sa, tm):
                            kinds.setdefault(s, set()).add(t is None)
                        if any(len(v) > 1 for v in kinds.values()):
                            continue
                        choices = []
                        for j in range(M):
                            ch = [NULL]
                            for i in range(j):
                                if sa[i] == sa[j] and (tm[j] is None or tm[i] >= tm[j]):
                                    ch.append(i)
                            choices.append(ch)
                        for par in itertools.product(*choices):
                            out.append({"pos": list(pat),
                                        "muts": [[sa[j], tm[j], par[j]] for j in range(M)]})
    return out


def sortSM_build(bd):
    c = SM.empty(2.0)
    extras(c, 3)
    fixed_nodes(c, (0.0, 0.0, 1.0))
    ballast_edges(c)
    ballast_migrations(c, 3)
    c["sites"] = [(POS[p], ANC[j % 3], tag("s", j)) for j, p in enumerate(bd["pos"])]
    c["mutations"] = [(s, j % 2, DER[j % 4], p, t, tag("m", j))
                      for j, (s, t, p) in enumerate(bd["muts"])]
    return c


def start_values(n):
    return sorted({0, 1, n, n + 1})


def sortSM_variants(base, bd):
    S, M = len(base["sites"]), len(base["mutations"])
    sweep = bd.get("sweep", False)
    for ps in perms(S):
        for pm in perms(M):
            yield {"ps": list(ps), "pm": list(pm), "ss": 0, "ms": 0}
            if sweep:
                for ss in start_values(S):
                    for ms in start_values(M):
                        if (ss, ms) != (0, 0):
                            yield {"ps": list(ps), "pm": list(pm), "ss": ss, "ms": ms}


def sortSM_run(acc, base, bd, var, kind="sortSM"):
    inp = SM.permute(SM.permute(base, "sites", var["ps"]), "mutations", var["pm"])
    run_sort(acc, inp, var.get("es", 0), var["ss"], var["ms"],
             {"kind": kind, "base": bd, "var": var})


# ======================================================================================
# kind sortMig: migration key space
# ======================================================================================
MIG_KEYS = list(itertools.product((1.0, 2.0), (0, 1), (0, 1), (0.0, 1.0), (0, 1)))


def sortMig_build(bd):
    c = SM.empty(2.0)
    extras(c, 3)
    fixed_nodes(c, (0.0, 0.0, 1.0))
    ballast_edges(c)
    ballast_sites(c, 3)
    rows = []
    for j, k in enumerate(bd["keys"]):
        t, src, dst, left, node = MIG_KEYS[k]
        rows.append((left, left + 1.0 if j % 2 == 0 else 2.0, node, src, dst, t, tag("g", j)))
    c["migrations"] = rows
    return c


def sortMig_variants(base, bd):
    for pg in perms(len(base["migrations"])):
        yield {"pg": list(pg)}


def sortMig_run(acc, base, bd, var, kind="sortMig"):
    inp = SM.permute(base, "migrations", var["pg"])
    run_sort(acc, inp, 0, 0, 0, {"kind": kind, "base": bd, "var": var})
    # migrations have no start argument: they must be sorted whatever the other start offsets are,
    # and whether or not the tables carry an index
    E, S, M = len(inp["edges"]), len(inp["sites"]), len(inp["mutations"])
    for es in (0, E):
        for ss in (0, S):
            for ms in (0, M):
                for indexed in (False, True):
                    if (es, ss, ms, indexed) == (0, 0, 0, False):
                        continue
                    use = inp
                    if indexed:
                        # an index needs sorted edges: everything but the migrations already in sorted order
                        use = dict(SM.ref_sort(inp, 0, False))
                        use["migrations"] = inp["migrations"]
                    run_sort(acc, use, es, ss, ms, {"kind": kind, "base": bd, "var": var, "starts": [es, ss, ms],
                                                    "indexed": indexed}, indexed=indexed)


# ======================================================================================
# kind sortX: all four tables permuted together (and the populations/individuals they refer to)
# ======================================================================================
def sortX_build(bd):
    m = U.Member.from_desc(bd["member"])
    c = member_coll(m, True)
    L = c["L"]
    hi = max(m.times) + 1.0
    c["sites"] = [(0.25 * L, "A", "s0"), (0.75 * L, "", ""), (0.25 * L, "CC", "s2..")]
    c["mutations"] = [(0, 0, "T", NULL, hi + 2.0, "m0"), (0, 0, "", 0, hi + 1.0, ""),
                      (1, 0, "GG", NULL, None, "m2..")]
    c["migrations"] = [(0.0, L, 0, 0, 1, 1.0, "g0"), (0.0, L, 0, 1, 0, 1.0, ""),
                       (0.0, L, 0, 0, 1, 0.5, "g2..")]
    return c


def sortX_variants(base, bd):
    E = len(base["edges"])
    for pe in perms(E):
        for ps in perms(3):
            for pm in perms(3):
                for pg in perms(3):
                    yield {"pe": list(pe), "ps": list(ps), "pm": list(pm), "pg": list(pg)}
    # the untouched tables in every order (references in nodes / migrations remapped)
    for pi in perms(3):
        for pp in perms(3):
            yield {"pe": list(range(E - 1, -1, -1)), "ps": [2, 1, 0], "pm": [2, 1, 0],
                   "pg": [2, 1, 0], "pi": list(pi), "pp": list(pp)}


def sortX_run(acc, base, bd, var, kind="sortX"):
    inp = base
    if "pi" in var:
        inp = SM.permute(SM.permute(inp, "individuals", var["pi"]), "populations", var["pp"])
    inp = SM.permute(inp, "edges", var["pe"])
    inp = SM.permute(inp, "sites", var["ps"])
    inp = SM.permute(inp, "mutations", var["pm"])
    inp = SM.permute(inp, "migrations", var["pg"])
    run_sort(acc, inp, 0, 0, 0, {"kind": kind, "base": bd, "var": var})


# ======================================================================================
# mutation placements shared by chain / canon
# ======================================================================================
def valid_list(par, nodes):
    loc = SM.nearest_parents(par, nodes)
    return all(p < j for j, p in enumerate(loc))


def placement_coll(m, sites, known, meta=True):
    """The repaired form F: member tables in sort() order, sites sorted by position, mutations
    in the given per-site order (known times: by decreasing time, stable) with reference
    parents, unique derived states (so genotypes reveal which mutation is nearest)."""
    from ..muts import known_times

    c = member_coll(m, meta)
    rts = SM.rts_of(c)
    sites = sorted(sites, key=lambda s: s[0])
    c["sites"] = [(float(x), "0", tag("s", j)) for j, (x, _) in enumerate(sites)]
    rows = []
    for s, (x, nodes) in enumerate(sites):
        nodes = list(nodes)
        tms = [None] * len(nodes)
        if known:
            par = rts.parent_map(x)
            tms = known_times(m.times, par, [(u, None) for u in nodes])
            order = sorted(range(len(nodes)), key=lambda j: -tms[j])
            nodes = [nodes[j] for j in order]
            tms = [tms[j] for j in order]
        for u, t in zip(nodes, tms):
            j = len(rows)
            rows.append((s, u, str(j + 1), NULL, t, tag("m", j)))
    c["mutations"] = rows
    par = SM.ref_mutation_parents(c)
    assert par != "after_child", (m.desc(), sites)
    c["mutations"] = [(s, u, d, par[j], t, md) for j, (s, u, d, _, t, md) in enumerate(rows)]
    return c


def node_lists(N, maxlen, minlen=0):
    for k in range(minlen, maxlen + 1):
        yield from itertools.product(range(N), repeat=k)


def chain_positions(m):
    """Left end, the first interior grid point (a breakpoint candidate) or the first cell's
    midpoint when G == 1, and the midpoint of the last cell."""
    c = m.coords
    out = [c[0], c[1] if m.G > 1 else (c[0] + c[1]) / 2, (c[-2] + c[-1]) / 2]
    return sorted(set(out))


def placements(m, known, one_max, two_max, positions=None):
    """Single-site placements with <= one_max mutations and two-site placements with 1..two_max
    mutations per site.  Unknown times: every valid order of every node list; known times: one
    representative order per node multiset (the times decide the order)."""
    rts = SM.rts_of(member_coll(m, False))
    positions = chain_positions(m) if positions is None else positions
    per = {}
    for x in positions:
        par = rts.parent_map(x)
        ls = []
        for nl in node_lists(m.N, max(one_max, two_max)):
            if known:
                if list(nl) != sorted(nl, reverse=True):
                    continue
            elif not valid_list(par, nl):
                continue
            ls.append(list(nl))
        per[x] = ls
    for x in positions:
        for nl in per[x]:
            if len(nl) <= one_max:
                yield [[x, nl]]
    for x, y in itertools.combinations(positions, 2):
        for a in per[x]:
            if not 1 <= len(a) <= two_max:
                continue
            for b in per[y]:
                if 1 <= len(b) <= two_max:
                    yield [[x, a], [y, b]]


# ======================================================================================
# kind chain: sort -> deduplicate_sites -> sort -> build_index -> compute_mutation_parents
#             [-> compute_mutation_times] -> tree_sequence
# ======================================================================================
def chain_build(bd):
    m = U.Member.from_desc(bd["member"])
    return placement_coll(m, bd["sites"], bd["known"])


def layouts(S, max_rows):
    """Listing orders of site rows: every site once or twice."""
    out = []
    for dup in itertools.product((1, 2), repeat=S):
        if sum(dup) > max_rows:
            continue
        items = [s for s in range(S) for _ in range(dup[s])]
        out.extend(sorted(set(itertools.permutations(items))))
    return out


def interleavings(groups):
    """All merges of the given sequences that keep each sequence's internal order."""
    groups = [g for g in groups if g]
    if not groups:
        yield []
        return
    for i, g in enumerate(groups):
        rest = groups[:i] + [g[1:]] + groups[i + 1:]
        for tail in interleavings(rest):
            yield [g[0]] + tail


def assignments(F, layout, known):
    """Per mutation (F order) the occurrence (0 = first listed, 1 = second listed) of its
    site's row it is attached to."""
    S = len(F["sites"])
    M = F["mutations"]
    per_site = [[j for j in range(len(M)) if M[j][0] == s] for s in range(S)]
    opts = []
    for s in range(S):
        k = len(per_site[s])
        if layout.count(s) == 1:
            opts.append([[0] * k])
        elif known:
            opts.append([list(a) for a in itertools.product((0, 1), repeat=k)])
        else:
            opts.append([[0] * c + [1] * (k - c) for c in range(k + 1)])
    for combo in itertools.product(*opts):
        a = [0] * len(M)
        for s in range(S):
            for j, v in zip(per_site[s], combo[s]):
                a[j] = v
        yield a


def row_groups(F, layout, assign):
    """Mutations (F ids) grouped by input site row, F order inside."""
    rows = site_rows(layout)
    groups = {}
    for j, mu in enumerate(F["mutations"]):
        groups.setdefault(rows[(mu[0], assign[j])], []).append(j)
    return list(groups.values())


def site_rows(layout):
    seen = {}
    rows = {}
    for i, s in enumerate(layout):
        occ = seen.get(s, 0)
        seen[s] = occ + 1
        rows[(s, occ)] = i
    return rows


def mutation_orders(F, layout, assign, known):
    M = len(F["mutations"])
    if known:
        return [list(p) for p in perms(M)]
    return list(interleavings(row_groups(F, layout, assign)))


def chain_input(F, var):
    layout, assign, pm = var["layout"], var["assign"], var["pm"]
    inp = SM.permute(F, "edges", var["pe"])
    rows = site_rows(layout)
    seen = {}
    sites = []
    for s in layout:
        occ = seen.get(s, 0)
        seen[s] = occ + 1
        x, a, md = F["sites"][s]
        sites.append((x, a, md if occ == 0 else md + "~"))
    inp["sites"] = sites
    new_of_old = {o: i for i, o in enumerate(pm)}
    muts = []
    for o in pm:
        s, u, d, p, t, md = F["mutations"][o]
        muts.append((rows[(s, assign[o])], u, d,
                     NULL if (var["wipe"] or p == NULL) else new_of_old[p], t, md))
    inp["mutations"] = muts
    return inp


def chain_variants(F, bd):
    E, S, M = len(F["edges"]), len(F["sites"]), len(F["mutations"])
    known = bd["known"]
    ident_e = list(range(E))
    rev_e = ident_e[::-1]
    ident_l = list(range(S))
    rev_l = ident_l[::-1]
    zero = [0] * M
    ident_m = list(range(M))
    out = []
    # edges in every order
    pl = perms(E) if E <= bd.get("maxE", 4) else [tuple(ident_e), tuple(rev_e)]
    for pe in pl:
        out.append(dict(pe=list(pe), layout=rev_l, assign=zero, pm=ident_m, wipe=False, times=False))
    # site rows in every order, with duplicated positions
    for lay in layouts(S, bd.get("max_site_rows", 3)):
        for a in assignments(F, list(lay), known):
            out.append(dict(pe=rev_e, layout=list(lay), assign=a, pm=ident_m, wipe=True, times=False))
            if bd.get("pairs", False) and len(lay) > S:
                for pm in mutation_orders(F, list(lay), a, known):
                    if pm != ident_m:
                        out.append(dict(pe=rev_e, layout=list(lay), assign=a, pm=pm, wipe=True,
                                        times=False))
    # mutation rows in every admissible order; parents kept or wiped; times computed
    for pm in mutation_orders(F, ident_l, zero, known):
        for wipe in (False, True):
            out.append(dict(pe=rev_e, layout=ident_l, assign=zero, pm=pm, wipe=wipe, times=False))
        if not known:
            out.append(dict(pe=rev_e, layout=ident_l, assign=zero, pm=pm, wipe=True, times=True))
    seen = set()
    for v in out:
        k = repr(sorted(v.items()))
        if k not in seen:
            seen.add(k)
            yield v


def check_loads(acc, tc, F, case, pre):
    """The result loads and encodes F's trees and genotypes."""
    from ..ref.geno import site_alleles

    try:
        ts = tc.tree_sequence()
    except Exception as e:  # noqa
        acc.fail(pre + ":load", f"result does not load: {e!r}", case)
        return
    rts = SM.rts_of(F)
    N = rts.N
    ivs = rts.intervals()
    if ts.num_trees != len(ivs):
        acc.fail(pre + ":trees", f"num_trees {ts.num_trees} expected {len(ivs)}", case)
        return
    for (l, r), tree in zip(ivs, ts.trees()):
        if (tree.interval.left, tree.interval.right) != (l, r) or \
                tree.parent_array[:N].tolist() != rts.parent_map(l):
            acc.fail(pre + ":trees", f"tree on {tree.interval}: parents "
                     f"{tree.parent_array[:N].tolist()} expected {(l, r)} {rts.parent_map(l)}", case)
            return
    if N == 0 or ts.num_sites != len(rts.sites):
        if ts.num_sites != len(rts.sites):
            acc.fail(pre + ":genotypes", f"{ts.num_sites} sites expected {len(rts.sites)}", case)
        return
    nodes = list(range(N))
    for v in ts.variants(samples=nodes, isolated_as_missing=False):
        got = [v.alleles[g] for g in v.genotypes.tolist()]
        sid = v.site.id
        if v.site.position != rts.sites[sid][0]:
            acc.fail(pre + ":genotypes", f"site {sid} at {v.site.position}", case)
            return
        exp = site_alleles(rts, sid, nodes, False)
        if got != exp:
            acc.fail(pre + ":genotypes", f"site at {v.site.position}: node alleles {got} "
                     f"expected {exp}", case)
            return


def check_times(acc, got, F, case, pre):
    """compute_mutation_times result: same rows (identity by tag, links followed), documented
    time values, data-model time and order clauses."""
    bad = SM.mutation_time_clause_violations(got)
    if bad:
        acc.fail(pre + ":time_clauses", f"computed times violate {bad}: {got['mutations']}", case)
    bad = SM.mutation_order_violations(got)
    if bad:
        acc.fail(pre + ":time_order", f"after compute_mutation_times: {bad}: {got['mutations']}", case)
    exp = SM.ref_mutation_times(F)
    gt = {}
    for s, u, _, _, t, _ in got["mutations"]:
        gt.setdefault((s, u), []).append(t)
    ok = set(gt) == set(exp)
    if ok:
        for k in exp:
            a = sorted(x if x is not None else math.nan for x in gt[k])
            b = sorted(exp[k])
            if len(a) != len(b) or any(not abs(x - y) <= 1e-9 * max(1.0, abs(y)) for x, y in zip(a, b)):
                ok = False
    if not ok:
        acc.fail(pre + ":time_values", f"times per (site, node) {gt} expected {exp}", case)
    from ..ref.geno import site_alleles

    rg, rf = SM.rts_of(got), SM.rts_of(F)
    if len(rg.sites) == len(rf.sites):
        nodes = list(range(rf.N))
        for s in range(len(rf.sites)):
            a, b = site_alleles(rg, s, nodes, False), site_alleles(rf, s, nodes, False)
            if a != b:
                acc.fail(pre + ":time_genotypes", f"site {s}: alleles by the data-model rule changed "
                         f"from {b} to {a}; mutations {got['mutations']} from {F['mutations']}", case)
                break
    lg, lf = SM.logical(got), SM.logical(F)
    strip = lambda rows: sorted(r[:4] + r[5:] for r in rows)  # noqa
    if strip(lg["mutations"]) != strip(lf["mutations"]) or \
            any(lg[t] != lf[t] for t in SM.TABLES if t != "mutations"):
        acc.fail(pre + ":time_content", f"compute_mutation_times changed content: "
                 f"{got['mutations']} from {F['mutations']}", case)


def time_ties(F):
    seen = set()
    for s, _, _, _, t, _ in F["mutations"]:
        if t is not None:
            if (s, t) in seen:
                return True
            seen.add((s, t))
    return False


def chain_run(acc, F, bd, var, kind="chain"):
    case = {"kind": kind, "base": bd, "var": var}
    inp = chain_input(F, var)
    acc.ev(1, any(inp[t] != F[t] for t in SM.TABLES) and bool(F["mutations"]))
    tc = SM.to_tables(inp)
    step = "sort"
    try:
        tc.sort()
        step = "deduplicate_sites"
        tc.deduplicate_sites()
        step = "sort#2"
        tc.sort()
        step = "build_index"
        tc.build_index()
        step = "compute_mutation_parents"
        tc.compute_mutation_parents()
        step = "read"
        got = SM.from_tables(tc)
    except Exception as e:  # noqa
        acc.fail("chain:raised_" + step.split("#")[0], f"{step}: {e!r} on {inp['sites']} "
                 f"{inp['mutations']}", case)
        return
    d = SM.diff(got, F)
    if [t for t, _ in d] == ["mutations"] and bd["known"] and time_ties(F):
        # equal known times at one site (on unrelated branches): sort keeps the input order of
        # such rows, so only content and the ordering clauses are decidable
        if SM.logical(got)["mutations"] == SM.logical(F)["mutations"] \
                and not SM.mutation_order_violations(got):
            d = []
            F = got
    for t, what in d:
        key = "chain:" + t
        if t == "mutations" and len(got[t]) == len(F[t]):
            dc = [i for i in range(6) if cols(got[t], (i,)) != cols(F[t], (i,))]
            if dc == [3]:
                key = "chain:mutation_parent"
            elif dc == [0]:
                key = "chain:mutation_site"
        acc.fail(key, "repair chain: " + what, case)
    if d:
        return
    if var["times"]:
        try:
            tc.compute_mutation_times()
            got = SM.from_tables(tc)
        except Exception as e:  # noqa
            acc.fail("chain:raised_compute_mutation_times", repr(e), case)
            return
        check_times(acc, got, F, case, "chain")
        F = dict(got)  # genotypes must survive the re-sort too
    check_loads(acc, tc, F, case, "chain")


# ======================================================================================
# kind parents: compute_mutation_parents / compute_mutation_times on every ordered node list
# ======================================================================================
def parents_build(bd):
    m = U.Member.from_desc(bd["member"])
    return m


def parents_site_sets(m, bd):
    pos = []
    c = m.coords
    for i in range(m.G):
        pos.append(c[i])
        pos.append((c[i] + c[i + 1]) / 2)
    one = list(node_lists(m.N, bd["one_max"]))
    two = list(node_lists(m.N, bd["two_max"], 1))
    for x in pos:
        for nl in one:
            yield [[x, list(nl)]]
    for x, y in itertools.combinations(pos, 2):
        for a in two:
            for b in two:
                yield [[x, list(a)], [y, list(b)]]


def parents_variants(m, bd):
    for ss in parents_site_sets(m, bd):
        yield {"sites": ss}


_PCACHE = {}


def parents_run(acc, m, bd, var, kind="parents"):
    import tskit

    case = {"kind": kind, "base": bd, "var": var}
    key = repr(bd["member"])
    if _PCACHE.get("key") != key:
        c0 = member_coll(m, True)
        tc0 = SM.to_tables(c0)
        tc0.build_index()
        _PCACHE.clear()
        _PCACHE.update(key=key, c0=c0, tc=tc0)
    c0, tc = _PCACHE["c0"], _PCACHE["tc"]
    if not tc.has_index():
        tc.build_index()
    F = SM.clone(c0)
    F["sites"] = [(float(x), "0", tag("s", j)) for j, (x, _) in enumerate(var["sites"])]
    rows = []
    for s, (_, nl) in enumerate(var["sites"]):
        for u in nl:
            rows.append((s, u, str(len(rows) + 1), NULL, None, tag("m", len(rows))))
    F["mutations"] = rows
    exp = SM.ref_mutation_parents(F)
    acc.ev(1, exp == "after_child" or any(p != NULL for p in exp))
    tc.sites.clear()
    tc.mutations.clear()
    for x, a, md in F["sites"]:
        tc.sites.add_row(x, a, metadata=md.encode())
    M = len(rows)
    for j, (s, u, d, _, _, md) in enumerate(rows):
        # garbage (but intact) parents on entry: the method must overwrite them
        tc.mutations.add_row(site=s, node=u, derived_state=d, metadata=md.encode(),
                             parent=(j - 1) if (j > 0 and rows[j - 1][0] == s) else NULL,
                             time=tskit.UNKNOWN_TIME)
    raised = None
    try:
        tc.compute_mutation_parents()
    except tskit.LibraryError as e:
        raised = e
    if exp == "after_child":
        if raised is None:
            acc.fail("parents:unsorted_accepted", f"mutation listed before its parent mutation not "
                     f"reported; sites {var['sites']} -> parent column {tc.mutations.parent.tolist()}",
                     case)
        return
    if raised is not None:
        acc.fail("parents:raised", f"{raised!r} for sites {var['sites']}", case)
        return
    got = SM.from_tables(tc, only=("sites", "mutations"))
    if cols(got["mutations"], (3,)) != [(p,) for p in exp]:
        acc.fail("parents:wrong_parent", f"sites {var['sites']}: parent column "
                 f"{[r[3] for r in got['mutations']]} expected {exp}", case)
        return
    Fp = SM.clone(F)
    Fp["mutations"] = [(s, u, d, exp[j], t, md) for j, (s, u, d, _, t, md) in enumerate(rows)]
    if cols(got["mutations"], (0, 1, 2, 4, 5)) != cols(Fp["mutations"], (0, 1, 2, 4, 5)) \
            or got["sites"] != Fp["sites"]:
        acc.fail("parents:touched_other_columns", f"{got['mutations']} from {Fp['mutations']}", case)
        return
    if not bd.get("times", True):
        return
    try:
        tc.compute_mutation_times()
        got = SM.from_tables(tc)
    except Exception as e:  # noqa
        acc.fail("times:raised", f"{e!r} for sites {var['sites']}", case)
        return
    check_times(acc, got, Fp, case, "times")
    try:
        tc.build_index()
        tc.tree_sequence()
    except Exception as e:  # noqa
        acc.fail("times:load", f"after compute_mutation_times: {e!r}; {got['mutations']}", case)


# ======================================================================================
# kind canon: canonicalise is invariant under row order of the non-node tables
# ======================================================================================
def canon_build(bd):
    m = U.Member.from_desc(bd["member"])
    return placement_coll(m, bd["sites"], bd["known"])


def canon_variants(base, bd):
    E, S, M = len(base["edges"]), len(base["sites"]), len(base["mutations"])
    I, P = len(base["individuals"]), len(base["populations"])
    ident = lambda n: list(range(n))  # noqa
    for ru in (True, False):
        yield dict(pe=ident(E), ps=ident(S), pm=ident(M), pi=ident(I), pp=ident(P), ru=ru, base=True)
        for pe in perms(E):
            if list(pe) != ident(E):
                yield dict(pe=list(pe), ps=ident(S), pm=ident(M), pi=ident(I), pp=ident(P), ru=ru)
        for ps in perms(S):
            for pm in perms(M):
                if list(ps) != ident(S) or list(pm) != ident(M):
                    yield dict(pe=ident(E)[::-1], ps=list(ps), pm=list(pm), pi=ident(I),
                               pp=ident(P), ru=ru)
        if bd.get("indpop", False):
            for pi in perms(I):
                for pp in perms(P):
                    if list(pi) != ident(I) or list(pp) != ident(P):
                        yield dict(pe=ident(E), ps=ident(S)[::-1], pm=ident(M)[::-1], pi=list(pi),
                                   pp=list(pp), ru=ru)


_CCACHE = {}


def canon_image(base, var):
    inp = SM.permute(base, "edges", var["pe"])
    inp = SM.permute(inp, "sites", var["ps"])
    inp = SM.permute(inp, "mutations", var["pm"])
    inp = SM.permute(inp, "individuals", var["pi"])
    inp = SM.permute(inp, "populations", var["pp"])
    return inp


def canon_exec(inp, ru):
    tc = SM.to_tables(inp)
    if (len(inp["edges"]) + len(inp["mutations"])) % 2 and inp["edges"]:
        # the same rows carrying an index (built for their sorted order, so stale for this order): what
        # canonicalise does to the rows must not depend on whether index arrays happen to be attached
        try:
            tmp = SM.to_tables(dict(SM.ref_sort(inp, 0, False)))
            tmp.build_index()
            tc.indexes = tmp.indexes
        except Exception:  # noqa: rows that cannot be indexed (bad references) stay without one
            pass
    if ru:
        # remove_unreferenced=True is the documented default: spelled out, omitted, or None - the three
        # forms rotate over the inputs
        form = (len(inp["edges"]) + len(inp["sites"]) + len(inp["populations"])) % 3
        if form == 0:
            tc.canonicalise(remove_unreferenced=True)
        elif form == 1:
            tc.canonicalise()
        else:
            tc.canonicalise(remove_unreferenced=None)
    else:
        tc.canonicalise(remove_unreferenced=ru)
    return tc, SM.from_tables(tc)


def canon_reference(acc, base, bd, ru):
    """canonicalise(base): checked once per base against content / order / load clauses."""
    key = (repr(bd), ru)
    if _CCACHE.get("key") == key:
        return _CCACHE["val"]
    case = {"kind": "canon", "base": bd,
            "var": dict(pe=list(range(len(base["edges"]))), ps=list(range(len(base["sites"]))),
                        pm=list(range(len(base["mutations"]))),
                        pi=list(range(len(base["individuals"]))),
                        pp=list(range(len(base["populations"]))), ru=ru, base=True)}
    val = None
    try:
        tc, got = canon_exec(base, ru)
        val = got
    except Exception as e:  # noqa
        acc.fail("canon:raised", repr(e), case)
    if val is not None:
        used_i = {n[3] for n in base["nodes"] if n[3] != NULL}
        used_p = {n[2] for n in base["nodes"] if n[2] != NULL}
        used_s = {mu[0] for mu in base["mutations"]}
        di = dp = ds = ()
        if ru:
            di = [r[3] for j, r in enumerate(base["individuals"]) if j not in used_i]
            dp = [r[0] for j, r in enumerate(base["populations"]) if j not in used_p]
            ds = [r[2] for j, r in enumerate(base["sites"]) if j not in used_s]
        lb = SM.logical(base, di, dp, ds)
        try:
            lg = SM.logical(got)
        except Exception as e:  # noqa
            lg = {"error": repr(e)}
        for t in SM.TABLES:
            if lg.get(t) != lb[t]:
                acc.fail("canon:content_" + t, f"canonicalise(remove_unreferenced={ru}) changed "
                         f"content of {t}: {lg.get(t)} expected {lb[t]}", case)
        srt = SM.ref_sort(base)
        if got["edges"] != srt["edges"]:
            acc.fail("canon:edge_order", f"{got['edges']} expected {srt['edges']}", case)
        if cols(got["sites"], (0,)) != sorted(cols(got["sites"], (0,))):
            acc.fail("canon:site_order", str(got["sites"]), case)
        bad = SM.mutation_order_violations(got)
        if bad:
            acc.fail("canon:mutation_order", f"{bad}: {got['mutations']}", case)
        F = SM.clone(got)
        try:
            tc.build_index()
        except Exception as e:  # noqa
            acc.fail("canon:load", repr(e), case)
        check_loads(acc, tc, base if not ds else F, case, "canon")
    _CCACHE.clear()
    _CCACHE.update(key=key, val=val)
    return val


def canon_run(acc, base, bd, var, kind="canon"):
    case = {"kind": kind, "base": bd, "var": var}
    ru = var["ru"]
    ref = canon_reference(acc, base, bd, ru)
    if var.get("base"):
        acc.ev(1, False)
        if var.get("migration_probe", True) and base["nodes"]:
            # documented unsupported: a collection with migrations must be refused
            inp = SM.clone(base)
            inp["migrations"] = [(0.0, base["L"], 0, 0, 1, 0.5, "g0")]
            try:
                canon_exec(inp, ru)
                acc.fail("canon:migrations_accepted", "canonicalise with a migration row did "
                         "not raise", case)
            except SM.Corrupt as e:
                acc.fail("canon:migrations_corrupt", str(e), case)
            except Exception:  # noqa
                pass
        return
    inp = canon_image(base, var)
    acc.ev(1, True)
    if ref is None:
        return
    try:
        _, got = canon_exec(inp, ru)
    except Exception as e:  # noqa
        acc.fail("canon:raised", repr(e), case)
        return
    d = SM.diff(got, ref)
    for t, what in d:
        acc.fail("canon:order_dependent_" + t, f"canonicalise(remove_unreferenced={ru}) of a "
                 f"row-permuted image differs from that of the base: {what}", case)


# ======================================================================================
# kind squash: EdgeTable.squash gives the maximal merge in (parent, child, left) order
# ======================================================================================
def squash_build(bd):
    m = U.Member.from_desc(bd["member"])
    return member_coll(m, False)


def squash_variants(base, bd):
    E = len(base["edges"])
    if E > bd.get("maxE", 5):
        yield {"pe": list(range(E))}
        yield {"pe": list(range(E - 1, -1, -1))}
    else:
        for pe in perms(E):
            yield {"pe": list(pe)}
    yield {"pe": list(range(E)), "meta": True}


def squash_run(acc, base, bd, var, kind="squash"):
    import tskit

    case = {"kind": kind, "base": bd, "var": var}
    inp = SM.permute(base, "edges", var["pe"])
    rows = cols(inp["edges"], (0, 1, 2, 3))
    exp = SM.ref_squash(rows)
    if var.get("meta"):
        # documented: fails if any edge has non-empty metadata
        acc.ev(1, False)
        if not rows:
            return
        inp["edges"] = [(l, r, p, c, "x" if j == len(rows) - 1 else "")
                        for j, (l, r, p, c) in enumerate(rows)]
        tc = SM.to_tables(inp)
        try:
            tc.edges.squash()
        except tskit.LibraryError:
            return
        got = SM.from_tables(tc, only=("edges",))
        acc.fail("squash:metadata_accepted", f"squash() of edges with metadata did not fail; "
                 f"result {got['edges']}", case)
        return
    acc.ev(1, len(exp) < len(rows))
    tc = SM.to_tables(inp)
    try:
        tc.edges.squash()
        got = SM.from_tables(tc)
    except Exception as e:  # noqa
        acc.fail("squash:raised", repr(e), case)
        return
    if cols(got["edges"], (0, 1, 2, 3)) != exp:
        acc.fail("squash:rows", f"squash of {rows} gave {got['edges']} expected {exp}", case)
    elif any(r[4] != "" for r in got["edges"]):
        acc.fail("squash:metadata", str(got["edges"]), case)
    for t in SM.TABLES:
        if t != "edges" and got[t] != inp[t]:
            acc.fail("squash:touched_" + t, f"{got[t]} from {inp[t]}", case)


# ======================================================================================
# kind sortind: sort_individuals puts parents first, remaps parents and node references
# ======================================================================================
def ind_bases(I, maxpar=2):
    per = []
    for j in range(I):
        al = [NULL] + list(range(j))
        opts = []
        for k in range(maxpar + 1):
            opts.extend(itertools.product(al, repeat=k))
        per.append(opts)
    for combo in itertools.product(*per):
        yield [list(p) for p in combo]


def sortind_build(bd):
    c = SM.empty(2.0)
    extras(c, 4)
    par = bd["parents"]
    I = len(par)
    c["individuals"] = [(j * 3 % 5, tuple(float(x) for x in range(j % 3)), tuple(par[j]), tag("i", j))
                        for j in range(I)]
    fixed_nodes(c, (0.0, 0.0, 1.0, 2.0))
    c["nodes"] = [(f, t, pop, (u % (I + 1)) - 1, md) for u, (f, t, pop, _, md) in enumerate(c["nodes"])]
    ballast_edges(c)
    ballast_sites(c, 3)
    ballast_migrations(c, 3)
    return c


def sortind_variants(base, bd):
    for pi in perms(len(base["individuals"])):
        yield {"pi": list(pi)}


def sortind_run(acc, base, bd, var, kind="sortind"):
    case = {"kind": kind, "base": bd, "var": var}
    inp = SM.permute(base, "individuals", var["pi"])
    unsorted_in = any(p != NULL and p >= j for j, r in enumerate(inp["individuals"]) for p in r[2])
    acc.ev(1, unsorted_in)
    tc = SM.to_tables(inp)
    try:
        tc.sort_individuals()
        got = SM.from_tables(tc)
    except Exception as e:  # noqa
        acc.fail("sort_individuals:raised", repr(e), case)
        return
    bad = [(j, p) for j, r in enumerate(got["individuals"]) for p in r[2] if p != NULL and p >= j]
    if bad:
        acc.fail("sort_individuals:parent_after_child", f"{got['individuals']}", case)
    try:
        lg, li = SM.logical(got), SM.logical(inp)
    except Exception as e:  # noqa
        acc.fail("sort_individuals:content", f"dangling reference {e!r}: {got['individuals']} "
                 f"{got['nodes']}", case)
        return
    for t in SM.TABLES:
        if lg[t] != li[t]:
            acc.fail("sort_individuals:content", f"{t}: {lg[t]} expected {li[t]}", case)
    for t in ("populations", "edges", "sites", "mutations", "migrations"):
        if got[t] != inp[t]:
            acc.fail("sort_individuals:touched_" + t, f"{got[t]} from {inp[t]}", case)


# ======================================================================================
# registry, shards, driver
# ======================================================================================
KINDS = {
    "sortE": (sortE_build, sortE_variants, sortE_run),
    "sortSM": (sortSM_build, sortSM_variants, sortSM_run),
    "sortMig": (sortMig_build, sortMig_variants, sortMig_run),
    "sortX": (sortX_build, sortX_variants, sortX_run),
    "chain": (chain_build, chain_variants, chain_run),
    "parents": (parents_build, parents_variants, parents_run),
    "canon": (canon_build, canon_variants, canon_run),
    "squash": (squash_build, squash_variants, squash_run),
    "sortind": (sortind_build, sortind_variants, sortind_run),
}


def do_base(acc, kind, bd, only=None):
    build, variants, run = KINDS[kind]
    acc.enter({"kind": kind, "base": bd})
    base = build(bd)
    n = 0
    for var in ([only] if only is not None else variants(base, bd)):
        try:
            run(acc, base, bd, var)
        except Exception:  # noqa  (tables so damaged that the comparison code itself trips)
            import traceback

            acc.fail(kind + ":oracle_exception", traceback.format_exc()[-1500:],
                     {"kind": kind, "base": bd, "var": var})
        n += 1
    acc.count("cases_" + kind, n)
    acc.count("bases_" + kind, 1)
    if n:
        acc.sample({"kind": kind, "base": bd, "variants": n})


def member_bases(spec):
    """Base descriptors of a universe-driven shard."""
    b = dict(spec["b"])
    gen = U.enumerate_members(flags="allsamples", **b)
    kind = spec["kind"]
    opt = spec.get("opt", {})
    sub_i, sub_n = spec.get("sub", (0, 1))
    idx = -1
    for m in U.shard(gen, spec["k"], spec["n"]):
        md = m.desc()
        if kind in ("sortE", "squash"):
            yield dict(member=md, **opt)
        elif kind == "sortX":
            if len(m.edges()) == opt.get("E", 3):
                yield dict(member=md)
        elif kind == "parents":
            yield dict(member=md, **opt)
        elif kind in ("chain", "canon"):
            po = {k: opt[k] for k in ("one_max", "two_max")}
            rest = {k: v for k, v in opt.items() if k not in po}
            for known in (False, True):
                first = True
                for sites in placements(m, known, **po):
                    bd = dict(member=md, sites=sites, known=known, **rest)
                    if kind == "canon":
                        bd["indpop"] = first
                    first = False
                    idx += 1
                    if idx % sub_n == sub_i:
                        yield bd


def synthetic_bases(spec):
    kind = spec["kind"]
    if kind == "sortSM":
        allb = sm_bases(spec["maxS"], spec["maxM"])
        for bd in allb[spec["k"]::spec["n"]]:
            S, M = len(bd["pos"]), len(bd["muts"])
            yield dict(bd, sweep=(S <= spec["sweepS"] and M <= spec["sweepM"]))
    elif kind == "sortMig":
        combos = []
        for r in range(1, spec["maxR"] + 1):
            combos.extend(itertools.combinations(range(len(MIG_KEYS)), r))
        for keys in combos[spec["k"]::spec["n"]]:
            yield {"keys": list(keys)}
    elif kind == "sortind":
        allb = []
        for I in range(1, spec["maxI"] + 1):
            allb.extend(ind_bases(I))
        for par in allb[spec["k"]::spec["n"]]:
            yield {"parents": par}


def bounds(tier):
    q = tier == "quick"
    return {
        "sortE": ("members N=3,G=3 weak; N=4,G=1 weak; N=4,G=2 id; N=3,G=3 id unsquashed; metadata "
                  "off on N=4,G=1 weak; every edge permutation for E<=5 (identity+reversal for E=6)" if q
                  else
                  "members N<=3,G<=3 weak; N=4,G<=2 weak; N=3,G=3 / N=4,G=2 unsquashed; N=5,G=1 id "
                  "(every edge permutation, E<=6); N=4,G=3 id (every permutation for E<=4, identity+"
                  "reversal above); metadata off on N=4,G=1 and N=3,G=3 weak")
        + "; x edge_start in [-1,E+1]",
        "sortSM": "synthetic: S<=3 site rows (all duplicate patterns) x M<=%d mutation rows "
                  "(site, time in {unknown,1,2}, parent) x all site perms x all mutation perms; "
                  "(site_start, mutation_start) in {0,1,n,n+1}^2 on S<=2,M<=%d" % ((3, 2) if q else (4, 3)),
        "sortMig": "all sets of <=%d distinct keys from {1,2}x{0,1}^2x{0,1}x{0,1} x all perms"
                   % (3 if q else 4),
        "sortX": "members with exactly 3 edges (N=3,G=2 and N=4,G=1, id) x 3!^4 joint permutations "
                 "of edges, sites, mutations, migrations + 3!^2 of individuals x populations",
        "chain": ("members N=3,G=2 and N=4,G=1 (id): one site <=3 mutations, two sites 1 each" if q
                  else "members N=2,G=2 weak / N=3,G=1 id / N=3,G=2 id: one site <=3, two sites <=2 each, "
                  "joint duplicate-layout x mutation-order variants; N=3,G=1 weak, N=4,G=1 id: same "
                  "placements, single-dimension variants; N=3,G=2 weak: two sites 1 each; N=4,G=2 id: one "
                  "site <=2, two sites 1 each")
        + "; 3 positions; known and unknown times; <=3 site rows incl. duplicates; every edge "
          "permutation for E<=4",
        "parents": ("members N=3,G=2; N=4,G=1 (one site <=3, two sites <=2 mutations each); N=4,G=2 "
                    "(one site <=3, two sites 1 each)" if q else
                    "members N<=4,G<=2 id, N=3,G<=2 weak (one site <=4 (N<=3) / 3, two sites <=2 each)")
        + "; every ordered node list incl. unsorted ones",
        "canon": "members N=3,G=2 id (quick) + N=4,G=1, N=3,G=2 weak (thorough) x placements x all "
                 "perms of edges; sites x mutations; individuals x populations; remove_unreferenced "
                 "both ways",
        "squash": "unsquashed members N=3,G<=3 (quick) + N=4,G=2 (thorough) x all edge permutations",
        "sortind": "all parent DAGs on <=%d individuals (<=2 parents each incl. null) x all perms"
                   % (3 if q else 4),
    }


def _split_members(specs, kind, b, per, opt=None, sub=1):
    """One shard per `per` members; sub > 1 further splits each shard's bases round-robin."""
    cnt = U.count_members(b["N"], b["G"], b.get("times", "id"), flags="one")
    n = max(1, -(-cnt // per))
    for k in range(n):
        for i in range(sub):
            specs.append(dict(kind=kind, b=b, k=k, n=n, opt=opt or {}, sub=(i, sub)))


def shards(tier, seed):
    specs = []
    q = tier == "quick"
    W, I = "weak", "id"
    if q:
        _split_members(specs, "sortE", dict(N=3, G=3, times=W), 60)
        _split_members(specs, "sortE", dict(N=4, G=1, times=W), 150)
        _split_members(specs, "sortE", dict(N=4, G=1, times=W), 150, dict(meta=False))
        _split_members(specs, "sortE", dict(N=4, G=2, times=I), 25)
        # parent times that are consecutive doubles / beyond single precision: the sort key is the exact time
        _split_members(specs, "sortE", dict(N=3, G=2, times=W, timescale="ulp"), 60)
        _split_members(specs, "sortE", dict(N=4, G=1, times=I, timescale="huge"), 40)
        _split_members(specs, "sortE", dict(N=3, G=3, times=I, squash=False), 12)
        for k in range(12):
            specs.append(dict(kind="sortSM", maxS=3, maxM=3, sweepS=2, sweepM=2, k=k, n=12))
        for k in range(10):
            specs.append(dict(kind="sortMig", maxR=3, k=k, n=10))
        _split_members(specs, "sortX", dict(N=3, G=2, times=I), 6)
        _split_members(specs, "sortX", dict(N=4, G=1, times=I), 4)
        _split_members(specs, "chain", dict(N=3, G=2, times=I), 1, dict(one_max=3, two_max=1))
        _split_members(specs, "chain", dict(N=4, G=1, times=I), 1, dict(one_max=3, two_max=1))
        _split_members(specs, "parents", dict(N=3, G=2, times=I), 4, dict(one_max=3, two_max=2))
        _split_members(specs, "parents", dict(N=4, G=1, times=I), 2, dict(one_max=3, two_max=2))
        _split_members(specs, "parents", dict(N=4, G=2, times=I), 16, dict(one_max=3, two_max=1))
        _split_members(specs, "canon", dict(N=3, G=2, times=I), 1, dict(one_max=3, two_max=1))
        _split_members(specs, "squash", dict(N=3, G=2, times=I, squash=False), 36)
        _split_members(specs, "squash", dict(N=3, G=3, times=I, squash=False), 30)
        specs.append(dict(kind="sortind", maxI=3, k=0, n=1))
    else:
        for n, g in ((1, 1), (2, 1), (2, 2), (2, 3), (3, 1), (3, 2)):
            _split_members(specs, "sortE", dict(N=n, G=g, times=W), 300)
        _split_members(specs, "sortE", dict(N=3, G=3, times=W), 40, dict(maxE=6))
        _split_members(specs, "sortE", dict(N=3, G=3, times=W), 60, dict(meta=False, maxE=6))
        _split_members(specs, "sortE", dict(N=4, G=1, times=W), 100)
        _split_members(specs, "sortE", dict(N=4, G=1, times=W), 100, dict(meta=False))
        _split_members(specs, "sortE", dict(N=4, G=2, times=W), 120, dict(maxE=6))
        _split_members(specs, "sortE", dict(N=4, G=3, times=I), 100, dict(maxE=4))
        _split_members(specs, "sortE", dict(N=3, G=3, times=I, squash=False), 8, dict(maxE=6))
        _split_members(specs, "sortE", dict(N=4, G=2, times=I, squash=False), 16, dict(maxE=6))
        _split_members(specs, "sortE", dict(N=5, G=1, times=I), 10)
        for k in range(60):
            specs.append(dict(kind="sortSM", maxS=3, maxM=4, sweepS=2, sweepM=3, k=k, n=60))
        for k in range(60):
            specs.append(dict(kind="sortMig", maxR=4, k=k, n=60))
        _split_members(specs, "sortX", dict(N=3, G=2, times=I), 3)
        _split_members(specs, "sortX", dict(N=4, G=1, times=I), 4)
        _split_members(specs, "sortX", dict(N=3, G=3, times=I), 12)
        th = dict(one_max=3, two_max=2, pairs=True)
        _split_members(specs, "chain", dict(N=2, G=2, times=W), 4, th, sub=4)
        _split_members(specs, "chain", dict(N=3, G=1, times=I), 1, th, sub=2)
        _split_members(specs, "chain", dict(N=3, G=1, times=W), 2, dict(one_max=3, two_max=2))
        _split_members(specs, "chain", dict(N=3, G=2, times=I), 1, th, sub=6)
        _split_members(specs, "chain", dict(N=3, G=2, times=W), 3, dict(one_max=3, two_max=1))
        _split_members(specs, "chain", dict(N=4, G=1, times=I), 1, dict(one_max=3, two_max=2), sub=2)
        _split_members(specs, "chain", dict(N=4, G=2, times=I), 4, dict(one_max=2, two_max=1))
        _split_members(specs, "parents", dict(N=2, G=2, times=I), 4, dict(one_max=4, two_max=2))
        _split_members(specs, "parents", dict(N=3, G=2, times=I), 1, dict(one_max=4, two_max=2))
        _split_members(specs, "parents", dict(N=3, G=2, times=W), 4, dict(one_max=3, two_max=2))
        _split_members(specs, "parents", dict(N=4, G=1, times=I), 1, dict(one_max=4, two_max=2))
        _split_members(specs, "parents", dict(N=4, G=2, times=I), 3, dict(one_max=3, two_max=2))
        _split_members(specs, "canon", dict(N=3, G=2, times=I), 1, dict(one_max=3, two_max=2))
        _split_members(specs, "canon", dict(N=4, G=1, times=I), 1, dict(one_max=3, two_max=1))
        _split_members(specs, "canon", dict(N=3, G=2, times=W), 6, dict(one_max=2, two_max=1))
        _split_members(specs, "squash", dict(N=3, G=2, times=I, squash=False), 36)
        _split_members(specs, "squash", dict(N=3, G=3, times=I, squash=False), 20, dict(maxE=6))
        _split_members(specs, "squash", dict(N=4, G=2, times=I, squash=False), 30, dict(maxE=6))
        for k in range(8):
            specs.append(dict(kind="sortind", maxI=4, k=k, n=8))
    return specs


def run_shard(spec):
    acc = Acc()
    kind = spec["kind"]
    gen = member_bases(spec) if "b" in spec else synthetic_bases(spec)
    for bd in gen:
        do_base(acc, kind, bd)
    return acc.result()


def replay(case):
    acc = Acc()
    do_base(acc, case["kind"], case["base"], case.get("var"))
    return acc.failures
