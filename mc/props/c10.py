"""C10  Truncated or corrupted files are rejected, never loaded as something else.

Fault enumeration over real dump() files under the ASan+UBSan build: every proper prefix,
every byte of the structural regions (header, item descriptors, keys) under a substitution
alphabet, every single-bit flip of the data region; for tskit.load and TableCollection.load,
eager and with skip_tables / skip_reference_sequence, on single files and multi-object streams."""
import math
import os
import struct

from ..acc import Acc
from ..ref import kas

ID = "C10"
LEVEL = "fault_enumeration"
VARIANT = "asan"
RULE = ("faults = (file, loader, fault) with fault in {every proper prefix length; every structural byte x "
        "{8 single-bit flips, 0x00, 0xFF, +1, -1} (thorough: all 255 substitutions; pairs of bit flips inside one "
        "descriptor); every single-bit flip in the data region; seeded multi-byte data substitutions}; a fault is "
        "non-trivial when its outcome differs from the unfaulted load (exception or different object)")
ASSUMPTIONS = [
    "an object equal to the original returned after a structural-byte change means the byte is inert by the "
    "kastore format (reserved bytes, minor version) and is accepted",
    "memory-safety oracle is ASan+UBSan",
]
SHARD_TIMEOUT = 1200


def bounds(tier):
    return {"quick": "4 files + 1 stream; 6 loaders for prefixes, 2 for byte faults; structural alphabet of 12",
            "thorough": "7 files + 2 streams; all 255 substitutions on header/descriptors; bit-flip pairs per descriptor"}[tier]


# ------------------------------------------------------------------------------ files
def file_bytes(name):
    import numpy as np
    import tskit

    from . import c09

    path = f"/dev/shm/verif-c10-src-{os.getpid()}"
    if name == "empty":
        tc = tskit.TableCollection(1.0)
        tc.build_index()
        tc.dump(path)
    elif name == "nodes":
        tc = tskit.TableCollection(2.0)
        tc.nodes.add_row(1, 0.0, metadata=b"abc")
        tc.nodes.add_row(0, 1.0)
        tc.build_index()
        tc.dump(path)
    elif name == "full":
        tc = c09._full_tables()
        tc.build_index()
        tc.dump(path)
    elif name == "full_noindex":
        tc = c09._full_tables()
        tc.drop_index()
        tc.dump(path)
    elif name == "full_noref":
        tc = c09._full_tables()
        tc.reference_sequence.clear()
        tc.build_index()
        tc.dump(path)
    elif name == "sparse":
        # rows everywhere but EMPTY ragged columns (offset arrays all zero), and a second migration so that
        # every table has at least two rows: the shape in which an offsets check keyed on the total
        # length has nothing to look at (seed c10d)
        tc = c09._full_tables()
        for t in ("nodes", "edges", "sites", "mutations", "individuals", "populations", "migrations"):
            getattr(tc, t).drop_metadata()
        n = tc.sites.num_rows
        tc.sites.set_columns(position=tc.sites.position, ancestral_state=np.zeros(0, dtype=np.int8),
                             ancestral_state_offset=np.zeros(n + 1, dtype=np.uint64))
        m = tc.mutations
        m.set_columns(site=m.site, node=m.node, parent=m.parent, time=m.time,
                      derived_state=np.zeros(0, dtype=np.int8),
                      derived_state_offset=np.zeros(m.num_rows + 1, dtype=np.uint64))
        iv = tc.individuals
        iv.set_columns(flags=iv.flags)
        tc.migrations.add_row(0, 3, 1, 0, 1, 0.5)
        tc.provenances.clear()
        tc.provenances.add_row(record="", timestamp="")
        tc.provenances.add_row(record="", timestamp="")
        tc.sort()
        tc.build_index()
        tc.dump(path)
    elif name == "ts":
        c09._full_tables().tree_sequence().dump(path)
    elif name == "schemas":
        tc = c09._full_tables()
        for t in ("nodes", "edges", "sites", "mutations", "individuals", "populations", "migrations"):
            getattr(tc, t).drop_metadata()
            getattr(tc, t).metadata_schema = tskit.MetadataSchema({"codec": "json"})
        tc.reference_sequence.metadata_schema = tskit.MetadataSchema({"codec": "json"})
        tc.reference_sequence.metadata = {"x": 1}
        tc.reference_sequence.url = "http://x"
        tc.time_units = "generations"
        tc.build_index()
        tc.dump(path)
    else:
        raise KeyError(name)
    with open(path, "rb") as f:
        data = f.read()
    os.unlink(path)
    return data


STREAMS = {"stream3": ["full", "empty", "ts"], "stream2": ["empty", "empty"]}
LOADERS = [("ts", {}), ("tc", {}), ("ts", {"skip_tables": True}), ("tc", {"skip_tables": True}),
           ("ts", {"skip_reference_sequence": True}), ("tc", {"skip_reference_sequence": True})]


def source(name):
    if name in STREAMS:
        return b"".join(file_bytes(n) for n in STREAMS[name])
    return file_bytes(name)


def do_load(kind, kw, f):
    import tskit

    if kind == "ts":
        return tskit.load(f, **kw)
    return tskit.TableCollection.load(f, **kw)


def as_tables(obj):
    return obj.tables if hasattr(obj, "tables") and hasattr(obj, "num_trees") else obj


class Ctx:
    def __init__(self, name):
        self.name = name
        self.data = source(name)
        self.path = f"/dev/shm/verif-c10-{os.getpid()}.trees"
        self.stores = kas.stores(self.data)
        self.baseline = {}

    def write(self, data):
        with open(self.path, "wb") as f:
            f.write(data)

    def base(self, li):
        if li not in self.baseline:
            kind, kw = LOADERS[li]
            self.write(self.data)
            out = []
            with open(self.path, "rb") as f:
                for _ in self.stores:
                    out.append(as_tables(do_load(kind, kw, f)).copy())
            self.baseline[li] = out
        return self.baseline[li]


RAGGED = {"nodes": ["metadata"], "edges": ["metadata"], "sites": ["ancestral_state", "metadata"],
          "mutations": ["derived_state", "metadata"], "individuals": ["location", "parents", "metadata"],
          "populations": ["metadata"], "migrations": ["metadata"], "provenances": ["timestamp", "record"]}


def wellformed(tc):
    """Offsets start at 0, are monotone and end at the column length, for every ragged column."""
    for tname, cols in RAGGED.items():
        t = getattr(tc, tname)
        for col in cols:
            o = getattr(t, col + "_offset").tolist()
            base = getattr(t, col)
            if len(o) != t.num_rows + 1 or o[0] != 0 or any(a > b for a, b in zip(o, o[1:])) or o[-1] != len(base):
                return f"{tname}.{col}_offset = {o[:6]}.. with column length {len(base)} and {t.num_rows} rows"
    return None


def spec_from_tables(tc):
    nodes = [(int(f) & 1, float(t), int(p), int(i)) for f, t, p, i in
             zip(tc.nodes.flags, tc.nodes.time, tc.nodes.population, tc.nodes.individual)]
    po = tc.individuals.parents_offset.tolist()
    par = tc.individuals.parents.tolist()
    inds = [(int(f), tuple(par[po[j]:po[j + 1]])) for j, f in enumerate(tc.individuals.flags)]
    edges = list(zip(tc.edges.left.tolist(), tc.edges.right.tolist(), tc.edges.parent.tolist(), tc.edges.child.tolist()))
    sites = [(float(x), "") for x in tc.sites.position]
    m = tc.mutations
    muts = list(zip(m.site.tolist(), m.node.tolist(), [""] * m.num_rows, m.parent.tolist(), m.time.tolist()))
    g = tc.migrations
    migs = list(zip(g.left.tolist(), g.right.tolist(), g.node.tolist(), g.source.tolist(), g.dest.tolist(), g.time.tolist()))
    return {"L": tc.sequence_length, "nodes": nodes, "individuals": inds, "populations": tc.populations.num_rows,
            "edges": edges, "sites": sites, "mutations": muts, "migrations": migs}


def judge_load(ctx, li, data, region, detail, acc, case, fault_kind, keyregion=None):
    """Load every object of the (faulted) stream; classify."""
    import tskit

    from ..ref import valid as V

    kind, kw = LOADERS[li]
    base = ctx.base(li)
    ctx.write(data)
    acc.enter(case)
    # On the lazy read paths the items of skipped tables / of the skipped reference sequence are never
    # looked at (that is what "skip" means); only the container-level packing checks apply to them.
    skipped_item = False
    if detail and fault_kind != "prefix":
        item = str(detail).split("+")[0]
        if kw.get("skip_tables") and item.split("/")[0] in TABLE_PREFIXES:
            skipped_item = True
        if kw.get("skip_reference_sequence") and item.startswith("reference_sequence/"):
            skipped_item = True
    # which store does the fault hit?
    hit = case.get("store", 0)
    outcome = "same"
    with open(ctx.path, "rb") as f:
        for si in range(len(ctx.stores)):
            try:
                obj = do_load(kind, kw, f)
                err = None
            except Exception as e:  # noqa
                obj, err = None, e
            if si < hit:
                if err is not None or not as_tables(obj).equals(base[si]):
                    acc.fail(f"{fault_kind}:earlier-object-affected", f"object {si} before the fault: {err!r}", case)
                continue
            if si > hit:
                break
            if err is not None:
                outcome = "raised"
                if fault_kind == "prefix":
                    at_boundary = case["cut"] == ctx.stores[si].start
                    if isinstance(err, EOFError) != at_boundary:
                        acc.fail("prefix:eof-signal", f"cut at {case['cut']} (object starts at {ctx.stores[si].start}): {err!r}", case)
                break
            tcs = as_tables(obj)
            if fault_kind == "prefix":
                acc.fail("prefix:loaded", f"a proper prefix of length {case['cut']} loaded successfully", case)
                break
            same = tcs.equals(base[si])
            if same:
                if region in STRICT_REGIONS and skipped_item:
                    acc.count("dontcare_fault_in_skipped_item_accepted")
                elif region in STRICT_REGIONS:
                    # these bytes are not reserved by the format: a changed value must be refused even
                    # when the object that comes out happens to equal the original
                    outcome = "accepted-equal"
                    acc.fail(f"{keyregion or region}:accepted-equal-object:{detail}",
                             f"byte change in {region} ({detail}) was accepted (object equal to the original)", case)
                break
            outcome = "different"
            if region in ("data", "padding"):
                w = wellformed(tcs)
                if w is not None:
                    acc.fail(f"data:malformed:{detail}", w, case)
                    break
                if kind == "ts" and not kw:
                    ver, reason = V.verdict(spec_from_tables(tcs))
                    if ver == V.INVALID:
                        acc.fail(f"data:invalid-loaded:{detail}", f"tskit.load returned an invalid tree sequence: {reason}", case)
                        break
                try:
                    obj.dump(ctx.path + ".rt")
                    back = do_load(kind, kw, ctx.path + ".rt")
                    if not as_tables(back).equals(tcs):
                        acc.fail(f"data:roundtrip:{detail}", "object loaded from corrupted data does not round-trip", case)
                except Exception as e:  # noqa
                    acc.fail(f"data:roundtrip-error:{detail}", repr(e), case)
            else:
                acc.fail(f"{keyregion or region}:different-object:{detail}",
                         f"byte change in {region} ({detail}) loaded as a different object", case)
            break
    acc.ev(1, nontrivial=outcome != "same")
    acc.count("outcome_" + outcome)
    acc.count("region_" + region.split(".")[0])
    return outcome


TABLE_PREFIXES = {"nodes", "edges", "sites", "mutations", "migrations", "individuals", "populations", "provenances",
                  "indexes"}
STRICT_REGIONS = {"header.magic", "header.version_major", "header.num_items", "header.file_size", "desc.type",
                  "desc.key_start", "desc.key_len", "desc.array_start", "desc.array_len", "key"}
ALPHABET_QUICK = [("flip", b) for b in range(8)] + [("set", 0), ("set", 255), ("add", 1), ("add", -1)]


def apply(byte, op):
    k, v = op
    if k == "flip":
        return byte ^ (1 << v)
    if k == "set":
        return v
    if k == "add":
        return (byte + v) % 256
    if k == "xor":
        return byte ^ v
    raise KeyError(op)


FIELD_DELTAS = [1, -1, 8, -8]


def field_faults(store):
    """Single multi-byte faults on the non-reserved numeric fields: (name, offset, width, new value, key)."""
    out = []
    out.append(("header.num_items", 12, 4, store.num_items + 1, None))
    out.append(("header.num_items", 12, 4, store.num_items - 1, None))
    for d in (1, -1, 8, -8, 64, -64):
        out.append(("header.file_size", 16, 8, store.file_size + d, None))
    for it in store.items:
        o = it["desc"]
        for name, fo, cur in (("desc.key_start", 8, it["key_start"]), ("desc.key_len", 16, it["key_len"]),
                              ("desc.array_start", 24, it["array_start"]), ("desc.array_len", 32, it["array_len"])):
            for d in FIELD_DELTAS:
                if cur + d >= 0:
                    out.append((name, o + fo, 8, cur + d, it["key"]))
            if name == "desc.array_len" and cur:
                out.append((name, o + fo, 8, cur * 2, it["key"]))
                out.append((name, o + fo, 8, cur // 2, it["key"]))
        for t in range(10):
            if t != it["type"]:
                out.append((f"desc.type:{it['type']}->{t}", o, 1, t, it["key"]))
    return out


def apply_fields(data, base, faults):
    m = bytearray(data)
    for (_, off, width, val, _) in faults:
        m[base + off:base + off + width] = int(val).to_bytes(width, "little", signed=False) if val >= 0 else b"\xff" * width
    return bytes(m)


def field_pairs(store, stride):
    """Pairs of field faults that can be mutually consistent: inside one descriptor, between
    adjacent descriptors (len_i with start_{i+1}), and a header field with a descriptor field."""
    faults = field_faults(store)
    by_item = {}
    header = [f for f in faults if f[4] is None]
    for f in faults:
        if f[4] is not None:
            by_item.setdefault(f[4], []).append(f)
    keys = [it["key"] for it in store.items]
    for n, k in enumerate(keys):
        if n % stride and n != len(keys) - 1:  # the last item (whose array ends the file) is always included
            continue
        fl = by_item[k]
        for a in range(len(fl)):
            for b in range(a + 1, len(fl)):
                if fl[a][1] != fl[b][1]:
                    yield fl[a], fl[b]
        if n + 1 < len(keys):
            for fa in fl:
                if fa[0] in ("desc.key_len", "desc.array_len"):
                    for fb in by_item[keys[n + 1]]:
                        if fb[0] == fa[0].replace("_len", "_start"):
                            yield fa, fb
        for fh in header:
            for fa in fl:
                if not fa[0].startswith("desc.type"):
                    yield fh, fa


def shards(tier, seed):
    specs = []
    files = ["full", "stream3"] if tier == "quick" else \
        ["empty", "nodes", "full", "full_noindex", "full_noref", "ts", "schemas", "stream3", "stream2"]
    for fn in files:
        for li in range(len(LOADERS)):
            if tier == "quick" and fn != "full" and li not in (0, 1, 3, 5):
                continue
            for k in range(4):
                specs.append(dict(kind="prefix", file=fn, loader=li, k=k, n=4, _resumable=True))
    sfiles = ["full", "stream3"] if tier == "quick" else files
    for fn in sfiles:
        if tier == "quick":
            lis = (0, 1) if fn == "full" else (1,)
        else:
            lis = (0, 1, 2, 5)
        for li in lis:
            nsh = 24
            for k in range(nsh):
                # all 255 substitutions only for one file and loader (thorough); the 12-operation alphabet elsewhere
                specs.append(dict(kind="struct", file=fn, loader=li, k=k, n=nsh,
                                  full=(tier == "thorough" and li == 1 and fn == "full"), _resumable=True))
                if tier == "thorough" or fn == "full":
                    specs.append(dict(kind="data", file=fn, loader=li, k=k, n=nsh, _resumable=True))
    # data faults on the file whose ragged columns are all empty (quick: table loader and tskit.load)
    for li in ((0, 1) if tier == "quick" else (0, 1, 3, 5)):
        for k in range(8):
            specs.append(dict(kind="data", file="sparse", loader=li, k=k, n=8, _resumable=True))
    for li in ((0, 1, 3, 5) if tier == "quick" else range(len(LOADERS))):
        specs.append(dict(kind="keydup", file="full", loader=li, _resumable=True))
    # pairs of consistent-looking multi-byte field changes (multi-field departures)
    nfp = 16 if tier == "quick" else 64
    for k in range(nfp):
        specs.append(dict(kind="fieldpairs", file="full", loader=1, k=k, n=nfp, stride=2 if tier == "quick" else 1,
                          _resumable=True))
    if tier == "thorough":
        for k in range(nfp):
            specs.append(dict(kind="fieldpairs", file="full", loader=0, k=k, n=nfp, stride=2, _resumable=True))
        for k in range(32):
            specs.append(dict(kind="descpairs", file="full", loader=1, k=k, n=32, _resumable=True))
        for k in range(16):
            specs.append(dict(kind="random", file="full", loader=0, k=k, n=16, seed=seed, _resumable=True))
    return specs


def run_shard(spec):
    acc = Acc()
    ctx = Ctx(spec["file"])
    li = spec["loader"]
    try:
        ctx.base(li)
    except Exception as e:  # noqa
        if spec["file"] == "full_noindex" and LOADERS[li][0] == "ts" and "TABLES_NOT_INDEXED" in str(e):
            # tskit.load legitimately refuses unindexed tables before any fault is applied
            acc.count("skipped_loader_refuses_unfaulted_file")
            return acc.result()
        acc.ev(1, True)
        acc.fail("baseline:unfaulted-load-failed", f"loading the unfaulted {spec['file']} with {LOADERS[li]} raised {e!r}",
                 {"kind": "baseline", "file": spec["file"], "loader": li})
        return acc.result()
    data = ctx.data
    skip = spec.get("_skip", 0)
    kind = spec["kind"]
    i = -1

    def store_of(off):
        for si, s in enumerate(ctx.stores):
            if s.start <= off < s.start + s.file_size:
                return si, s
        return len(ctx.stores) - 1, ctx.stores[-1]

    if kind == "prefix":
        for cut in range(spec["k"], len(data), spec["n"]):
            i += 1
            if i < skip:
                continue
            si, s = store_of(cut)
            case = {"_i": i, "_key": "prefix", "kind": kind, "file": spec["file"], "loader": li, "cut": cut, "store": si,
                    "k": spec["k"], "n": spec["n"]}
            judge_load(ctx, li, data[:cut], "prefix", None, acc, case, "prefix")
        acc.sample({"file": spec["file"], "loader": LOADERS[li], "fault": "prefix", "size": len(data)})
    elif kind in ("struct", "data"):
        ops = ALPHABET_QUICK if not spec.get("full") else [("xor", v) for v in range(1, 256)]
        if kind == "data":
            ops = [("flip", b) for b in range(8)]
        for off in range(spec["k"], len(data), spec["n"]):
            si, s = store_of(off)
            region, detail = s.region_of(off - s.start)
            isdata = region in ("data", "padding")
            if isdata != (kind == "data"):
                continue
            for op in ops:
                i += 1
                if i < skip:
                    continue
                nb = apply(data[off], op)
                if nb == data[off]:
                    continue
                case = {"_i": i, "_key": f"{region}:{detail}", "kind": kind, "file": spec["file"], "loader": li, "off": off,
                        "op": list(op), "store": si, "region": region, "detail": detail, "k": spec["k"], "n": spec["n"],
                        "full": bool(spec.get("full"))}
                mutated = data[:off] + bytes([nb]) + data[off + 1:]
                # for the item type byte the old and new type codes are part of the failure key
                kr = f"desc.type:{data[off]}->{nb}" if region == "desc.type" else None
                judge_load(ctx, li, mutated, region, detail, acc, case, kind, keyregion=kr)
        acc.sample({"file": spec["file"], "loader": LOADERS[li], "fault": kind, "size": len(data)})
    elif kind == "fieldpairs":
        st = ctx.stores[0]
        for n, (fa, fb) in enumerate(field_pairs(st, spec["stride"])):
            if n % spec["n"] != spec["k"]:
                continue
            i += 1
            if i < skip:
                continue
            region = fa[0].split(":")[0]
            detail = f"{fa[4]}+{fb[0]}:{fb[4]}"
            case = {"_i": i, "_key": f"{fa[0]}:{detail}", "kind": kind, "file": spec["file"], "loader": li, "store": 0,
                    "faults": [list(fa), list(fb)], "region": region, "detail": detail, "k": spec["k"], "n": spec["n"]}
            judge_load(ctx, li, apply_fields(data, st.start, [fa, fb]), region, detail, acc, case, "struct",
                       keyregion="pair:" + fa[0])
        acc.sample({"file": spec["file"], "fault": "pairs of descriptor/header field changes"})
    elif kind == "descpairs":
        s = ctx.stores[0]
        for it in s.items[spec["k"]::spec["n"]]:
            lo = it["desc"] + 8
            bits = [(lo + b // 8, b % 8) for b in range(32 * 8)]
            for a in range(len(bits)):
                for b in range(a + 1, len(bits)):
                    # restrict to pairs within the same 8-byte field or adjacent fields' low bytes
                    if bits[a][0] // 8 != bits[b][0] // 8 and not (bits[a][0] % 8 < 2 and bits[b][0] % 8 < 2):
                        continue
                    i += 1
                    if i < skip:
                        continue
                    m = bytearray(data)
                    m[bits[a][0]] ^= 1 << bits[a][1]
                    m[bits[b][0]] ^= 1 << bits[b][1]
                    region, detail = s.region_of(bits[a][0])
                    case = {"_i": i, "_key": f"{region}:{detail}", "kind": kind, "file": spec["file"], "loader": li,
                            "bits": [list(bits[a]), list(bits[b])], "store": 0, "region": region, "detail": detail,
                            "k": spec["k"], "n": spec["n"]}
                    judge_load(ctx, li, bytes(m), region, detail, acc, case, "struct")
        acc.sample({"file": spec["file"], "fault": "descriptor bit pairs"})
    elif kind == "keydup":
        # a key overwritten with the text of ANOTHER key of the same length (a multi-byte change inside the key
        # region): two items then carry the same name, whatever the renamed item was
        st = ctx.stores[0]
        for a in st.items:
            for b in st.items:
                if a is b or a["key_len"] != b["key_len"]:
                    continue
                i += 1
                if i < skip:
                    continue
                m = bytearray(data)
                m[st.start + b["key_start"]:st.start + b["key_start"] + b["key_len"]] = \
                    data[st.start + a["key_start"]:st.start + a["key_start"] + a["key_len"]]
                detail = f"{b['key']}:={a['key']}"
                case = {"_i": i, "_key": f"keydup:{detail}", "kind": kind, "file": spec["file"], "loader": li, "store": 0,
                        "region": "key", "detail": detail, "src": a["key"], "dst": b["key"]}
                judge_load(ctx, li, bytes(m), "key", detail, acc, case, "struct", keyregion="keydup")
        acc.sample({"file": spec["file"], "fault": "a key replaced by another key's text"})
    elif kind == "random":
        import random

        rng = random.Random(spec["seed"] * 1000 + spec["k"])
        s = ctx.stores[0]
        datareg = [(lo, hi, d) for (nm, lo, hi, d) in s.regions() if nm == "data" and hi > lo]
        for _ in range(3000):
            i += 1
            lo, hi, d = rng.choice(datareg)
            m = bytearray(data)
            for _ in range(rng.randint(2, 8)):
                m[rng.randrange(lo, hi)] = rng.randrange(256)
            if i < skip:
                continue
            case = {"_i": i, "_key": f"data:{d}", "kind": kind, "file": spec["file"], "loader": li, "store": 0,
                    "region": "data", "detail": d, "bytes": bytes(m[lo:hi]).hex(), "lo": lo, "seed": spec["seed"], "k": spec["k"]}
            judge_load(ctx, li, bytes(m), "data", d, acc, case, "data")
        acc.sample({"file": spec["file"], "fault": "random multi-byte data substitutions (sampled supplement)"})
    try:
        os.unlink(ctx.path)
    except OSError:
        pass
    return acc.result()


def replay(case):
    acc = Acc()
    ctx = Ctx(case["file"])
    data = ctx.data
    li = case["loader"]
    kind = case["kind"]
    if kind == "baseline":
        try:
            ctx.base(li)
        except Exception as e:  # noqa
            acc.fail("baseline:unfaulted-load-failed", repr(e), case)
        return acc.failures
    if kind == "prefix":
        judge_load(ctx, li, data[:case["cut"]], "prefix", None, acc, case, "prefix")
    elif kind in ("struct", "data"):
        off = case["off"]
        nb = apply(data[off], tuple(case["op"]))
        kr = f"desc.type:{data[off]}->{nb}" if case["region"] == "desc.type" else None
        judge_load(ctx, li, data[:off] + bytes([nb]) + data[off + 1:], case["region"], case["detail"], acc, case, kind,
                   keyregion=kr)
    elif kind == "fieldpairs":
        st = ctx.stores[0]
        fa, fb = [tuple(x) for x in case["faults"]]
        judge_load(ctx, li, apply_fields(data, st.start, [fa, fb]), case["region"], case["detail"], acc, case, "struct",
                   keyregion="pair:" + fa[0])
    elif kind == "descpairs":
        m = bytearray(data)
        for off, bit in case["bits"]:
            m[off] ^= 1 << bit
        judge_load(ctx, li, bytes(m), case["region"], case["detail"], acc, case, "struct")
    elif kind == "keydup":
        st = ctx.stores[0]
        a = next(it for it in st.items if it["key"] == case["src"])
        b = next(it for it in st.items if it["key"] == case["dst"])
        m = bytearray(data)
        m[st.start + b["key_start"]:st.start + b["key_start"] + b["key_len"]] = \
            data[st.start + a["key_start"]:st.start + a["key_start"] + a["key_len"]]
        judge_load(ctx, li, bytes(m), "key", case["detail"], acc, case, "struct", keyregion="keydup")
    elif kind == "random":
        m = bytearray(data)
        b = bytes.fromhex(case["bytes"])
        m[case["lo"]:case["lo"] + len(b)] = b
        judge_load(ctx, li, bytes(m), "data", case["detail"], acc, case, "data")
    return acc.failures
