"""C16  VCF output states exactly the genotypes of the tree sequence.

Exhaustive input/configuration-space exploration of TreeSequence.write_vcf / as_vcf /
`tskit vcf`: every member of a small-scope universe with sites x individuals layouts x
individuals / ploidy / names arguments x position transforms x site-mask and sample-mask
representations and patterns x isolated_as_missing x allow_position_zero.  The text that
comes out is parsed by mc/ref/vcf.py and compared, field by field, with what the
documentation says (reference genotypes from mc/ref/geno.py)."""
import io
import itertools
import os

from .. import muts as MU
from .. import universe as U
from ..acc import Acc
from ..ref import vcf as RV
from ..ref.trees import NULL, RefTS

ID = "C16"
LEVEL = "exploration"
VARIANT = "plain"
RULE = (
    "six exhaustively enumerated product blocks over (universe member, site set, node->individual "
    "layout, write_vcf arguments): gt = every member x every <=k-mutation list as a site x "
    "ploidy/layout/isolated_as_missing/dynamic sample mask; mask = every <=3-subset of a position "
    "alphabet x every site-mask pattern in 6 representations (+None, +wrong length) x "
    "allow_position_zero x 6 position transforms; alleles = 0/9/10-allele sites x mask patterns; "
    "layout = every map nodes->{-1..K-1} (K<=3 individual rows) x every ordered subset of "
    "individuals (+empty, +out of range) x isolated_as_missing; smask = every sample-mask pattern "
    "in 7 representations x layouts x site mask; misc = ploidy x names x contig_id, write_vcf and "
    "the CLI.  One evaluation = one call of the real writer compared with the reference; "
    "non-trivial = >=1 sample, >=1 site, and the reference expects an error or >=1 data line; "
    "tuples are distinct by construction (blocks use disjoint site sets or argument sets)")
ASSUMPTIONS = [
    "genotypes are defined by mc/ref/geno.py (nearest mutation above the node; missing = isolated "
    "sample without mutation when isolated_as_missing)",
    "nodes of an individual are listed in increasing node id; default individuals are those "
    "referenced by sample nodes in increasing id; if no sample refers to an individual the "
    "ploidy rule applies",
    "array-like sample masks index the genotypes in output (column) order; callables are "
    "checked by node identity through variant.samples",
    "any Exception counts as 'an error is raised'; QUAL/FILTER/INFO columns and ##source are not checked",
    "contig length: max(1, transform(sequence_length), largest transformed position of the "
    "written sites or of all sites) - both readings accepted",
    "a callable position_transform returning non-integers leaves POS unspecified (not compared)",
    "zero-sample tree sequences and duplicate ids in `individuals` are outside the documentation (skipped)",
]
SHARD_TIMEOUT = 1500

SITE_MASK_FORMS = ["bool_array", "bool_list", "int_array", "int_list", "bool_tuple", "uint8_array"]
SAMPLE_MASK_FORMS = ["bool_array", "bool_list", "int_array", "int_list", "call_const", "call_dyn"]
TRANSFORMS = [None, "legacy", "raw_plus1", "arr_plus1", "raw_fmax", "floor"]


# ------------------------------------------------------------------ bounds / shards
def bounds(tier):
    q = tier == "quick"
    return {
        "gt": ("members N<=3,G<=2 (all <=2-mutation lists as sites) + N=4,G=1 (<=1-mutation lists "
               "+ all two-node pairs) + N=4,G=2 (<=1-mutation lists, reduced argument set)" if q else
               "members N<=3,G<=3 and N=4,G<=2 (all <=2-mutation lists as sites), N=4,G=3 (<=1-mutation "
               "lists), N=5,G=1 (<=1-mutation lists + pairs); frac grid N=3,G=2 with all weak time orders"),
        "mask": ("9 members (N<=2,G=3) x <=3-subsets of {0,.5,1,1.5,2.5}; 4 frac-grid members (L=2.25) x "
                 "<=3-subsets of {0,.25,.5,1.375}; 3 members with L=0.5 x subsets of {0,.25,.375}" if q else
                 "25 members (N<=2,G=3, all flags) x <=3-subsets of {0,.5,1,1.5,2.5}; 12 frac-grid members "
                 "(L=2.25); 7 members with L=0.5"),
        "alleles": "S<=3 sites of kind plain/9 alleles/10 alleles (>=1 non-plain), all mask patterns, 2 forms",
        "layout": ("N<=2 all G=1 members K<=3; N=3 three topologies x all flags K<=3; N=4 three "
                   "topologies x all flags K<=2" if q else
                   "N<=3 all G=1 members K<=3; N=4 three topologies x all flags K<=3"),
        "smask": ("N<=3 G=1 members: all patterns x 7 forms x 3 layouts x iam x site mask; N=4 G=1 reduced"
                  if q else "N<=4 G=1 members: all patterns x 7 forms x 3 layouts x iam x site mask"),
        "misc": "N<=4 G=1 members: ploidy in {-1,0,1,2,3,4,None} x names x contig_id; write_vcf; CLI",
    }


def _members(b):
    return U.enumerate_members(**b)


def _count(b):
    return U.count_members(b["N"], b["G"], b.get("times", "id"), b.get("flags", "all"))


def _split(specs, block, b, per, **extra):
    cnt = _count(b)
    n = max(1, -(-cnt // per))
    if n % 2 == 0:
        n += 1      # flags are the innermost loop: an odd stride mixes sample-flag subsets
    for k in range(n):
        specs.append(dict(block=block, b=b, k=k, n=n, **extra))


def shards(tier, seed):
    q = tier == "quick"
    specs = []
    # ---- gt
    if q:
        for N, G, per in ((1, 1, 10), (1, 2, 10), (2, 1, 10), (2, 2, 16), (3, 1, 24), (3, 2, 8)):
            _split(specs, "gt", dict(N=N, G=G), per, maxm=2, pairs=False, level="full")
        _split(specs, "gt", dict(N=4, G=1), 64, maxm=1, pairs=True, level="full")
        _split(specs, "gt", dict(N=4, G=2), 150, maxm=1, pairs=False, level="reduced")
    else:
        for N, G, per in ((1, 1, 10), (1, 2, 10), (1, 3, 10), (2, 1, 10), (2, 2, 16), (2, 3, 32),
                          (3, 1, 24), (3, 2, 16), (3, 3, 24)):
            _split(specs, "gt", dict(N=N, G=G), per, maxm=2, pairs=False, level="full")
        _split(specs, "gt", dict(N=3, G=2, grid="frac", times="weak"), 40, maxm=2, pairs=False, level="full")
        _split(specs, "gt", dict(N=4, G=1), 16, maxm=2, pairs=False, level="full")
        _split(specs, "gt", dict(N=4, G=2), 60, maxm=2, pairs=False, level="reduced")
        _split(specs, "gt", dict(N=4, G=3), 600, maxm=1, pairs=False, level="reduced")
        _split(specs, "gt", dict(N=5, G=1), 100, maxm=1, pairs=True, level="reduced")
    # ---- mask / alleles
    fl = "allsamples" if q else "all"
    for b, alpha in ((dict(N=1, G=3, flags=fl), "int"), (dict(N=2, G=3, flags=fl), "int"),
                     (dict(N=2, G=2, flags=fl, grid="frac"), "frac"),
                     (dict(N=1, G=1, flags=fl, grid="frac"), "half"),
                     (dict(N=2, G=1, flags=fl, grid="frac"), "half")):
        for mi in range(_count(b)):
            n = 2 if alpha == "int" else 1
            for k in range(n):
                specs.append(dict(block="mask", b=b, mi=mi, alpha=alpha, k=k, n=n))
    for b in (dict(N=1, G=2), dict(N=2, G=2)):
        _split(specs, "alleles", b, 2)
    # ---- layout
    specs.append(dict(block="layout", b=dict(N=1, G=1), K=3, topo="all", k=0, n=1))
    for k in range(2):
        specs.append(dict(block="layout", b=dict(N=2, G=1), K=3, topo="all", k=k, n=2))
    if q:
        lay = [(dict(N=3, G=1), 3, "three", 25), (dict(N=4, G=1), 2, "three", 25)]
    else:
        lay = [(dict(N=3, G=1), 3, "all", 49), (dict(N=4, G=1), 3, "three", 161)]
    for b, K, topo, n in lay:
        for k in range(n):
            specs.append(dict(block="layout", b=b, K=K, topo=topo, k=k, n=n))
    # ---- smask
    for N in (1, 2, 3):
        _split(specs, "smask", dict(N=N, G=1), 3, level="full")
    _split(specs, "smask", dict(N=4, G=1), 8, level="reduced" if q else "full")
    # ---- misc
    for N in (1, 2, 3, 4):
        _split(specs, "misc", dict(N=N, G=1), 16)
    return specs


# ------------------------------------------------------------------ site sets
NINE = [str(j) for j in range(1, 9)]      # 8 derived states -> 9 alleles
TEN = [str(j) for j in range(1, 10)]      # 9 derived states -> 10 alleles


def many_alleles(N, states):
    return [(j % N, s) for j, s in enumerate(states)]


def sites_lists(m, maxm, pairs):
    """Every mutation list with <= maxm mutations (states 0/1/2, canonical valid order) is one
    site, in every genome cell (first site of a cell sits on the breakpoint), plus three
    special sites: multi-character/empty alleles, 9 alleles, and one mutation-free site."""
    rts = RefTS(m.times, m.flags, m.edges(), m.L)
    c = m.coords
    N = m.N
    out = []
    for g in range(m.G):
        par = rts.parent_map(c[g])
        lists = [list(ml) for ml in MU.mutation_lists(N, maxm, ("0", "1", "2"))
                 if MU.order_valid(par, ml)]
        if pairs:
            for u in range(N):
                for v in range(N):
                    ml = [(u, "1"), (v, "2")]
                    if MU.order_valid(par, ml):
                        lists.append(ml)
                    if u != v:
                        continue
                    lists.append([(u, "1"), (u, "0")])
        assert len(lists) < 250
        w = c[g + 1] - c[g]
        for k, ml in enumerate(lists):
            out.append((c[g] + w * k / 256, "0", ml))
    g = m.G - 1
    w = c[g + 1] - c[g]
    out.append((c[g] + w * 253 / 256, "AA", [(0, ""), (N - 1, "T")]))
    out.append((c[g] + w * 254 / 256, "0", many_alleles(N, NINE)))
    out.append((c[g] + w * 255 / 256, "G", []))
    return out


def sites_ident(m):
    """A site without mutation, one site per node with a mutation on that node, and a site
    where every node carries its own allele: columns identify nodes."""
    N, L = m.N, m.L
    out = [(0.0, "0", [])]
    for j in range(N):
        out.append((L * (j + 1) / 8, "0", [(j, "1")]))
    out.append((L * (N + 1) / 8, "A", [(j, ["C", "G", "T", "AA", "CC"][j]) for j in range(N)]))
    return out


def make_sites(m, spec):
    kind = spec[0]
    if kind == "lists":
        return sites_lists(m, spec[1], spec[2])
    if kind == "ident":
        return sites_ident(m)
    if kind == "explicit":
        return [(float(p), a, [(int(u), s) for u, s in ml]) for p, a, ml in spec[1]]
    raise ValueError(kind)


# ------------------------------------------------------------------ building
class Ctx:
    __slots__ = ("m", "spec", "layout", "ts", "model", "S", "base_case", "nontrivial_base")


def make_ctx(m, spec, layout):
    import numpy as np

    tc = m.tables()
    K = layout["K"]
    node_ind = list(layout["node_ind"])
    for _ in range(K):
        tc.individuals.add_row()
    if K > 0:
        tc.nodes.individual = np.array(node_ind, dtype=np.int32)
    MU.add_sites(tc, m, make_sites(m, spec))
    ts = tc.tree_sequence()
    rts = RefTS.from_tables(tc)
    # the layout is taken from the arguments, not read back from tskit
    ctx = Ctx()
    ctx.m, ctx.spec, ctx.layout, ctx.ts = m, spec, layout, ts
    ctx.model = RV.build_model(rts, node_ind, K)
    ctx.S = len(rts.sites)
    ctx.base_case = {"member": m.desc(), "sites": spec, "layout": layout}
    ctx.nontrivial_base = ctx.S > 0 and len(m.samples) > 0
    return ctx


NO_LAYOUT = lambda N: {"K": 0, "node_ind": [NULL] * N}  # noqa


def _transform_fn(kind):
    import numpy as np

    if kind is None or kind == "legacy":
        return kind
    if kind == "raw_plus1":
        # exactly the callable recommended by write_vcf's own position-zero error message
        return lambda x: 1 + x
    if kind == "arr_plus1":
        return lambda x: np.asarray(x) + 1
    if kind == "raw_fmax":
        # the other callable recommended by the error message
        return lambda x: np.fmax(1, x)
    if kind == "floor":
        return lambda x: np.floor(x).astype(np.int64)
    raise ValueError(kind)


def _site_mask_arg(sm):
    import numpy as np

    pat = [int(bool(x)) for x in sm["pattern"]]
    form = sm["form"]
    if form == "bool_array":
        return np.array(pat, dtype=bool)
    if form == "bool_list":
        return [bool(x) for x in pat]
    if form == "int_array":
        return np.array(pat, dtype=np.int64)
    if form == "int_list":
        return list(pat)
    if form == "bool_tuple":
        return tuple(bool(x) for x in pat)
    if form == "uint8_array":
        return np.array(pat, dtype=np.uint8)
    raise ValueError(form)


def _sample_mask_arg(sm, calls):
    import numpy as np

    form = sm["form"]
    if form == "call_nodes":
        nodes, shift, N = list(sm["nodes"]), sm.get("shift", 0), sm.get("N", 1)

        def by_node(variant):
            calls.append(int(variant.site.id))
            hit = [(u + shift * variant.site.id) % N for u in nodes] if shift else nodes
            return np.isin(variant.samples, hit)
        return by_node
    pat = [int(bool(x)) for x in sm["pattern"]]
    if form == "bool_array":
        return np.array(pat, dtype=bool)
    if form == "bool_list":
        return [bool(x) for x in pat]
    if form == "int_array":
        return np.array(pat, dtype=np.int64)
    if form == "int_list":
        return list(pat)
    if form == "call_const":
        def const(variant):
            calls.append(int(variant.site.id))
            return np.array(pat, dtype=bool)
        return const
    if form == "call_dyn":
        def dyn(variant):
            calls.append(int(variant.site.id))
            n = len(pat)
            return np.array([pat[(j + variant.site.id) % n] for j in range(n)], dtype=bool)
        return dyn
    raise ValueError(form)


def impl_call(ts, cfg, via):
    """Run the real writer.  -> (("ok", text) | ("error", class name, message), calls)."""
    calls = []
    kw = {}
    for name, key in (("ploidy", "ploidy"), ("individuals", "individuals"),
                      ("names", "individual_names"), ("contig_id", "contig_id"),
                      ("iam", "isolated_as_missing"), ("apz", "allow_position_zero")):
        if cfg.get(name) is not None:
            v = cfg[name]
            kw[key] = list(v) if isinstance(v, (list, tuple)) else v
    if cfg.get("transform") is not None:
        kw["position_transform"] = _transform_fn(cfg["transform"])
    if cfg.get("site_mask") is not None:
        kw["site_mask"] = _site_mask_arg(cfg["site_mask"])
    if cfg.get("sample_mask") is not None:
        kw["sample_mask"] = _sample_mask_arg(cfg["sample_mask"], calls)
    try:
        if via == "as_vcf":
            text = ts.as_vcf(**kw)
        elif via == "write_vcf":
            buf = io.StringIO()
            ploidy = kw.pop("ploidy", None)
            ts.write_vcf(buf, ploidy, **kw)
            text = buf.getvalue()
        elif via == "cli":
            text = _cli(ts, cfg)
        else:
            raise RuntimeError(via)
    except Exception as e:  # noqa: any exception is "an error is raised"
        return ("error", type(e).__name__, str(e)[:300]), calls
    return ("ok", text), calls


def _cli(ts, cfg):
    import contextlib

    from tskit import cli

    path = f"/dev/shm/verif-c16-{os.getpid()}.trees"
    ts.dump(path)
    try:
        args = ["vcf", path]
        if cfg.get("ploidy") is not None:
            args += ["--ploidy", str(cfg["ploidy"])]
        if cfg.get("contig_id") is not None:
            args += ["--contig-id", cfg["contig_id"]]
        if cfg.get("apz"):
            args += ["--allow-position-zero"]
        buf = io.StringIO()
        with contextlib.redirect_stdout(buf):
            try:
                cli.tskit_main(args)
            except SystemExit as e:
                raise RuntimeError(f"SystemExit({e.code})")
        return buf.getvalue()
    finally:
        try:
            os.unlink(path)
        except OSError:
            pass


# ------------------------------------------------------------------ comparison
ERROR_PRIORITY = [
    "ploidy_with_individuals", "samples_partly_in_individuals", "individuals_empty",
    "individual_out_of_range", "individual_without_nodes", "individual_mixed_sample_nonsample",
    "ploidy_not_positive", "samples_not_divisible_by_ploidy", "names_wrong_length",
    "site_mask_wrong_length", "more_than_9_alleles", "position_zero", "sample_mask_wrong_length",
    "individual_all_nonsample",
]


def key_prefix(cfg):
    if cfg.get("transform") == "raw_plus1":
        return "position_transform:raw_plus1:"
    sm = cfg.get("site_mask")
    if sm is not None and sm["form"] != "bool_array":
        return f"site_mask_form:{sm['form']}:"
    return ""


def compare(ctx, cfg, via, got, calls):
    """-> list of (key, what)."""
    kind, exp = RV.expected(ctx.model, cfg)
    pre = key_prefix(cfg)
    if kind == "error":
        if got[0] == "error":
            return [], kind, exp
        reasons = sorted(set(exp), key=ERROR_PRIORITY.index)
        if reasons == ["individual_all_nonsample"]:
            # The docstring calls this an error, the code writes the genotypes of the non-sample
            # nodes; the property (GT fields spell the decoded genotypes of the sample nodes) does not
            # cover it either way, so it is counted, not judged.
            return [], kind, exp
            return [("individuals:all_nonsample_accepted",
                     "write_vcf produced output for an individual none of whose nodes is a "
                     "sample; documented: 'It is an error to specify any individuals that are "
                     "not associated with any nodes, or whose nodes are not all samples'")], kind, exp
        return [(f"{pre}missing_error:{reasons[0]}",
                 f"no error raised, expected one because of {reasons}; output:\n{got[1][:600]}")], kind, exp
    if got[0] == "error":
        if exp["error_also_accepted"]:
            return [], kind, exp
        return [(f"{pre}unexpected_error:{got[1]}", f"raised {got[1]}: {got[2]}; expected "
                 f"{len(exp['rows'])} data lines")], kind, exp
    out = []
    try:
        p = RV.parse(got[1])
    except RV.VcfParseError as e:
        return [(f"{pre}parse", f"{e}; output:\n{got[1][:600]}")], kind, exp
    contig_id = cfg.get("contig_id") or "1"
    if len(p["contigs"]) != 1 or p["contigs"][0][0] != contig_id:
        out.append(("header:contig_id", f"contig lines {p['contigs']} expected ID {contig_id!r}"))
    elif exp["contig_lengths"] is not None and p["contigs"][0][1] not in exp["contig_lengths"]:
        out.append(("header:contig_length",
                    f"contig length {p['contigs'][0][1]} expected one of {sorted(exp['contig_lengths'])}"))
    if p["columns"][:9] != RV.FIXED_COLUMNS:
        out.append(("header:columns", f"fixed columns are {p['columns'][:9]}"))
    if p["columns"][9:] != exp["names"]:
        out.append(("header:names", f"sample names {p['columns'][9:]} expected {exp['names']}"))
    if len(p["rows"]) != len(exp["rows"]):
        out.append(("lines:count", f"{len(p['rows'])} data lines (ids {[r[2] if len(r) > 2 else r for r in p['rows']]}) "
                    f"expected sites {exp['unmasked']}"))
    else:
        ncol = 9 + len(exp["names"])
        for row, e in zip(p["rows"], exp["rows"]):
            s = e["site"]
            if len(row) != ncol:
                out.append(("line:columns", f"site {s}: {len(row)} columns expected {ncol}: {row}"))
                continue
            if row[2] != e["id"]:
                out.append(("line:id", f"line for site {s} has ID {row[2]!r}"))
            if row[0] != contig_id:
                out.append(("line:chrom", f"site {s}: CHROM {row[0]!r} expected {contig_id!r}"))
            if e["pos"] is not None and row[1] != str(e["pos"]):
                out.append(("line:pos", f"site {s}: POS {row[1]!r} expected {e['pos']}"))
            if row[3] != e["ref"]:
                out.append(("line:ref", f"site {s}: REF {row[3]!r} expected {e['ref']!r}"))
            if row[4] != e["alt"]:
                out.append(("line:alt", f"site {s}: ALT {row[4]!r} expected {e['alt']!r}"))
            if row[8] != "GT":
                out.append(("line:format", f"site {s}: FORMAT {row[8]!r}"))
            if row[9:] != e["gt"]:
                out.append(("line:gt", f"site {s}: GT {row[9:]} expected {e['gt']}"))
    sm = cfg.get("sample_mask")
    if sm is not None and sm["form"].startswith("call") and calls != exp["unmasked"]:
        out.append(("sample_mask:calls", f"callable called for sites {calls}, expected exactly the "
                    f"unmasked sites {exp['unmasked']} in order"))
    # first problem of each key only
    seen, uniq = set(), []
    for k, w in out:
        if k not in seen:
            seen.add(k)
            uniq.append((pre + k, w))
    return uniq, kind, exp


def check(ctx, cfg, acc, via="as_vcf"):
    case = dict(ctx.base_case, cfg=cfg, via=via)
    acc.enter(case)
    got, calls = impl_call(ctx.ts, cfg, via)
    problems, kind, exp = compare(ctx, cfg, via, got, calls)
    nontrivial = ctx.nontrivial_base and (kind == "error" or len(exp["rows"]) > 0)
    acc.ev(1, nontrivial)
    acc.count("expect_error" if kind == "error" else "expect_ok")
    if nontrivial and not acc.samples:
        acc.sample({"case": case, "expected": kind if kind == "error" else f"{len(exp['rows'])} data lines",
                    "observed": got[0]})
    for key, what in problems:
        acc.fail(key, what, case)
    return got


# ------------------------------------------------------------------ helpers for enumeration
def partitions_layout(samples, N, groups):
    """layout from a list of groups (lists of positions into `samples`), individual j = group j."""
    node_ind = [NULL] * N
    for j, g in enumerate(groups):
        for i in g:
            node_ind[samples[i]] = j
    return {"K": len(groups), "node_ind": node_ind}


def standard_layouts(m):
    """none / haploid individuals in reverse id order / a non-contiguous multiploid layout."""
    S, N = m.samples, m.N
    n = len(S)
    out = [("none", NO_LAYOUT(N))]
    if n >= 2:
        out.append(("hap_rev", partitions_layout(S, N, [[n - 1 - j] for j in range(n)])))
    if n == 2:
        out.append(("multi", partitions_layout(S, N, [[0, 1]])))
    elif n == 3:
        out.append(("multi", partitions_layout(S, N, [[0, 2], [1]])))
    elif n == 4:
        out.append(("multi", partitions_layout(S, N, [[1], [0, 3], [2]])))
        out.append(("dip", partitions_layout(S, N, [[0, 2], [1, 3]])))
    elif n == 5:
        out.append(("multi", partitions_layout(S, N, [[1, 4], [0, 3], [2]])))
    return out


def patterns(n):
    return [list(p) for p in itertools.product((0, 1), repeat=n)]


def ordered_subsets(K):
    out = []
    for r in range(1, K + 1):
        out.extend(list(p) for p in itertools.permutations(range(K), r))
    return out


# ------------------------------------------------------------------ blocks
def block_gt(spec, acc):
    sp = ["lists", spec["maxm"], spec["pairs"]]
    full = spec["level"] == "full"
    for m in U.shard(_members(spec["b"]), spec["k"], spec["n"]):
        S = m.samples
        n = len(S)
        if n == 0:
            acc.count("skipped_zero_samples")
            continue
        dyn = {"form": "call_nodes", "nodes": [0], "shift": 1, "N": m.N}
        for name, layout in standard_layouts(m):
            ctx = make_ctx(m, sp, layout)
            if name == "none":
                ploidies = [None] + ([n] if n >= 2 else []) + ([2] if n == 4 else [])
                if full:
                    cfgs = [(iam, pl, smk) for iam in (None, False) for pl in ploidies
                            for smk in (None, dyn)]
                else:
                    cfgs = [(None, None, None), (False, None, dyn)]
                    if n >= 2:
                        cfgs.append((None, n, None))
                for iam, pl, smk in cfgs:
                    check(ctx, {"apz": True, "iam": iam, "ploidy": pl, "sample_mask": smk}, acc)
            elif name == "hap_rev":
                check(ctx, {"apz": True}, acc)
                if full:
                    check(ctx, {"apz": True, "iam": False, "sample_mask": dyn}, acc)
            else:
                check(ctx, {"apz": True, "sample_mask": dyn}, acc)
                if full:
                    check(ctx, {"apz": True, "iam": False}, acc)
                    check(ctx, {"apz": True, "iam": True}, acc)


INT_ALPHA = [0.0, 0.5, 1.0, 1.5, 2.5]
FRAC_ALPHA = [0.0, 0.25, 0.5, 1.375]
HALF_ALPHA = [0.0, 0.25, 0.375]      # sequence length 0.5: rounds to 0


def mask_cfgs(S):
    """None, every pattern in every representation, one wrong length per extreme form."""
    out = [None]
    for form in SITE_MASK_FORMS:
        for pat in patterns(S):
            out.append({"form": form, "pattern": pat})
    out.append({"form": "bool_array", "pattern": [0] * (S + 1)})
    out.append({"form": "int_list", "pattern": [1] * (S + 1)})
    return out


def block_mask(spec, acc):
    b = dict(spec["b"])
    members = list(_members(b))
    m = members[spec["mi"]]
    if not m.samples:
        acc.count("skipped_zero_samples")
        return
    alpha = {"int": INT_ALPHA, "frac": FRAC_ALPHA, "half": HALF_ALPHA}[spec["alpha"]]
    subsets = []
    for r in range(0, 4):
        subsets.extend(itertools.combinations(range(len(alpha)), r))
    for si, sub in enumerate(subsets):
        if si % spec["n"] != spec["k"]:
            continue
        placement = [[alpha[i], "0", [[i % m.N, "1"]] if i % 2 == 0 else []] for i in sub]
        ctx = make_ctx(m, ["explicit", placement], NO_LAYOUT(m.N))
        S = len(sub)
        for smask in mask_cfgs(S):
            for apz in (None, False, True):
                for tr in TRANSFORMS:
                    check(ctx, {"site_mask": smask, "apz": apz, "transform": tr}, acc)


def block_alleles(spec, acc):
    pos = [0.0, 0.5, 1.25]
    for m in U.shard(_members(spec["b"]), spec["k"], spec["n"]):
        if not m.samples:
            acc.count("skipped_zero_samples")
            continue
        kinds = {"plain": [(0, "1")], "nine": many_alleles(m.N, NINE), "ten": many_alleles(m.N, TEN)}
        for S in (1, 2, 3):
            for combo in itertools.product(("plain", "nine", "ten"), repeat=S):
                if all(k == "plain" for k in combo):
                    continue
                placement = [[pos[j], "0", [list(x) for x in kinds[k]]] for j, k in enumerate(combo)]
                ctx = make_ctx(m, ["explicit", placement], NO_LAYOUT(m.N))
                masks = [None]
                for form in ("bool_array", "int_list"):
                    masks += [{"form": form, "pattern": p} for p in patterns(S)]
                for smask in masks:
                    for apz in (None, True):
                        check(ctx, {"site_mask": smask, "apz": apz}, acc)
                        if apz:
                            check(ctx, {"site_mask": smask, "apz": apz, "iam": False,
                                        "sample_mask": {"form": "call_nodes", "nodes": [m.samples[0]]}}, acc)


def three_topologies(N):
    iso = tuple([-1] * N)
    comb = tuple(list(range(1, N)) + [-1])
    star = tuple([N - 1] * (N - 1) + [-1])
    return {iso, comb, star}


def block_layout(spec, acc):
    K_max = spec["K"]
    # sharding is over (member, layout) pairs
    members = list(_members(spec["b"]))
    if spec["topo"] == "three":
        keep = three_topologies(spec["b"]["N"])
        members = [m for m in members if m.parents[0] in keep]
    idx = 0
    for m in members:
        N = m.N
        for K in range(0, K_max + 1):
            for node_ind in itertools.product(range(-1, K), repeat=N):
                idx += 1
                if idx % spec["n"] != spec["k"]:
                    continue
                if not m.samples:
                    acc.count("skipped_zero_samples")
                    continue
                layout = {"K": K, "node_ind": list(node_ind)}
                ctx = make_ctx(m, ["ident"], layout)
                args = [None, [], [K], [-1]] + ordered_subsets(K)
                for ind in args:
                    for iam in (None, False):
                        check(ctx, {"apz": True, "individuals": ind, "iam": iam}, acc)
                if K > 0:
                    check(ctx, {"apz": True, "ploidy": 1}, acc)
                    names = [f"n{j}" for j in range(K)]
                    check(ctx, {"apz": True, "names": names}, acc)


def block_smask(spec, acc):
    full = spec["level"] == "full"
    for m in U.shard(_members(spec["b"]), spec["k"], spec["n"]):
        S = m.samples
        n = len(S)
        if n == 0:
            acc.count("skipped_zero_samples")
            continue
        lays = standard_layouts(m)
        if not full:
            lays = lays[:1] + lays[2:3]
        for name, layout in lays:
            ctx = make_ctx(m, ["ident"], layout)
            smasks = []
            for form in SAMPLE_MASK_FORMS:
                if not full and form in ("int_array", "bool_list"):
                    continue
                for pat in patterns(n):
                    smasks.append({"form": form, "pattern": pat})
            smasks.append({"form": "bool_array", "pattern": [0] * (n + 1)})
            smasks.append({"form": "call_const", "pattern": [1] * (n - 1)})
            for sub in patterns(m.N) if full else []:
                nodes = [u for u in range(m.N) if sub[u]]
                smasks.append({"form": "call_nodes", "nodes": nodes})
            site_masks = [None, {"form": "bool_array", "pattern": [j % 2 for j in range(ctx.S)]}]
            if full:
                site_masks.append({"form": "bool_array", "pattern": [1] * ctx.S})
            for smk in smasks:
                for iam in (None, False) if full else (None,):
                    for sm in site_masks:
                        check(ctx, {"apz": True, "sample_mask": smk, "iam": iam, "site_mask": sm}, acc)
            K = layout["K"]
            if K >= 2:
                # masks index the genotypes that are output: permuted and subset individuals
                rev = list(range(K - 1, -1, -1))
                for form in ("bool_array", "call_dyn"):
                    for pat in patterns(n):
                        check(ctx, {"apz": True, "individuals": rev,
                                    "sample_mask": {"form": form, "pattern": pat}}, acc)
                n_sub = sum(1 for x in layout["node_ind"] if x == K - 1)
                for form in ("int_list", "call_const"):
                    for pat in patterns(n_sub):
                        check(ctx, {"apz": True, "individuals": [K - 1],
                                    "sample_mask": {"form": form, "pattern": pat}}, acc)
                check(ctx, {"apz": True, "individuals": [K - 1, 0],
                            "sample_mask": {"form": "call_nodes", "nodes": [S[0]]}}, acc)


def block_misc(spec, acc):
    for mi, m in enumerate(U.shard(_members(spec["b"]), spec["k"], spec["n"])):
        n = len(m.samples)
        if n == 0:
            acc.count("skipped_zero_samples")
            continue
        ctx = make_ctx(m, ["ident"], NO_LAYOUT(m.N))
        for pl in (None, -1, 0, 1, 2, 3, 4):
            k = n // pl if pl and pl > 0 and n % pl == 0 else n
            for names in (None, [f"x{j}" for j in range(k)], [f"x{j}" for j in range(k + 1)],
                          [f"x{j}" for j in range(k - 1)]):
                for contig in (None, "chrX"):
                    if pl is None and names is None and contig is None:
                        continue  # the all-default call belongs to block layout
                    check(ctx, {"apz": True, "ploidy": pl, "names": names, "contig_id": contig}, acc)
        # the three entry points agree with the reference on the same arguments
        for pl in (None, 1, 2, 3):
            check(ctx, {"apz": True, "ploidy": pl, "iam": True}, acc, via="write_vcf")
            for contig in (None, "c"):
                for apz in (None, True):
                    check(ctx, {"apz": apz, "ploidy": pl, "contig_id": contig}, acc, via="cli")


BLOCKS = {"gt": block_gt, "mask": block_mask, "alleles": block_alleles, "layout": block_layout,
          "smask": block_smask, "misc": block_misc}


def run_shard(spec):
    acc = Acc()
    BLOCKS[spec["block"]](spec, acc)
    acc.count("evals_" + spec["block"], acc.evals)
    return acc.result()


def replay(case):
    acc = Acc()
    m = U.Member.from_desc(case["member"])
    ctx = make_ctx(m, case["sites"], case["layout"])
    check(ctx, case["cfg"], acc, via=case.get("via", "as_vcf"))
    return acc.failures
