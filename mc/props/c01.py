"""C01  Marginal trees are exactly what the node and edge tables say.

Exhaustive input-space exploration: every member of the small-scope universe x tree
options x every access path, compared with the reference model in mc/ref/trees.py."""
import itertools
import math

from .. import universe as U
from ..acc import Acc
from .. import argforms as AF
from ..ref.trees import NULL, RefTS

ID = "C01"
LEVEL = "exploration"
RULE = ("every universe member (all parent choices per node per cell, all sample-flag subsets) x "
        "sample_lists x root_threshold in {1,2,3} x tracked_samples in {none, all, each single, one pair} "
        "x access path (trees, reversed, aslist, at, at_index, first, last); non-trivial = member has "
        ">=1 edge and >=1 sample (each (member, options) pair is a distinct code by construction)")
ASSUMPTIONS = [
    "child order within a node is unspecified and compared as a set",
    "reference model mc/ref/trees.py is the data-model definition l<=x<r",
]
ORDERS = ["preorder", "inorder", "postorder", "levelorder", "breadthfirst", "timeasc",
          "timedesc", "minlex_postorder"]


def bounds(tier):
    if tier == "quick":
        return {"universe": "U_B (N<=4,G<=2,times=id) + (N<=3,G=3); frac grid sample",
                "options": "full on N<=3; on N=4 full options for G=1, reduced for G=2"}
    return {"universe": "U_A (N<=4,G<=2 all weak time orders) + U_D (N=3,G=3 weak) + N=4,G=3 id",
            "options": "full"}


def _split(specs, b, opts, per):
    cnt = U.count_members(b["N"], b["G"], b.get("times", "id"))
    n = max(1, -(-cnt // per))
    for k in range(n):
        specs.append(dict(b=b, k=k, n=n, opts=opts))


def shards(tier, seed):
    specs = []
    if tier == "quick":
        for n in (0, 1, 2, 3):
            for g in (1, 2, 3):
                _split(specs, dict(N=n, G=g, times="id"), "full", 60)
        _split(specs, dict(N=4, G=1, times="id"), "full", 40)
        _split(specs, dict(N=4, G=2, times="id"), "reduced", 200)
        _split(specs, dict(N=3, G=2, times="weak", grid="frac", timescale="quarter"), "reduced", 200)
        _split(specs, dict(N=3, G=2, times="id", squash=False), "reduced", 200)
        # a tree exactly one ulp wide: positions / midpoints must not round across it
        _split(specs, dict(N=2, G=3, times="id", grid="ulp"), "reduced", 200)
        for tsc in ("ulp", "huge", "tiny"):
            _split(specs, dict(N=3, G=2, times="id", timescale=tsc), "reduced", 200)
    else:
        for tsc in ("ulp", "huge", "tiny"):
            _split(specs, dict(N=4, G=2, times="id", timescale=tsc), "reduced", 600)
        _split(specs, dict(N=3, G=3, times="id", grid="ulp"), "reduced", 600)
        for n in (0, 1, 2, 3):
            for g in (1, 2, 3):
                _split(specs, dict(N=n, G=g, times="weak"), "full", 100)
        _split(specs, dict(N=4, G=1, times="weak"), "full", 100)
        _split(specs, dict(N=4, G=2, times="weak"), "reduced", 600)
        _split(specs, dict(N=4, G=3, times="id"), "reduced", 600)
        _split(specs, dict(N=3, G=3, times="weak", grid="frac", timescale="big"), "reduced", 600)
        _split(specs, dict(N=4, G=2, times="id", squash=False), "reduced", 600)
    return specs


def option_list(m, mode):
    S = m.samples
    tracked = [None, list(S)]
    if mode == "full":
        tracked += [[s] for s in S]
        if len(S) >= 2:
            tracked.append([S[-1], S[0]])
        ths = (1, 2, 3)
        sls = (False, True)
    else:
        if len(S) >= 2:
            tracked.append([S[-1], S[0]])
        ths = (1, 2)
        sls = (True,)
    out = []
    for sl in sls:
        for th in ths:
            for tr in tracked:
                out.append((sl, th, tr))
    return out


def build_ts(m):
    tc = m.tables()
    # attributes that tree access does not depend on, varied deterministically over the members
    k = (m.N + m.G + sum(m.flags) + len(m.edges())) % 3
    if k == 1:
        tc.time_units = "uncalibrated"
        tc.metadata = b"top"
    elif k == 2:
        tc.time_units = "ticks"
        tc.reference_sequence.data = "ACGT"
    c = m.coords
    pos = []
    for i in range(m.G):
        pos.append(c[i])
        pos.append((c[i] + c[i + 1]) / 2)
    # on a grid with one-ulp cells the "midpoint" is one of the ends: keep distinct positions below L
    pos = sorted({x for x in pos if x < m.L})
    for j, x in enumerate(pos):
        s = tc.sites.add_row(x, "0")
        if m.N > 0:
            tc.mutations.add_row(site=s, node=j % m.N, derived_state="1")
    return tc, tc.tree_sequence(), pos


def chain(arr_first, arr_next, u):
    out = []
    v = arr_first[u]
    guard = 0
    while v != NULL:
        out.append(v)
        v = arr_next[v]
        guard += 1
        if guard > 1000:
            raise RuntimeError("cycle in sibling chain")
    return out


def snap(tree, N, with_lists):
    """Canonical observable state of a tree (child order abstracted)."""
    par = tree.parent_array.tolist()
    lc = tree.left_child_array.tolist()
    rc = tree.right_child_array.tolist()
    ls = tree.left_sib_array.tolist()
    rs = tree.right_sib_array.tolist()
    nc = tree.num_children_array.tolist()
    kids = []
    for u in range(N + 1):
        fwd = chain(lc, rs, u)
        bwd = chain(rc, ls, u)
        if fwd != bwd[::-1]:
            return ("BAD-SIB-CHAINS", u, fwd, bwd)
        if nc[u] != len(fwd):
            return ("BAD-NUM-CHILDREN", u, nc[u], fwd)
        kids.append(tuple(sorted(fwd)))
    ns = tuple(tree.num_samples(u) for u in range(N + 1))
    nt = tuple(tree.num_tracked_samples(u) for u in range(N + 1))
    lists = None
    if with_lists:
        lists = tuple(tuple(sorted(int(x) for x in tree.samples(u))) for u in range(N))
        lists += (tuple(sorted(int(x) for x in tree.samples())),)
    iv = tree.interval
    return (tuple(par), tuple(kids), tuple(tree.edge_array.tolist()), ns, nt,
            (iv.left, iv.right), tree.index, tree.num_edges,
            tuple(sorted(tree.roots)), tuple(s.id for s in tree.sites()), lists)


def ref_snap(rts, rt, index, iv, th, tracked, with_lists, site_pos):
    N = rts.N
    roots = rt.roots(th)
    kids = [tuple(sorted(rt.children[u])) for u in range(N)] + [tuple(roots)]
    em = rts.edge_map(iv[0])
    S = rts.samples
    tr = tracked or []
    ns = tuple(rt.num_samples(u) for u in range(N)) + (len(S),)
    nt = tuple(rt.num_tracked(u, tr) for u in range(N)) + (len(tr),)
    lists = None
    if with_lists:
        allr = []
        for r in roots:
            allr.extend(rt.samples_below(r))
        lists = tuple(tuple(rt.samples_below(u)) for u in range(N)) + (tuple(sorted(allr)),)
    sites = tuple(j for j, x in enumerate(site_pos) if iv[0] <= x < iv[1])
    return (tuple(rt.parent) + (NULL,), tuple(kids), tuple(em) + (NULL,), ns, nt,
            (iv[0], iv[1]), index, rt.num_edges(), tuple(roots), sites, lists)


def valid_preorder(seq, tops, parent):
    stack = []
    for v in seq:
        if v in tops:
            stack = [v]
            continue
        p = parent[v]
        while stack and stack[-1] != p:
            stack.pop()
        if not stack:
            return False
        stack.append(v)
    return True


def valid_inorder(seq, u, children, subtree_sets):
    if u not in seq:
        return False
    i = seq.index(u)
    ch = children[u]
    n = len(ch)

    def blocks(part):
        out = []
        j = 0
        while j < len(part):
            c = None
            for cand in ch:
                if part[j] in subtree_sets[cand]:
                    c = cand
                    break
            if c is None:
                return None
            size = len(subtree_sets[c])
            blk = part[j:j + size]
            if set(blk) != subtree_sets[c]:
                return None
            out.append((c, blk))
            j += size
        return out

    b1 = blocks(seq[:i])
    b2 = blocks(seq[i + 1:])
    if b1 is None or b2 is None:
        return False
    if len(b1) != n // 2 or len(b2) != n - n // 2:
        return False
    if sorted(c for c, _ in b1 + b2) != sorted(ch):
        return False
    return all(valid_inorder(list(blk), c, children, subtree_sets) for c, blk in b1 + b2)


def check_traversals(tree, rt, rts, th, fail):
    N = rts.N
    vroot = N
    roots = rt.roots(th)
    times = rts.times
    parent = list(rt.parent) + [NULL]
    children = [list(c) for c in rt.children] + [list(roots)]
    for r in roots:
        parent[r] = vroot  # below the virtual root, for traversal from it
    sub = {}

    def subtree(u):
        out = [u]
        for c in children[u]:
            out.extend(subtree(c))
        return out

    subsets = [set(subtree(u)) for u in range(N + 1)]
    is_leaf = [len(children[u]) == 0 for u in range(N + 1)]

    def min_leaf(u):
        return min(v for v in subsets[u] if is_leaf[v])

    def minlex(u):
        out = []
        for c in sorted(children[u], key=min_leaf):
            out.extend(minlex(c))
        out.append(u)
        return out

    def depth_from(u, top):
        d = 0
        while u != top:
            u = parent[u]
            d += 1
        return d

    for root in [None] + list(range(N + 1)):
        if root is None:
            expect = set()
            for r in roots:
                expect |= subsets[r]
            tops = set(roots)
        else:
            expect = subsets[root]
            tops = {root}
        for order in ORDERS:
            try:
                seq = [int(x) for x in tree.nodes(root, order=order)]
            except Exception as e:  # noqa
                fail(f"nodes(root={root}, order={order}) raised {e!r}")
                continue
            if len(seq) != len(set(seq)) or set(seq) != expect:
                fail(f"nodes(root={root}, order={order}) = {seq}, expected node set {sorted(expect)}")
                continue
            ok = True
            if order == "preorder":
                ok = valid_preorder(seq, tops, parent)
            elif order == "postorder":
                ok = valid_preorder(seq[::-1], tops, parent)
            elif order == "inorder":
                if root is None:
                    j = 0
                    for r in [x for x in seq if x in tops]:
                        size = len(subsets[r])
                        blk = seq[j:j + size]
                        ok = ok and set(blk) == subsets[r] and valid_inorder(blk, r, children, subsets)
                        j += size
                else:
                    ok = valid_inorder(seq, root, children, subsets)
            elif order in ("levelorder", "breadthfirst"):
                if root is None:
                    ds = [depth_from(v, vroot) for v in seq]
                else:
                    ds = [depth_from(v, root) for v in seq]
                ok = all(a <= b for a, b in zip(ds, ds[1:]))
            elif order in ("timeasc", "timedesc"):
                tm = lambda v: math.inf if v == vroot else times[v]  # noqa
                exp = sorted(expect, key=lambda v: (tm(v), v))
                if order == "timedesc":
                    exp = exp[::-1]
                ok = seq == exp
            elif order == "minlex_postorder":
                if root is None:
                    exp = []
                    for r in sorted(roots, key=min_leaf):
                        exp.extend(minlex(r))
                else:
                    exp = minlex(root)
                ok = seq == exp
            if not ok:
                fail(f"nodes(root={root}, order={order}) = {seq} violates the order definition")
    # array forms
    for root in [NULL] + list(range(N + 1)):
        pre = tree.preorder(root).tolist()
        post = tree.postorder(root).tolist()
        if root == NULL:
            expect = set()
            for r in roots:
                expect |= subsets[r]
            tops = set(roots)
        else:
            expect, tops = subsets[root], {root}
        if set(pre) != expect or len(pre) != len(expect) or not valid_preorder(pre, tops, parent):
            fail(f"preorder({root}) = {pre}")
        if set(post) != expect or len(post) != len(expect) or not valid_preorder(post[::-1], tops, parent):
            fail(f"postorder({root}) = {post}")


def check_queries(tree, rt, rts, th, tracked, fail):
    N = rts.N
    times = rts.times
    fl = rts.flags
    for u in range(N):
        if tree.parent(u) != rt.parent[u]:
            fail(f"parent({u})")
        if set(tree.children(u)) != set(rt.children[u]) or len(tree.children(u)) != len(rt.children[u]):
            fail(f"children({u}) = {tree.children(u)}")
        if tree.num_children(u) != len(rt.children[u]):
            fail(f"num_children({u})")
        if tree.depth(u) != rt.depth(u):
            fail(f"depth({u}) = {tree.depth(u)} expected {rt.depth(u)}")
        if tree.branch_length(u) != rt.branch_length(u):
            fail(f"branch_length({u})")
        if tree.time(u) != times[u]:
            fail(f"time({u})")
        if tree.is_leaf(u) != (not rt.children[u]) or tree.is_internal(u) != bool(rt.children[u]):
            fail(f"is_leaf/is_internal({u})")
        if tree.is_isolated(u) != (not rt.children[u] and rt.parent[u] == NULL):
            fail(f"is_isolated({u})")
        if tree.is_sample(u) != bool(fl[u]):
            fail(f"is_sample({u})")
        if tree.is_root(u) != (u in rt.roots(th)):
            fail(f"is_root({u})")
        if sorted(tree.leaves(u)) != rt.leaves_below(u):
            fail(f"leaves({u}) = {sorted(tree.leaves(u))}")
        if sorted(tree.samples(u)) != rt.samples_below(u):
            fail(f"samples({u}) = {sorted(tree.samples(u))}")
        if list(tree.ancestors(u)) != rt.ancestors(u)[1:]:
            fail(f"ancestors({u})")
        sib = set(rt.children[rt.parent[u]]) - {u} if rt.parent[u] != NULL else None
        if sib is None:
            sib = (set(rt.roots(th)) - {u}) if u in rt.roots(th) else set()
        if set(tree.siblings(u)) != sib:
            fail(f"siblings({u}) = {tree.siblings(u)} expected {sib}")
        for v in range(N):
            m = rt.mrca(u, v)
            if tree.mrca(u, v) != m:
                fail(f"mrca({u},{v}) = {tree.mrca(u, v)} expected {m}")
            if tree.is_descendant(u, v) != rt.is_descendant(u, v):
                fail(f"is_descendant({u},{v})")
            if m != NULL:
                if tree.tmrca(u, v) != times[m]:
                    fail(f"tmrca({u},{v})")
                pl = rt.depth(u) + rt.depth(v) - 2 * rt.depth(m)
                if tree.path_length(u, v) != pl:
                    fail(f"path_length({u},{v})")
                if tree.distance_between(u, v) != 2 * times[m] - times[u] - times[v]:
                    fail(f"distance_between({u},{v})")
            else:
                if tree.path_length(u, v) != math.inf:
                    fail(f"path_length({u},{v}) without mrca")
    roots = rt.roots(th)
    reach = rt.nodes_in_tree(th)
    tbl = sum(rt.branch_length(u) for u in reach)
    if abs(tree.total_branch_length - tbl) > 1e-9 * max(1.0, abs(tbl)):
        fail(f"total_branch_length = {tree.total_branch_length} expected {tbl}")
    if tree.num_roots != len(roots) or tree.has_single_root != (len(roots) == 1) \
            or tree.has_multiple_roots != (len(roots) > 1):
        fail("num_roots/has_single_root/has_multiple_roots")
    if len(roots) == 1 and tree.root != roots[0]:
        fail("root")
    if sorted(tree.leaves()) != sorted(v for v in reach if not rt.children[v]):
        fail(f"leaves() = {sorted(tree.leaves())}")
    exp_s = sorted(v for v in reach if fl[v])
    if sorted(tree.samples()) != exp_s:
        fail(f"samples() = {sorted(tree.samples())} expected {exp_s}")
    pd = {u: p for u, p in enumerate(rt.parent) if p != NULL}
    if tree.parent_dict != pd:
        fail("parent_dict")
    # num_lineages on the half-integer time grid (and at node times)
    tset = sorted(set(times))
    grid = set(tset)
    for a, b in zip(tset, tset[1:]):
        grid.add((a + b) / 2)
    if tset:
        grid.add(tset[0] - 1)
        grid.add(tset[-1] + 1)
    S = set(rts.samples)
    live = set()
    for s in S:
        live.update(rt.ancestors(s))
    for t in sorted(grid):
        def nl(nodes):
            return sum(1 for u in nodes if rt.parent[u] != NULL
                       and times[u] <= t < times[rt.parent[u]])
        lo = nl(live)
        hi = nl(reach)
        got = tree.num_lineages(t)
        if not (min(lo, hi) <= got <= max(lo, hi)):
            fail(f"num_lineages({t}) = {got}, expected between {lo} and {hi}")


def check_member(m, mode, acc, deep=True):
    import tskit

    case_base = {"member": m.desc(), "mode": mode}
    acc.enter(case_base)
    tc, ts, site_pos = build_ts(m)
    rts = RefTS(m.times, m.flags, m.edges(), m.L)
    N = m.N
    ivs = rts.intervals()
    rtrees = [rts.tree_at(l) for l, _ in ivs]
    nt = len(ivs)
    nontrivial = bool(m.edges()) and bool(m.samples)
    fails = []

    # tree-sequence level
    if ts.num_trees != nt:
        fails.append(("num_trees", f"num_trees={ts.num_trees} expected {nt}"))
    if list(ts.breakpoints()) != rts.breakpoints() or ts.breakpoints(as_array=True).tolist() != rts.breakpoints():
        fails.append(("breakpoints", f"{list(ts.breakpoints())} expected {rts.breakpoints()}"))
    if ts.num_trees == nt:
        check_edge_diffs(ts, rts, ivs, fails)
        check_edgesets(ts, rts, fails)
    for key, what in fails:
        acc.fail("ts:" + key, what, case_base)
    if ts.num_trees != nt:
        acc.ev(1, nontrivial)
        return
    # tracked_samples naming a node that is not a sample (whatever other flag bits it carries) is refused
    for u in range(N):
        if not m.flags[u]:
            acc.ev(1, nontrivial)
            for how in ("Tree", "trees"):
                try:
                    if how == "Tree":
                        tskit.Tree(ts, tracked_samples=[u])
                    else:
                        next(iter(ts.trees(tracked_samples=[u])), None)
                except (tskit.LibraryError, ValueError):
                    continue
                except Exception as e:  # noqa
                    acc.fail("tracked:nonsample:wrong-error", f"tracked_samples=[{u}] raised {e!r}", case_base)
                    continue
                acc.fail("tracked:nonsample:accepted", f"{how}(tracked_samples=[{u}]) accepted a node that is not a sample "
                         f"(flags {int(tc.nodes.flags[u])})", case_base)
    for oi, (sl, th, tr) in enumerate(option_list(m, mode)):
        kw = dict(sample_lists=sl, root_threshold=th)
        if tr is not None:
            # the tracked-sample list in rotating argument forms (list / strided / reversed views / int64 ...)
            kw["tracked_samples"] = AF.pick(tr, salt=oi)[1]
        case = dict(case_base, options={"sample_lists": sl, "root_threshold": th, "tracked_samples": tr})
        acc.ev(1, nontrivial)

        def fail_path(path, what):
            acc.fail(f"tree:{path}", what, case)

        expected = [ref_snap(rts, rtrees[i], i, ivs[i], th, tr, True, site_pos) for i in range(nt)]

        def cmp(path, i, tree):
            s = snap(tree, N, True)
            if s != expected[i]:
                names = ["parent", "children", "edge", "num_samples", "num_tracked", "interval",
                         "index", "num_edges", "roots", "sites", "sample lists"]
                if len(s) == len(expected[i]):
                    diff = [f"{names[j]}: got {s[j]} expected {expected[i][j]}"
                            for j in range(len(s)) if s[j] != expected[i][j]]
                else:
                    diff = [str(s)]
                fail_path(path, f"tree {i} via {path}: " + "; ".join(diff))
                return False
            return True

        # forward iteration: full checks
        count = 0
        for i, tree in enumerate(ts.trees(**kw)):
            count += 1
            if i >= nt:
                break
            if cmp("trees", i, tree) and deep and oi < 4:
                def f(what, i=i):
                    acc.fail("query:" + what.split("(")[0].split(" ")[0],
                             f"tree {i}: {what}", case)
                # a query that raises where the model defines a value is a failure, not a harness crash
                try:
                    check_queries(tree, rtrees[i], rts, th, tr, f)
                except Exception as e:  # noqa
                    f(f"raised: a tree query raised {e!r}")
                if oi < 2:
                    try:
                        check_traversals(tree, rtrees[i], rts, th, f)
                    except Exception as e:  # noqa
                        f(f"raised: a traversal raised {e!r}")
                if tree.span != ivs[i][1] - ivs[i][0] or tree.mid != ivs[i][0] + (ivs[i][1] - ivs[i][0]) / 2:
                    f("span/mid")
                nm = sum(1 for j, x in enumerate(site_pos) if ivs[i][0] <= x < ivs[i][1] and N > 0)
                if tree.num_sites != len(expected[i][9]) or tree.num_mutations != nm \
                        or [mu.site for mu in tree.mutations()] != [j for j in expected[i][9] if N > 0]:
                    f("num_sites/num_mutations/mutations()")
                # the edge recorded for a mutation is the edge above its node in THIS tree (-1 if the node is a root)
                for mu in tree.mutations():
                    if mu.edge != tree.edge(mu.node):
                        f(f"mutation.edge: mutation {mu.id} on node {mu.node} has edge {mu.edge}, tree.edge gives {tree.edge(mu.node)}")
                        break
        if count != nt:
            fail_path("trees", f"iteration yielded {count} trees expected {nt}")
        # reversed
        count = 0
        for tree in reversed(ts.trees(**kw)):
            i = nt - 1 - count
            count += 1
            if i < 0:
                break
            cmp("reversed", i, tree)
        if count != nt:
            fail_path("reversed", f"reverse iteration yielded {count} trees expected {nt}")
        lst = ts.aslist(**kw)
        if len(lst) != nt:
            fail_path("aslist", "length")
        else:
            for i, tree in enumerate(lst):
                cmp("aslist", i, tree)
        for i in range(nt):
            l, r = ivs[i]
            # (for a one-ulp interval the rounded midpoint is an end point: keep only points inside [l, r))
            for x in sorted({x for x in (l, (l + r) / 2, math.nextafter(r, -math.inf)) if l <= x < r}):
                cmp("at", i, ts.at(x, **kw))
            cmp("at_index", i, ts.at_index(i, **kw))
            cmp("at_index_neg", i, ts.at_index(i - nt, **kw))
        cmp("first", 0, ts.first(**kw))
        cmp("last", nt - 1, ts.last(**kw))
    acc.sample({"member": m.desc(), "num_trees": nt})


def check_edge_diffs(ts, rts, ivs, fails):
    N = rts.N
    edges = rts.edges
    for include_terminal in (False, True):
        for direction in (1, -1):
            try:
                diffs = list(ts.edge_diffs(include_terminal=include_terminal, direction=direction))
            except Exception as e:  # noqa
                fails.append(("edge_diffs", f"raised {e!r}"))
                continue
            exp_n = len(ivs) + (1 if include_terminal else 0)
            if len(diffs) != exp_n:
                fails.append(("edge_diffs", f"{len(diffs)} diffs expected {exp_n} (dir={direction})"))
                continue
            par = [NULL] * N
            order = range(len(ivs)) if direction == 1 else range(len(ivs) - 1, -1, -1)
            for k, i in enumerate(order):
                (l, r), eout, ein = diffs[k]
                if (l, r) != ivs[i]:
                    fails.append(("edge_diffs", f"interval {(l, r)} expected {ivs[i]}"))
                    break
                bad = False
                for e in eout:
                    if par[e.child] != e.parent:
                        bad = True
                    par[e.child] = NULL
                    row = edges[e.id]
                    if (e.left, e.right, e.parent, e.child) != row:
                        bad = True
                    # edge must end here (fwd) / start here (rev)
                    if direction == 1 and e.right != l or direction == -1 and e.left != r:
                        bad = True
                for e in ein:
                    if par[e.child] != NULL:
                        bad = True
                    par[e.child] = e.parent
                    if (e.left, e.right, e.parent, e.child) != edges[e.id]:
                        bad = True
                    if direction == 1 and e.left != l or direction == -1 and e.right != r:
                        bad = True
                if bad or par != rts.parent_map(l):
                    fails.append(("edge_diffs", f"dir={direction} tree {i}: replay gives {par} expected {rts.parent_map(l)}"))
                    break
                # documented orders: in ascending (parent time, parent, child), out the reverse
                tm = rts.times
                to = [(tm[e.parent], e.parent, e.child) for e in eout]
                ti = [(tm[e.parent], e.parent, e.child) for e in ein]
                okord = to == sorted(to, reverse=True) and ti == sorted(ti)
                if not okord:
                    fails.append(("edge_diffs_order", f"dir={direction} tree {i}: out times {to} in times {ti}"))
                    break
            else:
                if include_terminal:
                    (l, r), eout, ein = diffs[-1]
                    if len(ein) != 0 or sorted(e.child for e in eout) != \
                            sorted(c for c in range(N) if par[c] != NULL):
                        fails.append(("edge_diffs", f"terminal diff wrong (dir={direction})"))


def check_edgesets(ts, rts, fails):
    got = set()
    for es in ts.edgesets():
        for c in es.children:
            got.add((es.left, es.right, es.parent, c))
        if list(es.children) != sorted(es.children):
            fails.append(("edgesets", "children not sorted"))
    # expected: per (parent, child) relation over maximal... edgesets group edges with equal (l,r,parent)
    exp = set(rts.edges)
    # compare as coverage relation: for each half-cell position
    def cover(rows):
        out = set()
        pts = rts.breakpoints()
        for l, r, p, c in rows:
            for a, b in zip(pts[:-1], pts[1:]):
                if l <= a and b <= r:
                    out.add((a, p, c))
        return out
    if cover(got) != cover(exp):
        fails.append(("edgesets", f"edgesets cover {sorted(got)} expected rows {sorted(exp)}"))


def run_shard(spec):
    acc = Acc()
    gen = U.enumerate_members(**spec["b"])
    for m in U.shard(gen, spec["k"], spec["n"]):
        check_member(m, spec["opts"], acc)
    return acc.result()


def replay(case):
    acc = Acc()
    m = U.Member.from_desc(case["member"])
    check_member(m, case.get("mode", "full"), acc)
    return acc.failures
