"""C20  map_mutations returns a most-parsimonious placement that reproduces the data.

Exhaustive input-space exploration: every marginal tree of every small-scope universe
member (polytomies, unary chains, several roots, internal / isolated samples, sample-less
branches) x every genotype vector over {missing, a few alleles} for its samples x every
form of the ancestral_state argument (None, each index incl. an unobserved one, each
string).  The result of the real Tree.map_mutations is judged by a reference written from
the documentation: decode with mc/ref/geno.py, minimum number of changes by the Sankoff
dynamic programme in mc/ref/parsimony.py, nearest-mutation parent rule from mc/muts.py."""
import itertools
import math

from .. import universe as U
from ..acc import Acc
from .. import argforms as AF
from ..muts import compute_parents
from ..ref import parsimony as P
from ..ref.geno import site_alleles
from ..ref.trees import NULL, RefTS, RefTree

ID = "C20"
LEVEL = "exploration"
VARIANT = "asan"   # the four heap buffers and the 64-slot stack array are part of what is checked
RULE = ("every universe member (all parent choices per node per cell, all sample-flag subsets) x "
        "every marginal tree x every genotype vector over {missing} + allele symbols for the samples "
        "x every ancestral_state form (None, index, string; observed and unobserved); one evaluation = "
        "one map_mutations call judged by the reference (plus documented-rejection calls, counted "
        "trivial); non-trivial = the call is a valid one whose reference optimum is >= 1 state change "
        "(every (member, tree, vector, ancestral form) tuple is distinct by construction)")
ASSUMPTIONS = [
    "decoding uses the node-state rule of mc/ref/geno.py with isolated_as_missing=False (the "
    "property speaks of the state carried by each sample node)",
    "minimum = Sankoff DP with unit costs over the whole forest, tree tops being children of the "
    "ancestral point; the DP itself is validated against brute-force enumeration of all "
    "assignments on every N<=3 tree in the selftest shard",
    "high-allele mode runs the DP over {0,1,31,32,33,63}: states that are neither observed nor the "
    "fixed ancestral state are interchangeable and never needed by an optimal reconstruction",
    "unary-chain clause as in DESIGN (4): no mutation sits on a node whose tree parent is a "
    "non-sample node with exactly one child",
    "root_threshold > 1 trees are outside the enumerated space",
]

STD_ALLELES = ("A", "C", "TT", "")
STD_STATES = [0, 1, 2, 3]
STD_SYMS = (-1, 0, 1, 2)
STD_ANCS = ("none", "i0", "i1", "i2", "i3", "s0", "s1", "s2", "s3")
HIGH_ALLELES = tuple("x%d" % i for i in range(64))
HIGH_STATES = [0, 1, 31, 32, 33, 63]
HIGH_SYMS_Q = (-1, 0, 32, 63)
HIGH_SYMS_T = (-1, 0, 31, 32, 63)
HIGH_ANCS = ("none", "i63", "i33", "s32", "s0")


def bounds(tier):
    if tier == "quick":
        return {
            "std (alleles A,C,TT + unobserved '', all 9 ancestral forms)":
                "N<=5,G=1 times=id; N<=3,G=2 times=id; N=4,G=1 times=rev; N=3,G=1 all weak orders",
            "high (alleles 0,32,63 of 64; ancestral none/63/33/'x32'/'x0') + documented rejections":
                "N<=4,G=1 times=id",
            "table round trip (docstring recipe through the real loader and variants())": "N<=4,G=1",
        }
    return {
        "std (all 9 ancestral forms)":
            "N<=5,G=1 times=id; N=5,G=1 times=rev; N<=4,G=1 all weak orders; N<=3,G=3 and N=4,G=2 times=id",
        "std reduced ancestral forms (none,i0,i3,s1)": "N=6,G=1 times=id, all flag subsets",
        "high (alleles 0,31,32,63) + documented rejections": "N<=5,G=1 times=id",
        "table round trip": "N<=5,G=1 times=id",
    }


def _split(specs, b, per, **kw):
    """Shards are sets of *structures* (time ranks + parent vectors); a shard runs every
    sample-flag subset of each of its structures, so shards of one group cost about the same.
    per = structures per shard."""
    times = b.get("times", "id")
    cnt = U.count_members(b["N"], b["G"], "id" if times == "rev" else times, flags="none")
    n = max(1, -(-cnt // per))
    for k in range(n):
        specs.append(dict(b=b, k=k, n=n, **kw))


def members_of_shard(b, k, n):
    structs = U.enumerate_members(flags="none", **b)
    for st in U.shard(structs, k, n):
        if b.get("times") == "weak" and st.ranks == tuple(range(st.N)):
            continue  # identity order is enumerated by the times="id" group: keep cases distinct
        for fl in itertools.product((0, 1), repeat=st.N):
            yield U.Member(st.N, st.G, st.ranks, st.parents, fl, st.grid, st.squash, st.timescale)


def shards(tier, seed):
    specs = []
    std = dict(mode="std", ancs=list(STD_ANCS), syms=list(STD_SYMS))
    specs.append(dict(selftest=True))
    if tier == "quick":
        for n in (0, 1, 2, 3):
            _split(specs, dict(N=n, G=1), 100, roundtrip=True, reject=True, **std)
            _split(specs, dict(N=n, G=2), 100, **std)
        _split(specs, dict(N=4, G=1), 2, roundtrip=True, **std)
        _split(specs, dict(N=5, G=1), 1, **std)
        _split(specs, dict(N=4, G=1, times="rev"), 6, **std)
        _split(specs, dict(N=3, G=1, times="weak"), 30, **std)
        high = dict(mode="high", ancs=list(HIGH_ANCS), syms=list(HIGH_SYMS_Q), reject=True)
        for n in (1, 2, 3):
            _split(specs, dict(N=n, G=1), 100, **high)
        _split(specs, dict(N=4, G=1), 6, **high)
    else:
        for n in (0, 1, 2, 3):
            _split(specs, dict(N=n, G=1), 100, roundtrip=True, reject=True, **std)
            _split(specs, dict(N=n, G=2), 100, **std)
            _split(specs, dict(N=n, G=3), 30, **std)
            _split(specs, dict(N=n, G=1, times="weak"), 30, **std)
        _split(specs, dict(N=4, G=1), 2, roundtrip=True, **std)
        _split(specs, dict(N=5, G=1), 1, roundtrip=True, **std)
        _split(specs, dict(N=5, G=1, times="rev"), 2, **std)
        _split(specs, dict(N=4, G=1, times="weak"), 20, **std)
        _split(specs, dict(N=4, G=2), 10, **std)
        _split(specs, dict(N=6, G=1), 3, mode="std", ancs=["none", "i0", "i3", "s1"],
               syms=list(STD_SYMS))
        high = dict(mode="high", ancs=list(HIGH_ANCS), syms=list(HIGH_SYMS_T), reject=True)
        for n in (1, 2, 3):
            _split(specs, dict(N=n, G=1), 100, **high)
        _split(specs, dict(N=4, G=1), 6, **high)
        _split(specs, dict(N=5, G=1), 2, **high)
    return specs


# ---------------------------------------------------------------------------------------
def anc_arg(code, alleles):
    """-> (argument passed to map_mutations, fixed state index or None)"""
    if code == "none":
        return None, None
    k = int(code[1:])
    if code[0] == "i":
        return k, k
    return alleles[k], k


class Ctx:
    """One marginal tree of one member: the real Tree and the reference view of it."""

    def __init__(self, m, ti, reuse=None):
        self.m = m
        self.ti = ti
        self.rts = RefTS(m.times, m.flags, m.edges(), m.L)
        ivs = self.rts.intervals()
        self.num_trees = len(ivs)
        l, r = ivs[ti]
        self.pos = (l + r) / 2
        self.par = self.rts.parent_map(self.pos)
        self.rt = RefTree(self.rts, self.par)
        self.samples = list(m.samples)
        if reuse is not None:
            # the SAME Tree object that answered the queries on the previous marginal tree, moved here by
            # seek_index / seek: anything remembered from the earlier queries must not leak into these
            self.ts = reuse.ts
            self.tree = reuse.tree
            if ti % 2:
                self.tree.seek_index(ti)
            else:
                self.tree.seek(self.pos)
            if self.tree.index != ti:
                raise RuntimeError("harness: seek did not reach the tree (C06 territory)")
            self.tables = None
            return
        tc = m.tables()
        # metadata schemas on the (empty) site / mutation tables, varied over the members: the mutations that
        # map_mutations returns are built outside any table and must not need the schema's cooperation
        import tskit

        k = (m.N + m.G + len(m.edges())) % 3
        if k == 1:
            tc.mutations.metadata_schema = tskit.MetadataSchema(
                {"codec": "struct", "type": "object", "properties": {"x": {"type": "integer", "binaryFormat": "i", "default": 7}}})
            tc.time_units = "uncalibrated"
        elif k == 2:
            tc.mutations.metadata_schema = tskit.MetadataSchema({"codec": "json", "type": "object"})
            tc.sites.metadata_schema = tskit.MetadataSchema({"codec": "json"})
        self.ts = tc.tree_sequence()
        if [int(x) for x in self.ts.samples()] != self.samples or self.ts.num_trees != len(ivs):
            raise RuntimeError("harness: samples()/num_trees differ from the member (C01 territory)")
        self.tree = self.ts.at_index(ti)
        self.tables = None


def judge(ctx, mode, geno, geno_arr, costs, code, roundtrip, acc, case):
    """One valid call; costs = reference minimum per ancestral state for this vector.
    Returns True if the reference optimum is >= 1."""
    m = ctx.m
    alleles = STD_ALLELES if mode == "std" else HIGH_ALLELES
    samples = ctx.samples
    arg, fixed = anc_arg(code, alleles)
    opt = min(costs.values()) if fixed is None else costs[fixed]

    def fail(key, what):
        acc.fail(key, f"{what} | tree parent={ctx.par} samples={samples} genotypes={list(geno)} "
                      f"ancestral_state={arg!r}", case)

    try:
        # argument forms: list / int8 array / int32 array; ancestral_state omitted / None / given
        if code == "none":
            if sum(geno) & 1:
                ret = ctx.tree.map_mutations(list(geno), alleles)
            else:
                ret = ctx.tree.map_mutations(list(geno), list(alleles), ancestral_state=None)
        elif code[0] == "s":
            ret = ctx.tree.map_mutations(geno_arr.astype("int32"), list(alleles), arg)
        else:
            # int8 genotypes in rotating memory layouts (strided / reversed / column views, read-only); an index
            # ancestral state as a Python int or as a numpy integer scalar (what indexing an array gives)
            if isinstance(arg, int) and (sum(geno) + len(geno)) % 2:
                import numpy as np

                arg = (np.int8, np.int64, np.uint32)[len(geno) % 3](arg)
            ret = ctx.tree.map_mutations(AF.reform(geno_arr, sum(geno) + len(geno))[1], alleles, ancestral_state=arg)
        anc_ret, muts = ret
        muts = list(muts)
    except Exception as e:  # noqa
        fail("exception:" + type(e).__name__, f"valid call raised {e!r}")
        return opt >= 1
    # -- shape of the answer
    if not isinstance(anc_ret, str) or anc_ret not in alleles:
        fail("ancestral:not_an_allele", f"returned ancestral state {anc_ret!r}")
        return opt >= 1
    if fixed is not None and anc_ret != alleles[fixed]:
        fail("ancestral:not_as_fixed", f"returned ancestral state {anc_ret!r}, fixed {alleles[fixed]!r}")
        return opt >= 1
    rows = []
    for j, mu in enumerate(muts):
        node, der, par = mu.node, mu.derived_state, mu.parent
        if not (isinstance(node, int) or hasattr(node, "__index__")) or not 0 <= int(node) < m.N:
            fail("mutation:bad_node", f"mutation {j} has node {node!r}")
            return opt >= 1
        if der not in alleles:
            fail("mutation:derived_not_an_allele", f"mutation {j} has derived_state {der!r}")
            return opt >= 1
        if not -1 <= int(par) < len(muts):
            fail("parent:out_of_range", f"mutation {j} has parent {par!r} in a list of {len(muts)}")
            return opt >= 1
        rows.append((int(node), der, int(par)))
    desc = f"returned ({anc_ret!r}, {rows})"
    # -- (1) reproduces the data
    rts = RefTS(m.times, m.flags, ctx.rts.edges, m.L, sites=[(ctx.pos, anc_ret)],
                mutations=[(0, n, d, p, math.nan) for n, d, p in rows])
    dec = site_alleles(rts, 0, samples, isolated_as_missing=False)
    bad = [(u, alleles[g], d) for u, g, d in zip(samples, geno, dec) if g != -1 and alleles[g] != d]
    if bad:
        fail("reproduce:mismatch", f"{desc}: (sample, observed, decoded) = {bad}")
    # -- (2) minimum number of state changes
    if len(rows) != opt:
        internal_missing = any(g == -1 and ctx.rt.children[u] for u, g in zip(samples, geno))
        if len(rows) > opt:
            key = "parsimony:not_minimal"
            if internal_missing:
                key += ":internal_sample_missing"
                acc.count("cases_not_minimal_internal_sample_missing")
            fail(key, f"{desc}: {len(rows)} mutations, minimum is {opt}"
                 + (" (fixed ancestral state)" if fixed is not None else ""))
        elif bad:
            fail("parsimony:fewer_than_possible", f"{desc}: {len(rows)} mutations, minimum is {opt}")
        else:
            raise AssertionError(f"reference DP wrong? {desc} reproduces data with {len(rows)} < {opt}: "
                                 f"{case}")
    # -- (3) order and parent links
    exp = compute_parents(ctx.par, [(n, d) for n, d, _ in rows])
    for j, (n, d, p) in enumerate(rows):
        if exp[j] >= j:
            fail("order:parent_after_child",
                 f"{desc}: mutation {j} lies below mutation {exp[j]} which is listed later")
            break
        if p != exp[j]:
            fail("parent:wrong_link", f"{desc}: mutation {j} has parent {p}, nearest mutation above is {exp[j]}")
            break
    # -- (4) oldest node of a unary chain
    for j, (n, d, p) in enumerate(rows):
        q = ctx.par[n]
        if q != NULL and not m.flags[q] and len(ctx.rt.children[q]) == 1:
            fail("unary:not_oldest_node",
                 f"{desc}: mutation {j} on node {n} whose parent {q} is a non-sample unary node")
            break
    # -- supplementary: the docstring recipe through the real loader and variants()
    if roundtrip:
        round_trip(ctx, alleles, geno, anc_ret, muts, fail, desc)
    return opt >= 1


def round_trip(ctx, alleles, geno, anc_ret, muts, fail, desc):
    import tskit

    if ctx.tables is None:
        ctx.tables = ctx.ts.dump_tables()
    tables = ctx.tables
    tables.sites.clear()
    tables.mutations.clear()
    try:
        site_id = tables.sites.add_row(ctx.pos, anc_ret)
        mut_id_map = {tskit.NULL: tskit.NULL}
        for list_id, mutation in enumerate(muts):
            mut_id_map[list_id] = tables.mutations.append(
                mutation.replace(site=site_id, parent=mut_id_map[mutation.parent]))
    except Exception as e:  # noqa
        fail("roundtrip:recipe_failed", f"{desc}: docstring recipe raised {e!r}")
        return
    try:
        tables.sort()
        new_ts = tables.tree_sequence()
    except Exception as e:  # noqa
        fail("roundtrip:tables_rejected", f"{desc}: tree_sequence() raised {e!r}")
        return
    var = next(new_ts.variants(isolated_as_missing=False))
    got = [var.alleles[g] for g in var.genotypes.tolist()]
    bad = [(u, alleles[g], d) for u, g, d in zip(ctx.samples, geno, got) if g != -1 and alleles[g] != d]
    if bad:
        fail("roundtrip:genotypes_differ", f"{desc}: (sample, observed, variants()) = {bad}")


def must_reject(ctx, acc, case, name, geno, alleles, **kw):
    acc.ev(1, False)
    try:
        ret = ctx.tree.map_mutations(geno, alleles, **kw)
    except Exception:  # noqa
        return
    acc.fail("reject:" + name, f"call accepted and returned {ret!r} | genotypes={geno} kw={kw} "
                               f"num_alleles={len(alleles)}", dict(case, reject=name))


def rejections(ctx, acc, case, only=None):
    k = len(ctx.samples)
    a65 = [str(i) for i in range(65)]
    tests = {
        "all_missing": ([-1] * k, list(STD_ALLELES), {}),
        "ancestral_eq_num_alleles": ([0] * k, list(STD_ALLELES), dict(ancestral_state=4)),
        "ancestral_negative": ([0] * k, list(STD_ALLELES), dict(ancestral_state=-1)),
        "ancestral_string_unknown": ([0] * k, list(STD_ALLELES), dict(ancestral_state="nope")),
    }
    if k >= 1:
        tests["allele_64"] = ([64] + [0] * (k - 1), a65, {})
        tests["allele_64_last"] = ([0] * (k - 1) + [64], a65, {})
        tests["ancestral_64"] = ([0] * k, a65, dict(ancestral_state=64))
        tests["ancestral_64_string"] = ([0] * k, a65, dict(ancestral_state="64"))
    for name, (geno, alleles, kw) in tests.items():
        if only is None or only == name:
            must_reject(ctx, acc, case, name, geno, alleles, **kw)


def check_member(m, spec, acc, only_tree=None, only_geno=None, only_anc=None, only_reject=None):
    mode = spec.get("mode", "std")
    ancs = spec.get("ancs") or (STD_ANCS if mode == "std" else HIGH_ANCS)
    syms = spec.get("syms") or (STD_SYMS if mode == "std" else HIGH_SYMS_Q)
    roundtrip = bool(spec.get("roundtrip"))
    base = {"member": m.desc(), "mode": mode, "ancs": list(ancs), "syms": list(syms),
            "roundtrip": roundtrip, "do_reject": bool(spec.get("reject"))}
    acc.enter(base)
    import numpy as np

    states = STD_STATES if mode == "std" else HIGH_STATES
    ctx0 = Ctx(m, 0)
    k = len(ctx0.samples)
    sampled = False
    for ti in range(ctx0.num_trees):
        if only_tree is not None and ti != only_tree:
            continue
        ctx = ctx0 if ti == 0 else Ctx(m, ti, reuse=ctx0 if only_tree is None else None)
        tcase = dict(base, tree=ti)
        if (spec.get("reject") and only_geno is None) or only_reject:
            rejections(ctx, acc, tcase, only_reject)
        if only_reject:
            continue
        if k == 0:
            continue
        genos = [tuple(only_geno)] if only_geno is not None else itertools.product(syms, repeat=k)
        for geno in genos:
            if all(g == -1 for g in geno):
                continue
            gcase = dict(tcase, geno=list(geno))
            acc.enter(gcase)
            obs = {u: g for u, g in zip(ctx.samples, geno) if g != -1}
            costs = P.root_costs(ctx.par, obs, states)
            geno_arr = np.array(geno, dtype=np.int8)
            for code in ancs:
                if only_anc is not None and code != only_anc:
                    continue
                case = dict(gcase, anc=code)
                nt = judge(ctx, mode, geno, geno_arr, costs, code, roundtrip, acc, case)
                acc.ev(1, nt)
                if nt and not sampled and len(set(geno)) > 2:
                    sampled = True
                    acc.sample({"member": m.desc(), "tree": ti, "geno": list(geno), "anc": code})


def selftest(acc):
    """The reference DP against brute force over all assignments, every N<=3 single tree,
    every vector over {missing,0,1,2}; free and fixed ancestral state (incl. unobserved 3)."""
    n = 0
    for N in (1, 2, 3):
        for m in U.enumerate_members(N, 1):
            if not m.samples:
                continue
            rts = RefTS(m.times, m.flags, m.edges(), m.L)
            par = rts.parent_map(0.5)
            for geno in itertools.product(STD_SYMS, repeat=len(m.samples)):
                obs = {u: g for u, g in zip(m.samples, geno) if g != -1}
                a = P.root_costs(par, obs, STD_STATES)
                b = P.brute_root_costs(par, obs, STD_STATES)
                if a != b:
                    raise AssertionError(f"reference DP {a} != brute force {b} on {m.desc()} {geno}")
                n += 1
    acc.count("dp_selftest_cases", n)


def run_shard(spec):
    acc = Acc()
    if spec.get("selftest"):
        selftest(acc)
        return acc.result()
    for m in members_of_shard(spec["b"], spec["k"], spec["n"]):
        check_member(m, spec, acc)
    return acc.result()


def replay(case):
    acc = Acc()
    m = U.Member.from_desc(case["member"])
    spec = {"mode": case.get("mode", "std"), "ancs": case.get("ancs"), "syms": case.get("syms"),
            "roundtrip": case.get("roundtrip", False), "reject": case.get("do_reject", False)}
    check_member(m, spec, acc, only_tree=case.get("tree"), only_geno=case.get("geno"),
                 only_anc=case.get("anc"), only_reject=case.get("reject"))
    return acc.failures
