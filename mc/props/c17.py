"""C17  Text table dumps reload to the same tree sequence.

Exhaustive input-space exploration: table collections written down as plain Python row
lists (universe members decorated with populations / individuals / migrations / sites /
mutations / binary metadata, plus exhaustive products over small row alphabets for
mutations, individuals, node references and migrations) are built, dumped with
TreeSequence.dump_text(precision sufficient, base64 metadata), optionally re-laid-out
(column permutations, optional columns dropped, unknown column added, rows reversed) and
re-read with tskit.load_text / tskit.parse_* (strict tab mode); the result is compared
column by column with the original rows (in TableCollection.sort() order)."""
import io
import itertools
import struct

from .. import muts as MU
from .. import universe as U
from ..acc import Acc
from ..ref.trees import NULL, RefTS

ID = "C17"
LEVEL = "exploration"
VARIANT = "plain"
RULE = ("(a) every universe member, decorated deterministically (rotation = member index) with 2 "
        "populations, 3 individuals (ragged location/parents, flags), 2 migrations, a site on every "
        "grid point and cell midpoint (states '', 'A', 'AA'; known and unknown mutation times; a "
        "two-mutation site with a mutation parent) and metadata from {b'', b'a', b'\\t\\n\\x00\\xff'} "
        "on every table, x config list (precision in {least sufficient, 6, 17}, sequence_length "
        "given|inferred, edge rows reversed, site rows reversed with mutation.site remapped, "
        "populations file omitted); (b) every placement of <=2 sites x <=2..3 mutations "
        "(node x state) x ancestral state x known|unknown times on tiny trees; (c) every "
        "individual table of <=2 rows over flags x location x parents x metadata; (d) every "
        "assignment of (flags, population, individual, metadata) to two nodes and every population "
        "metadata vector; (e) every valid migration table of <=2 rows over interval x node x "
        "(source,dest) x time x metadata; (f) for each text table of a content set, EVERY column "
        "layout (every subset of optional/ignored columns and an unknown column, every permutation) "
        "through tskit.parse_*, and a reduced layout set through load_text.  Non-trivial = the "
        "collection has >=1 node and >=1 row in another table (round trips) / the table has >=1 row "
        "and the layout differs from the one dump_text wrote (layouts); all cases are distinct "
        "codes by construction")
ASSUMPTIONS = [
    "expected rows are those of a copy of the original tables after TableCollection.sort() "
    "(as the load_text documentation states); by construction sort() is the identity on almost all "
    "inputs (counter sort_identity) and the built tables are checked against the Python rows",
    "only the node sample flag is carried by the text format (documented): other node flag bits "
    "are expected to be dropped",
    "precision: least p <= 17 with float('%.pf' % v) == v for all node times, edge and site "
    "coordinates, computed without tskit",
]

MD = [b"", b"a", b"\t\n\x00\xff"]
STATES = ["", "A", "AA"]
NAMES = ["nodes", "edges", "sites", "mutations", "individuals", "populations", "migrations"]

GRIDS = {
    "int": [0.0, 1.0, 2.0, 3.0, 4.0],
    "frac": [0.0, 0.5, 2.25, 2.5, 4.0],
    "tenth": [0.0, 0.1, 0.7, 1.3, 2.9],
}
TSCALES = {
    "int": lambda r: float(r),
    "quarter": lambda r: r / 4.0,
    "tenth": lambda r: r * 0.1,
    "big": lambda r: r * 1e6 - 5e5,
}

# ---------------------------------------------------------------------------------------
# text table description (docs/file-formats.md): dump column order, mandatory columns,
# optional columns with their documented defaults, columns that are ignored on input
UNKNOWN = None  # mutation time "unknown" in specs / snapshots is None

TABLES = {
    "nodes": dict(dump=["id", "is_sample", "time", "population", "individual", "metadata"],
                  mand=["is_sample", "time"],
                  opt={"population": -1, "individual": -1, "metadata": b""}, ign=["id"]),
    "edges": dict(dump=["left", "right", "parent", "child", "metadata"],
                  mand=["left", "right", "parent", "child"], opt={"metadata": b""}, ign=[]),
    "sites": dict(dump=["position", "ancestral_state", "metadata"],
                  mand=["position", "ancestral_state"], opt={"metadata": b""}, ign=[]),
    "mutations": dict(dump=["site", "node", "time", "derived_state", "parent", "metadata"],
                      mand=["site", "node", "derived_state"],
                      opt={"time": UNKNOWN, "parent": -1, "metadata": b""}, ign=[]),
    "individuals": dict(dump=["id", "flags", "location", "parents", "metadata"],
                        mand=["flags"], opt={"location": (), "parents": (), "metadata": b""},
                        ign=["id"]),
    "populations": dict(dump=["id", "metadata"], mand=["metadata"], opt={}, ign=["id"]),
    "migrations": dict(dump=["left", "right", "node", "source", "dest", "time", "metadata"],
                       mand=["left", "right", "node", "source", "dest", "time"],
                       opt={"metadata": b""}, ign=[]),
}
# snapshot column names per table (same names as the text columns where they exist)
SNAPCOLS = {
    "nodes": ["is_sample", "time", "population", "individual", "metadata"],
    "edges": ["left", "right", "parent", "child", "metadata"],
    "sites": ["position", "ancestral_state", "metadata"],
    "mutations": ["site", "node", "time", "derived_state", "parent", "metadata"],
    "individuals": ["flags", "location", "parents", "metadata"],
    "populations": ["metadata"],
    "migrations": ["left", "right", "node", "source", "dest", "time", "metadata"],
}
JUNK = "zzz"


# ---------------------------------------------------------------------------------------
# specs: a table collection as plain JSON-able Python rows
#   nodes       [flags, time, population, individual, md]
#   edges       [left, right, parent, child, md]
#   sites       [position, ancestral_state, md]
#   mutations   [site, node, derived_state, parent, time|None, md]
#   individuals [flags, [location], [parents], md]
#   populations [md]
#   migrations  [left, right, node, source, dest, time, md]
# md is an index into MD.

def empty_spec(L):
    return {"L": L, "nodes": [], "edges": [], "sites": [], "mutations": [],
            "individuals": [], "populations": [], "migrations": []}


def member_base(m, grid="int", tscale="int"):
    """Nodes and edges of a universe member (m must use the default int grid / int times)
    on a private coordinate grid / time scale; returns (spec, coords, times)."""
    c = GRIDS[grid][: m.G + 1]
    f = TSCALES[tscale]
    times = [f(r) for r in m.ranks]
    spec = empty_spec(c[-1])
    for u in range(m.N):
        spec["nodes"].append([1 if m.flags[u] else 0, times[u], -1, -1, 0])
    for l, r, p, ch in m.edges():
        spec["edges"].append([c[int(l)], c[int(r)], p, ch, 0])
    return spec, c, times


def spec_rts(spec):
    return RefTS([n[1] for n in spec["nodes"]], [n[0] & 1 for n in spec["nodes"]],
                 [tuple(e[:4]) for e in spec["edges"]], spec["L"])


def site_rows(spec, placement, mode, rot):
    """Append sites/mutations for placement [(pos, anc, [(node, state), ...]), ...] in a
    valid order with reference parents (same rule as mc.muts.add_sites)."""
    rts = spec_rts(spec)
    times = rts.times
    for pos, anc, ml in sorted(placement, key=lambda s: s[0]):
        par = rts.parent_map(pos)
        ml = list(ml)
        tms = None
        if mode == "known":
            tms = MU.known_times(times, par, ml)
            order = sorted(range(len(ml)), key=lambda j: -tms[j])
            ml = [ml[j] for j in order]
            tms = [tms[j] for j in order]
        else:
            order = sorted(range(len(ml)), key=lambda j: MU.depth_in(par, ml[j][0]))
            ml = [ml[j] for j in order]
        parents = MU.compute_parents(par, ml)
        s = len(spec["sites"])
        spec["sites"].append([pos, anc, (s + 2 * rot) % 3])
        base = len(spec["mutations"])
        for j, (u, st) in enumerate(ml):
            spec["mutations"].append([
                s, u, st, (base + parents[j]) if parents[j] >= 0 else -1,
                None if tms is None else tms[j], (base + j + rot) % 3])


def decorate(m, grid, tscale, rot):
    """The fully decorated spec of family (a)."""
    spec, c, times = member_base(m, grid, tscale)
    N, G = m.N, m.G
    spec["populations"] = [rot % 3, (rot + 1) % 3]
    spec["individuals"] = [
        [0, [], [], rot % 3],
        [5, [0.5, 1.25], [2, -1], (rot + 1) % 3],
        [4294967295, [0.1, -2.5e-07, 1e300], [0], (rot + 2) % 3],
    ]
    for u in range(N):
        n = spec["nodes"][u]
        n[0] |= 2 if (u + rot) % 2 else 0
        n[2] = (u + rot) % 3 - 1
        n[3] = (u + 2 * rot) % 4 - 1
        n[4] = (2 * u + rot) % 3
    for j, e in enumerate(spec["edges"]):
        e[4] = (j + rot) % 3
    placement = []
    pos = []
    for i in range(G):
        pos.append(c[i])
        pos.append((c[i] + c[i + 1]) / 2)
    for k, x in enumerate(pos):
        ml = []
        if N > 0:
            u = k % N
            ml.append((u, STATES[(k + rot + 1) % 3]))
            if k == 0:
                ml.append((u, STATES[(k + rot + 2) % 3]))
        placement.append((x, STATES[(k + rot) % 3], ml))
    # known / unknown alternate by site: add site by site
    for k, pl in enumerate(placement):
        site_rows(spec, [pl], "known" if (k + rot) % 2 == 0 else "unknown", rot)
    if N > 0:
        mig = [
            [c[0], c[1], 0, 0, 1, times[0] + 0.125, rot % 3],
            [c[G - 1], c[G], N - 1, 1, 0, times[N - 1] + 0.75, (rot + 1) % 3],
        ]
        mig.sort(key=lambda r: (r[5], r[3], r[4], r[0], r[2]))
        spec["migrations"] = mig
    return spec


# ---------------------------------------------------------------------------------------
# tskit side: build, snapshot

def build(spec):
    import tskit

    tc = tskit.TableCollection(spec["L"])
    for md in spec["populations"]:
        tc.populations.add_row(metadata=MD[md])
    for fl, loc, par, md in spec["individuals"]:
        tc.individuals.add_row(flags=fl, location=loc, parents=par, metadata=MD[md])
    for fl, t, pop, ind, md in spec["nodes"]:
        tc.nodes.add_row(flags=fl, time=t, population=pop, individual=ind, metadata=MD[md])
    for l, r, p, c, md in spec["edges"]:
        tc.edges.add_row(l, r, p, c, metadata=MD[md])
    for x, anc, md in spec["sites"]:
        tc.sites.add_row(x, anc, metadata=MD[md])
    for s, u, st, par, t, md in spec["mutations"]:
        tc.mutations.add_row(site=s, node=u, derived_state=st, parent=par,
                             time=tskit.UNKNOWN_TIME if t is None else t, metadata=MD[md])
    for l, r, u, a, b, t, md in spec["migrations"]:
        tc.migrations.add_row(l, r, u, a, b, t, metadata=MD[md])
    return tc


_UNKNOWN_BITS = bytes.fromhex("7ff874736b697421")  # TSK_UNKNOWN_TIME_HEX (c/tskit/core.h)


def _ftime(x):
    """None for tskit.UNKNOWN_TIME (exact bit pattern), a tagged string for any other NaN."""
    if x == x:
        return x
    b = struct.pack(">d", x)
    if b == _UNKNOWN_BITS:
        return None
    return "nan:" + b.hex()


def _rag_bytes(col, off):
    b = col.tobytes()
    o = off.tolist()
    return [b[o[i]:o[i + 1]] for i in range(len(o) - 1)]


def _rag_str(col, off):
    return [x.decode("utf8") for x in _rag_bytes(col, off)]


def _rag_list(col, off):
    v = col.tolist()
    o = off.tolist()
    return [tuple(v[o[i]:o[i + 1]]) for i in range(len(o) - 1)]


def snap_table(name, t, mask_flags=False):
    """dict column -> list of Python values."""
    if name == "nodes":
        fl = t.flags.tolist()
        return {"is_sample": [f & 1 for f in fl] if mask_flags else fl,
                "time": t.time.tolist(), "population": t.population.tolist(),
                "individual": t.individual.tolist(),
                "metadata": _rag_bytes(t.metadata, t.metadata_offset)}
    if name == "edges":
        return {"left": t.left.tolist(), "right": t.right.tolist(), "parent": t.parent.tolist(),
                "child": t.child.tolist(), "metadata": _rag_bytes(t.metadata, t.metadata_offset)}
    if name == "sites":
        return {"position": t.position.tolist(),
                "ancestral_state": _rag_str(t.ancestral_state, t.ancestral_state_offset),
                "metadata": _rag_bytes(t.metadata, t.metadata_offset)}
    if name == "mutations":
        return {"site": t.site.tolist(), "node": t.node.tolist(),
                "time": [_ftime(x) for x in t.time.tolist()],
                "derived_state": _rag_str(t.derived_state, t.derived_state_offset),
                "parent": t.parent.tolist(),
                "metadata": _rag_bytes(t.metadata, t.metadata_offset)}
    if name == "individuals":
        return {"flags": t.flags.tolist(), "location": _rag_list(t.location, t.location_offset),
                "parents": _rag_list(t.parents, t.parents_offset),
                "metadata": _rag_bytes(t.metadata, t.metadata_offset)}
    if name == "populations":
        return {"metadata": _rag_bytes(t.metadata, t.metadata_offset)}
    if name == "migrations":
        return {"left": t.left.tolist(), "right": t.right.tolist(), "node": t.node.tolist(),
                "source": t.source.tolist(), "dest": t.dest.tolist(), "time": t.time.tolist(),
                "metadata": _rag_bytes(t.metadata, t.metadata_offset)}
    raise KeyError(name)


def snap(tc, mask_flags=False):
    return {n: snap_table(n, getattr(tc, n), mask_flags) for n in NAMES}


def spec_snap(spec):
    """The same shape as snap(), straight from the Python rows (no tskit)."""
    def cols(rows, k):
        return [list(x) for x in zip(*rows)] if rows else [[] for _ in range(k)]
    fl, tm, pop, ind, md = cols(spec["nodes"], 5)
    out = {"nodes": {"is_sample": fl, "time": tm, "population": pop, "individual": ind,
                     "metadata": [MD[i] for i in md]}}
    l, r, p, c, md = cols(spec["edges"], 5)
    out["edges"] = {"left": l, "right": r, "parent": p, "child": c,
                    "metadata": [MD[i] for i in md]}
    x, a, md = cols(spec["sites"], 3)
    out["sites"] = {"position": x, "ancestral_state": a, "metadata": [MD[i] for i in md]}
    s, u, st, par, t, md = cols(spec["mutations"], 6)
    out["mutations"] = {"site": s, "node": u, "time": t, "derived_state": st, "parent": par,
                        "metadata": [MD[i] for i in md]}
    fl, loc, par, md = cols(spec["individuals"], 4)
    out["individuals"] = {"flags": fl, "location": [tuple(float(v) for v in q) for q in loc],
                          "parents": [tuple(q) for q in par], "metadata": [MD[i] for i in md]}
    out["populations"] = {"metadata": [MD[i] for i in spec["populations"]]}
    l, r, u, a, b, t, md = cols(spec["migrations"], 7)
    out["migrations"] = {"left": l, "right": r, "node": u, "source": a, "dest": b, "time": t,
                         "metadata": [MD[i] for i in md]}
    return out


def suff_precision(spec):
    vals = set()
    for n in spec["nodes"]:
        vals.add(n[1])
    for e in spec["edges"]:
        vals.add(e[0])
        vals.add(e[1])
    for s in spec["sites"]:
        vals.add(s[0])
    for p in range(18):
        if all(float("%.*f" % (p, v)) == v for v in vals):
            return p
    return None


def dump_texts(ts, precision):
    bufs = {n: io.StringIO() for n in NAMES}
    ts.dump_text(precision=precision, base64_metadata=True, **bufs)
    return {n: b.getvalue() for n, b in bufs.items()}


def split_text(text):
    """(header tokens, list of row token lists) of a strict tab-delimited dump."""
    lines = text.split("\n")
    assert lines[-1] == ""
    return lines[0].split("\t"), [ln.split("\t") for ln in lines[1:-1]]


def join_text(header, rows):
    return "".join("\t".join(r) + "\n" for r in [header] + rows)


# ---------------------------------------------------------------------------------------
# comparison

def compare(acc, prefix, got, exp, case, tables=NAMES):
    bad = False
    for name in tables:
        g, e = got[name], exp[name]
        for col in SNAPCOLS[name]:
            if col not in e:
                continue
            gv, ev = g[col], e[col]
            if gv == ev:
                continue
            bad = True
            if len(gv) != len(ev):
                acc.fail(f"{prefix}:{name}:num_rows",
                         f"{name} has {len(gv)} rows, expected {len(ev)} (column {col})", case)
                break
            j = next(i for i in range(len(ev)) if gv[i] != ev[i])
            key = f"{prefix}:{name}:{col}"
            if name == "edges" and col == "metadata" and not any(gv):
                key = f"{prefix}:edge_metadata_lost"
            acc.fail(key, f"{name}.{col}: row {j} is {gv[j]!r}, expected {ev[j]!r}; "
                          f"column {gv!r} expected {ev!r}", case)
    return bad


class Prepared:
    """Per spec: original tables, tree sequence, expected (sorted) snapshot."""

    def __init__(self, spec, acc, case):
        self.ok = False
        self.spec = spec
        tc = build(spec)
        try:
            self.ts = tc.tree_sequence()
        except Exception as e:  # the generator produced something invalid: harness bug
            self.err = repr(e)
            acc.fail("harness:invalid_spec", f"generated tables are not a tree sequence: {e!r}",
                     case)
            return
        self.tc = tc
        orig = snap(tc)
        if orig != spec_snap(spec):
            self.err = "build mismatch"
            acc.fail("harness:build_mismatch", "tables built by add_row differ from the Python rows",
                     case)
            return
        self.orig_masked = snap(tc, mask_flags=True)
        cp = tc.copy()
        cp.sort()
        if cp.equals(tc, ignore_provenance=True):
            acc.count("sort_identity")
            self.expected = self.orig_masked
        else:
            acc.count("sort_permutes")
            self.expected = snap(cp, mask_flags=True)
        self.suff = suff_precision(spec)
        self.texts = {}
        self.ok = True

    def text(self, precision):
        if precision not in self.texts:
            self.texts[precision] = dump_texts(self.ts, precision)
        return self.texts[precision]


def nontrivial_spec(spec):
    return bool(spec["nodes"]) and any(spec[k] for k in NAMES if k != "nodes")


def load(texts, L, **kw):
    import tskit

    files = {n: (io.StringIO(t) if t is not None else None) for n, t in texts.items()}
    return tskit.load_text(sequence_length=L, strict=True, base64_metadata=True, **files, **kw)


def cfg_applicable(spec, cfg):
    if cfg.get("seqlen") == "infer":
        if not spec["edges"] or max(e[1] for e in spec["edges"]) != spec["L"]:
            return False
    if cfg.get("rows") == "edges_rev" and len(spec["edges"]) < 2:
        return False
    if cfg.get("rows") == "sites_rev" and len(spec["sites"]) < 2:
        return False
    return True


def resolve_precision(prep, p):
    if p == "suff":
        return prep.suff
    if prep.suff is None or p < prep.suff:
        return None
    return p


def check_rt(prep, cfg, acc):
    """One full dump_text -> (row transform) -> load_text round trip."""
    spec = prep.spec
    case = {"kind": "rt", "spec": spec, "cfg": cfg}
    p = resolve_precision(prep, cfg.get("precision", "suff"))
    if p is None or not cfg_applicable(spec, cfg):
        return
    acc.ev(1, nontrivial_spec(spec))
    try:
        texts = dict(prep.text(p))
    except Exception as e:  # noqa
        acc.fail("rt:dump_raises", f"dump_text(precision={p}) raised {e!r}", case)
        return
    expected = prep.expected
    rows = cfg.get("rows", "asis")
    if rows == "edges_rev":
        h, r = split_text(texts["edges"])
        texts["edges"] = join_text(h, r[::-1])
    elif rows == "sites_rev":
        h, r = split_text(texts["sites"])
        ns = len(r)
        texts["sites"] = join_text(h, r[::-1])
        h, r = split_text(texts["mutations"])
        si = h.index("site")
        for row in r:
            row[si] = str(ns - 1 - int(row[si]))
        texts["mutations"] = join_text(h, r)
    if cfg.get("pops") == "backfill":
        maxpop = max([n[2] for n in spec["nodes"]], default=-1)
        texts["populations"] = None
        expected = dict(expected)
        expected["populations"] = {"metadata": [b""] * (maxpop + 1)}
        if any(r[3] > maxpop or r[4] > maxpop for r in spec["migrations"]):
            texts["migrations"] = None
            expected["migrations"] = {c: [] for c in SNAPCOLS["migrations"]}
    L = 0 if cfg.get("seqlen") == "infer" else spec["L"]
    try:
        ts2 = load(texts, L)
    except Exception as e:  # noqa
        acc.fail(f"rt:load_raises:{type(e).__name__}", f"load_text raised {e!r}", case)
        return
    if ts2.sequence_length != spec["L"]:
        acc.fail("rt:sequence_length", f"{ts2.sequence_length} expected {spec['L']}", case)
    got = snap(ts2.tables)
    compare(acc, "rt", got, expected, case)
    if ts2.num_trees != prep.ts.num_trees or ts2.num_samples != prep.ts.num_samples:
        acc.fail("rt:num_trees", f"{ts2.num_trees} trees / {ts2.num_samples} samples, expected "
                 f"{prep.ts.num_trees} / {prep.ts.num_samples}", case)


# ---------------------------------------------------------------------------------------
# column layouts

def all_layouts(name):
    d = TABLES[name]
    extra = list(d["opt"]) + d["ign"] + [JUNK]
    for k in range(len(extra) + 1):
        for sub in itertools.combinations(extra, k):
            yield from itertools.permutations(d["mand"] + list(sub))


def count_layouts(name):
    import math
    d = TABLES[name]
    ne = len(d["opt"]) + len(d["ign"]) + 1
    nm = len(d["mand"])
    return sum(math.comb(ne, k) * math.factorial(nm + k) for k in range(ne + 1))


def reduced_layouts(name):
    d = TABLES[name]
    extra = list(d["opt"]) + d["ign"] + [JUNK]
    dump = d["dump"]
    for k in range(len(extra) + 1):
        for sub in itertools.combinations(extra, k):
            cols = [c for c in dump if c in d["mand"] or c in sub]
            if JUNK in sub:
                cols = [JUNK] + cols
            seen = []
            for lay in (cols, cols[::-1], cols[1:] + cols[:1]):
                if lay not in seen:
                    seen.append(lay)
                    yield tuple(lay)


def layout_text(header, rows, layout):
    idx = []
    for c in layout:
        idx.append(-1 if c == JUNK else header.index(c))
    out = ["\t".join(layout)]
    for r in rows:
        out.append("\t".join("zz" if i < 0 else r[i] for i in idx))
    out.append("")
    return "\n".join(out)


def with_defaults(name, exp_table, layout):
    d = TABLES[name]
    out = dict(exp_table)
    n = len(next(iter(exp_table.values())))
    for col, dflt in d["opt"].items():
        if col not in layout:
            out[col] = [dflt] * n
    return out


def parser(name):
    import tskit

    f = getattr(tskit, "parse_" + name)
    if name == "edges":
        return lambda src: f(src, strict=True)
    return lambda src: f(src, strict=True, base64_metadata=True)


def check_parse_layouts(prep, name, layouts, acc, precision="suff"):
    """parse_<name> on the dumped text re-laid-out in each layout."""
    spec = prep.spec
    p = resolve_precision(prep, precision)
    if p is None:
        return
    header, rows = split_text(prep.text(p)[name])
    exp0 = prep.orig_masked[name]
    parse = parser(name)
    dump_layout = tuple(TABLES[name]["dump"])
    nrows = len(rows)
    acc.enter({"kind": "parse", "spec": spec, "table": name, "precision": precision})
    for layout in layouts:
        layout = tuple(layout)
        case = {"kind": "parse", "spec": spec, "table": name, "layout": list(layout),
                "precision": precision}
        acc.ev(1, nrows > 0 and layout != dump_layout)
        text = layout_text(header, rows, layout)
        try:
            t = parse(io.StringIO(text))
        except Exception as e:  # noqa
            acc.fail(f"parse:{name}:raises:{type(e).__name__}",
                     f"parse_{name} raised {e!r} on layout {layout}", case)
            continue
        got = snap_table(name, t)
        exp = with_defaults(name, exp0, layout)
        if got != exp:
            compare(acc, "parse", {name: got}, {name: exp}, case, tables=[name])


def check_load_layout(prep, name, layout, acc, precision="suff"):
    """load_text with table `name` re-laid-out, every other file as dumped."""
    spec = prep.spec
    layout = tuple(layout)
    p = resolve_precision(prep, precision)
    if p is None:
        return
    if name == "mutations" and "parent" not in layout and \
            any(mu[3] != -1 for mu in spec["mutations"]):
        return  # documented: parent must be given when a site has several mutations
    case = {"kind": "ltl", "spec": spec, "table": name, "layout": list(layout),
            "precision": precision}
    texts = dict(prep.text(p))
    header, rows = split_text(texts[name])
    acc.ev(1, len(rows) > 0 and layout != tuple(TABLES[name]["dump"]))
    texts[name] = layout_text(header, rows, layout)
    expected = dict(prep.expected)
    expected[name] = with_defaults(name, expected[name], layout)
    try:
        ts2 = load(texts, spec["L"])
    except Exception as e:  # noqa
        acc.fail(f"ltl:{name}:raises:{type(e).__name__}",
                 f"load_text raised {e!r} with {name} layout {layout}", case)
        return
    compare(acc, "ltl", snap(ts2.tables), expected, case)


# ---------------------------------------------------------------------------------------
# families (generators of (spec, [cfg, ...]))

CFG_BASE = [
    {"precision": "suff"}, {"precision": 6}, {"precision": 17},
    {"precision": "suff", "seqlen": "infer"},
    {"precision": "suff", "rows": "edges_rev"},
    {"precision": "suff", "rows": "sites_rev"},
    {"precision": "suff", "pops": "backfill"},
    {"precision": 17, "seqlen": "infer", "rows": "edges_rev", "pops": "backfill"},
]
CFG_FULL = [
    {"precision": p, "seqlen": s, "rows": r, "pops": q}
    for p in ("suff", 6, 17) for s in ("given", "infer")
    for r in ("asis", "edges_rev", "sites_rev") for q in ("file", "backfill")
]
CFG_ONE = [{"precision": "suff"}]
CFG_SITES = [{"precision": "suff"}, {"precision": "suff", "rows": "sites_rev"}]
CFG_POPS = [{"precision": "suff"}, {"precision": "suff", "pops": "backfill"}]


FLAGS3 = [(1, 1, 1, 1, 1), (1, 0, 1, 0, 1), (0, 1, 0, 0, 0)]


def _flags3(N, ranks, cells):
    return [f[:N] for f in FLAGS3]


def _mine(i, k, n):
    return n <= 1 or i % n == k


def gen_trees(b, grid, tscale, cfgs, k=0, n=1):
    b = dict(b)
    if b.get("flags") == "three":
        b["flags"] = _flags3
    for i, m in enumerate(U.enumerate_members(**b)):
        if _mine(i, k, n):
            yield decorate(m, grid, tscale, i), cfgs


def gen_muts(b, max_sites, max_muts, cfgs=None, k=0, n=1):
    cfgs = CFG_SITES if cfgs is None else cfgs
    i = 0
    for m in U.enumerate_members(flags="allsamples", **b):
        base, c, times = member_base(m)
        base["populations"] = []
        for pl in MU.enumerate_placements(m, max_sites=max_sites, max_muts=max_muts,
                                          states=tuple(STATES)):
            if not pl:
                continue
            for a in range(3):
                for mode in ("unknown", "known"):
                    i += 1
                    if not _mine(i, k, n):
                        continue
                    spec = dict(base, sites=[], mutations=[])
                    pl2 = [(x, STATES[(a + j) % 3], ml) for j, (x, _, ml) in enumerate(pl)]
                    site_rows(spec, pl2, mode, a + i)
                    yield spec, cfgs


# states that a tab-delimited text table carries verbatim but that a "tidying" parser would alter:
# leading / trailing / only blanks, blanks that are multi-byte in UTF-8, other white-space controls
ODD_STATES = [" ", "A ", " A", "A B", "\u3000", "x\u00a0", "\u00e9", "\x0bA", "A\x0c", "\x1f", "  "]


def gen_oddstates():
    for anc in ODD_STATES + ["", "A"]:
        for der in ODD_STATES + ["", "A"]:
            if anc in ("", "A") and der in ("", "A"):
                continue
            for mode in ("unknown", "known"):
                spec = two_node_base()
                spec["populations"] = []
                spec["sites"] = []
                spec["mutations"] = []
                site_rows(spec, [(0.25, anc, [(0, der)]), (0.5, der, [(0, anc), (0, der)])], mode, 0)
                yield spec, CFG_SITES


def two_node_base(L=1.0, flags0=1):
    spec = empty_spec(L)
    spec["nodes"] = [[flags0, 0.0, -1, -1, 0], [0, 1.0, -1, -1, 0]]
    spec["edges"] = [[0.0, L, 1, 0, 0]]
    return spec


IND_FLAGS = [0, 5, 4294967295]
IND_LOCS = [[], [0.5], [0.1, -2.5e-07, 1e300]]


def ind_parents(i, K):
    others = [j for j in range(K) if j != i]
    out = [[], [-1], [-1, -1]]
    for o in others:
        out += [[o], [-1, o], [o, o]]
    if len(others) >= 2:
        out.append([others[1], others[0]])
    return out


def gen_inds(K, flags=IND_FLAGS, locs=IND_LOCS, mds=(0, 1, 2)):
    rows = []
    for i in range(K):
        rows.append([[f, l, p, md] for f in flags for l in locs for p in ind_parents(i, K)
                     for md in mds])
    for combo in itertools.product(*rows):
        spec = two_node_base()
        spec["individuals"] = [list(r) for r in combo]
        if K >= 1:
            spec["nodes"][0][3] = K - 1
            spec["nodes"][1][3] = 0
        yield spec, CFG_ONE


def gen_noderefs():
    # every population-metadata vector x every row for node 0
    for P in (0, 1, 2):
        for pm in itertools.product(range(3), repeat=P):
            for fl in (0, 1, 2, 3):
                for pop in range(-1, P):
                    for ind in (-1, 0):
                        for md in range(3):
                            spec = two_node_base()
                            spec["populations"] = list(pm)
                            spec["individuals"] = [[0, [], [], 0]]
                            spec["nodes"][0] = [fl, 0.0, pop, ind, md]
                            spec["nodes"][1] = [0, 1.0, P - 1, -1, 1]
                            yield spec, CFG_POPS
    # every pair of node rows, 2 populations
    alpha = [(fl, pop, ind, md) for fl in (0, 1, 2, 3) for pop in (-1, 0, 1) for ind in (-1, 0)
             for md in range(3)]
    for a in alpha:
        for b in alpha:
            spec = two_node_base()
            spec["populations"] = [1, 2]
            spec["individuals"] = [[0, [], [], 0]]
            spec["nodes"][0] = [a[0], 0.0, a[1], a[2], a[3]]
            spec["nodes"][1] = [b[0], 1.0, b[1], b[2], b[3]]
            yield spec, CFG_POPS


MIG_IV = [(0.0, 2.0), (0.0, 1.0), (0.5, 1.5)]
MIG_PD = [(0, 1), (1, 0), (0, 0)]
MIG_T = [0.0, 0.5, 1.0 / 3]


def gen_migs(max_rows, ivs=MIG_IV, pds=MIG_PD, ts=MIG_T, mds=(0, 1, 2)):
    alpha = [[l, r, u, a, b, t, md] for (l, r) in ivs for u in (0, 1) for (a, b) in pds
             for t in ts for md in mds]
    for k in range(1, max_rows + 1):
        for combo in itertools.product(alpha, repeat=k):
            if any(x[5] > y[5] for x, y in zip(combo, combo[1:])):
                continue  # a valid tree sequence needs migrations in time order
            spec = two_node_base(L=2.0)
            spec["populations"] = [0, 1]
            spec["migrations"] = [list(r) for r in combo]
            yield spec, CFG_ONE


def layout_contents(tier):
    """The content set for the layout family: decorated members."""
    out = []
    bs = [dict(N=2, G=1), dict(N=3, G=1)] if tier == "quick" else \
        [dict(N=2, G=1), dict(N=3, G=1), dict(N=2, G=2), dict(N=3, G=2)]
    i = 0
    for b in bs:
        for m in U.enumerate_members(flags="allsamples", **b):
            grid, ts = [("int", "int"), ("frac", "quarter"), ("tenth", "tenth")][i % 3]
            out.append(decorate(m, grid, ts, i))
            i += 1
    return out


FAMILIES = {
    "trees": lambda a, k, n: gen_trees(a["b"], a["grid"], a["tscale"],
                                       CFG_FULL if a.get("cfg") == "full" else CFG_BASE, k=k, n=n),
    "muts": lambda a, k, n: gen_muts(a["b"], a["max_sites"], a["max_muts"], k=k, n=n),
    "inds": lambda a, k, n: U.shard(gen_inds(a["K"], **a.get("kw", {})), k, n),
    "noderefs": lambda a, k, n: U.shard(gen_noderefs(), k, n),
    "oddstates": lambda a, k, n: U.shard(gen_oddstates(), k, n),
    "migs": lambda a, k, n: U.shard(gen_migs(a["max_rows"], **a.get("kw", {})), k, n),
}


# ---------------------------------------------------------------------------------------
# module contract

def bounds(tier):
    if tier == "quick":
        return {
            "trees": "N<=3,G<=2 and N=4,G=1 and N=3,G=3 (id times, all flag subsets), N=4,G=2 (all 576 "
                     "edge structures x 3 flag vectors) on the int grid; N=3,G<=2 weak times on "
                     "frac grid/quarter times and on tenth grid/tenth times (precision 17 only); "
                     "N=3,G=3 id; 8 configs each",
            "muts": "N=2,G=1: <=2 sites x <=2 muts; N=3,G=1: 1 site x <=3 muts; N=2,G=2: <=2 sites x "
                    "<=1 mut; x 3 ancestral rotations x known|unknown",
            "inds": "K<=2 rows, 3 flags x 3 locations x 3|6 parents x 3 metadata, full product",
            "noderefs": "see RULE (d)", "migs": "<=2 rows over 162-row alphabet, time-ordered",
            "layouts": "8 contents; all layouts of every table via parse_*; reduced layouts via load_text",
        }
    return {
        "trees": "N<=3,G<=2 and N=4,G=1 ALL weak time orders x all flag subsets, N=4,G=2 all weak orders x "
                 "3 flag vectors (8 configs); U_B (N<=4,G<=2 id times, all flags) with the full "
                 "36-config product; N=3,G=3 weak on frac/quarter; N=4,G=2 id on tenth grid and on "
                 "frac grid with big times; N=4,G=3 id x 3 flag vectors",
        "muts": "N=2,G<=2 and N=3,G=1: <=2 sites x <=2 muts; N=3,G=1: 1 site x <=3 muts; "
                "N=3,G=2: <=2 sites x <=1 mut; N=4,G=1: 1 site x <=2 muts",
        "inds": "K<=2 full product; K=3 over 1 flag x 2 locations x 10 parent lists x 2 metadata",
        "noderefs": "see RULE (d)", "migs": "<=2 rows full alphabet; 3 rows over a 24-row alphabet",
        "layouts": "48 contents; all layouts of every table via parse_*; reduced layouts via load_text",
    }


def _fam(specs, fam, n, **a):
    for k in range(n):
        specs.append(dict(fam=fam, a=a, k=k, n=n))


LAYOUT_GROUPS = [["nodes", "edges", "sites", "mutations", "individuals", "populations"],
                 ["migrations"]]


def _layout_shards(specs, tier):
    for ci in range(len(layout_contents(tier))):
        for gi, group in enumerate(LAYOUT_GROUPS):
            specs.append(dict(fam="layouts", ci=ci, tables=group, ltl=(gi == 0)))


def shards(tier, seed):
    specs = []
    if tier == "quick":
        for n in (0, 1, 2, 3):
            for g in (1, 2):
                _fam(specs, "trees", 1 if n < 3 else (2 if g == 1 else 4),
                     b=dict(N=n, G=g, times="id"), grid="int", tscale="int")
        _fam(specs, "trees", 4, b=dict(N=4, G=1, times="id"), grid="int", tscale="int")
        _fam(specs, "trees", 16, b=dict(N=4, G=2, times="id", flags="three"), grid="int",
             tscale="int")
        _fam(specs, "trees", 8, b=dict(N=3, G=3, times="id"), grid="int", tscale="int")
        for g in (1, 2):
            _fam(specs, "trees", 2 if g == 1 else 20, b=dict(N=3, G=g, times="weak"),
                 grid="frac", tscale="quarter")
            _fam(specs, "trees", 2 if g == 1 else 20, b=dict(N=3, G=g, times="weak"),
                 grid="tenth", tscale="tenth")
        _fam(specs, "muts", 24, b=dict(N=2, G=1), max_sites=2, max_muts=2)
        _fam(specs, "muts", 32, b=dict(N=3, G=1), max_sites=1, max_muts=3)
        _fam(specs, "muts", 6, b=dict(N=2, G=2), max_sites=2, max_muts=1)
        _fam(specs, "inds", 1, K=0)
        _fam(specs, "inds", 1, K=1)
        _fam(specs, "inds", 24, K=2)
        _fam(specs, "noderefs", 6)
        _fam(specs, "oddstates", 2)
        _fam(specs, "migs", 16, max_rows=2)
        _layout_shards(specs, tier)
    else:
        _fam(specs, "oddstates", 2)
        for n in (0, 1, 2, 3):
            for g in (1, 2):
                _fam(specs, "trees", 1 if n < 3 else 4, b=dict(N=n, G=g, times="weak"),
                     grid="int", tscale="int")
        _fam(specs, "trees", 8, b=dict(N=4, G=1, times="weak"), grid="int", tscale="int")
        _fam(specs, "trees", 80, b=dict(N=4, G=2, times="weak", flags="three"), grid="int",
             tscale="int")
        for n in (0, 1, 2, 3):
            for g in (1, 2):
                _fam(specs, "trees", 1 if n < 3 else 4, b=dict(N=n, G=g, times="id"),
                     grid="int", tscale="int", cfg="full")
        _fam(specs, "trees", 4, b=dict(N=4, G=1, times="id"), grid="int", tscale="int", cfg="full")
        _fam(specs, "trees", 50, b=dict(N=4, G=2, times="id"), grid="int", tscale="int",
             cfg="full")
        _fam(specs, "trees", 24, b=dict(N=3, G=3, times="weak"), grid="frac", tscale="quarter")
        _fam(specs, "trees", 16, b=dict(N=4, G=2, times="id"), grid="tenth", tscale="tenth")
        _fam(specs, "trees", 16, b=dict(N=4, G=2, times="id"), grid="frac", tscale="big")
        _fam(specs, "trees", 60, b=dict(N=4, G=3, times="id", flags="three"), grid="int",
             tscale="int")
        _fam(specs, "muts", 20, b=dict(N=2, G=1), max_sites=2, max_muts=2)
        _fam(specs, "muts", 60, b=dict(N=2, G=2), max_sites=2, max_muts=2)
        _fam(specs, "muts", 60, b=dict(N=3, G=1), max_sites=2, max_muts=2)
        _fam(specs, "muts", 20, b=dict(N=3, G=1), max_sites=1, max_muts=3)
        _fam(specs, "muts", 40, b=dict(N=3, G=2), max_sites=2, max_muts=1)
        _fam(specs, "muts", 16, b=dict(N=4, G=1), max_sites=1, max_muts=2)
        _fam(specs, "inds", 1, K=0)
        _fam(specs, "inds", 1, K=1)
        _fam(specs, "inds", 24, K=2)
        _fam(specs, "inds", 24, K=3, kw=dict(flags=[5], locs=[[], [0.1, -2.5e-07]], mds=(0, 2)))
        _fam(specs, "noderefs", 8)
        _fam(specs, "migs", 24, max_rows=2)
        _fam(specs, "migs", 12, max_rows=3,
             kw=dict(ivs=[(0.0, 2.0), (0.5, 1.5)], pds=[(0, 1), (1, 0)], ts=[0.0, 1.0 / 3],
                     mds=(0, 2)))
        _layout_shards(specs, tier)
    return specs


_contents_cache = {}


def _content(tier, ci):
    if tier not in _contents_cache:
        _contents_cache[tier] = layout_contents(tier)
    return _contents_cache[tier][ci]


def run_shard(spec):
    acc = Acc()
    fam = spec["fam"]
    if fam in FAMILIES:
        for sp, cfgs in FAMILIES[fam](spec["a"], spec["k"], spec["n"]):
            case0 = {"kind": "rt", "spec": sp, "cfg": cfgs[0]}
            acc.enter(case0)
            prep = Prepared(sp, acc, case0)
            if not prep.ok:
                continue
            seen = set()
            for cfg in cfgs:
                key = (resolve_precision(prep, cfg.get("precision", "suff")),
                       cfg.get("seqlen", "given"), cfg.get("rows", "asis"), cfg.get("pops", "file"))
                if key in seen:
                    continue
                seen.add(key)
                check_rt(prep, cfg, acc)
            acc.sample({"family": fam, "spec": sp})
        return acc.result()
    # layout families: the tier is implied by the content index range; contents of the quick
    # tier are a prefix of those of the thorough tier
    sp = _content("thorough", spec["ci"])
    case0 = {"kind": "rt", "spec": sp, "cfg": CFG_ONE[0]}
    acc.enter(case0)
    prep = Prepared(sp, acc, case0)
    if not prep.ok:
        acc.fail("harness:layout_content_invalid", prep.err, case0)
        return acc.result()
    for name in spec["tables"]:
        check_parse_layouts(prep, name, all_layouts(name), acc)
        acc.sample({"family": fam, "table": name, "text": prep.text(prep.suff)[name]})
    if spec.get("ltl"):
        for name in NAMES:
            for lay in reduced_layouts(name):
                check_load_layout(prep, name, lay, acc)
    return acc.result()


def replay(case):
    acc = Acc()
    prep = Prepared(case["spec"], acc, case)
    if not prep.ok:
        return acc.failures
    kind = case.get("kind", "rt")
    if kind == "rt":
        check_rt(prep, case["cfg"], acc)
    elif kind == "parse":
        check_parse_layouts(prep, case["table"], [case["layout"]], acc,
                            precision=case.get("precision", "suff"))
    elif kind == "ltl":
        check_load_layout(prep, case["table"], case["layout"], acc,
                          precision=case.get("precision", "suff"))
    return acc.failures
