"""C05  Storage and interchange are lossless: dump/load, dict, pickle, copy round-trip.

Model checking of stream histories (all sequences of <=3 dumps of 4 distinct objects onto one
stream, then repeated loads until EOFError, for each loader) plus exhaustive exploration of a
table-collection universe through every interchange path, and the equals()/assert_equals()
agreement under all 64 ignore_* combinations for single-component perturbations."""
import io
import itertools
import os
import pickle

from ..acc import Acc
from .. import argforms as AF
from . import c13

ID = "C05"
LEVEL = "model_checking"
RULE = ("stream histories: state = (sequence of dumps on one stream, number of loads done); every dump/load is "
        "a transition on a real file; round trips: table collections with 0-2 rows per table from row alphabets "
        "(every single table exhaustively, all pairs of tables) x top-level variants x interchange path; equality: "
        "(base, single perturbation) x 64 ignore combinations. non-trivial = collection has >=1 row")
ASSUMPTIONS = [
    "fingerprint (all column bytes, offsets, schemas, reference sequence, time units, length, index) read through "
    "column attributes is taken as the object's identity",
]
TNAMES = list(c13.TABLES)


def bounds(tier):
    return {"quick": "single tables exhaustive (0-2 rows of 4-6 row alphabet), pairs of tables with <=1 row each, 84 stream "
                     "histories x 2 loaders x 2 object sets", "thorough": "pairs of tables with 0-2 rows each"}[tier]


def alphabet(tname):
    import math
    import struct

    rows = c13.row_alphabet(tname)
    unknown = struct.unpack("<d", struct.pack("<Q", 0x7FF874736B697421))[0]
    if tname == "nodes":
        rows = rows + [dict(rows[1], time=math.nan), dict(rows[2], time=-0.0), dict(rows[0], time=math.inf)]
    if tname == "mutations":
        rows = rows + [dict(rows[1], time=unknown), dict(rows[2], time=-math.inf)]
    if tname in ("nodes", "sites"):
        big = dict(rows[1])
        big["metadata"] = tuple([0, 127, 1] * 100)
        rows = rows + [big]
    return rows


def build(desc):
    """desc: {"rows": {table: [row indexes]}, "top": variant name, "index": bool, "L": float}"""
    import numpy as np
    import tskit

    tc = tskit.TableCollection(desc.get("L", 7.5))
    for tname in TNAMES:
        t = getattr(tc, tname)
        alpha = alphabet(tname)
        for k in desc["rows"].get(tname, []):
            r = alpha[k]
            kw = c13.to_kwargs(tname, r)
            for key, v in list(kw.items()):
                if isinstance(v, bytes) and key == "metadata":
                    kw[key] = bytes((x % 256) for x in r["metadata"])
            t.add_row(**kw)
    top = desc.get("top", "plain")
    if top in ("meta", "full"):
        tc.metadata_schema = tskit.MetadataSchema({"codec": "json", "title": "é日本"})
        tc.metadata = {"k": "vé"}
        tc.nodes.metadata_schema = tskit.MetadataSchema({"codec": "struct", "type": "object", "properties": {}})
        tc.populations.metadata_schema = tskit.MetadataSchema({"codec": "json", "description": "日"})
    if top in ("units", "full"):
        tc.time_units = "générations"
    if top in ("refdata", "full"):
        tc.reference_sequence.data = "ACGTé"
    if top == "full":
        tc.reference_sequence.url = "http://é"
        tc.reference_sequence.metadata_schema = tskit.MetadataSchema({"codec": "json"})
        tc.reference_sequence.metadata = {"a": [1, 2]}
    if top == "rawmeta":
        tc.metadata = b"\x00\xff\x80raw"
    # every reference-sequence field on its own (each has its own "is it there" test in the writers)
    if top in ("refmeta", "rawmeta"):
        tc.reference_sequence.metadata = b"\x01raw-ref\xff"
    if top == "refurl":
        tc.reference_sequence.url = "u"
    if top == "refschema":
        tc.reference_sequence.metadata_schema = tskit.MetadataSchema({"codec": "json"})
    if top == "empties":
        # explicitly empty strings are values too, distinct from the defaults
        tc.time_units = ""
        tc.reference_sequence.data = ""
        tc.reference_sequence.url = ""
    if desc.get("index"):
        e = tc.edges.num_rows
        tc.indexes = tskit.TableCollectionIndexes(
            edge_insertion_order=np.arange(e, dtype=np.int32), edge_removal_order=np.arange(e, dtype=np.int32)[::-1].copy())
        # an index that has gone stale because the number of edge rows changed afterwards: has_index() is
        # False although the index buffers are still allocated; nothing of it may reach a file or a dict
        if desc["index"] == "stale+":
            tc.edges.add_row(0.0, 1.0, 0, 0)
        elif desc["index"] == "stale-" and e:
            tc.edges.truncate(e - 1)
    return tc


def fingerprint(tc):
    out = []
    for tname in TNAMES:
        t = getattr(tc, tname)
        spec = c13.TABLES[tname]
        cols = [c for c, _ in spec["fixed"]] + [c for c, _ in spec["ragged"]] + [c + "_offset" for c, _ in spec["ragged"]]
        for c in cols:
            a = getattr(t, c)
            out.append((tname, c, str(a.dtype) if not c.endswith("_offset") else "off", a.astype("u8").tobytes()
                        if c.endswith("_offset") else a.tobytes()))
        if tname != "provenances":
            out.append((tname, "schema", repr(t.metadata_schema)))
    out.append(("top", "L", repr(tc.sequence_length)))
    out.append(("top", "metadata", bytes(tc.metadata_bytes)))
    out.append(("top", "schema", repr(tc.metadata_schema)))
    out.append(("top", "time_units", tc.time_units))
    rs = tc.reference_sequence
    out.append(("ref", "data", rs.data))
    out.append(("ref", "url", rs.url))
    out.append(("ref", "metadata", bytes(rs.metadata_bytes)))
    out.append(("ref", "schema", repr(rs.metadata_schema)))
    if tc.has_index():
        out.append(("index", "I", tc.indexes.edge_insertion_order.tobytes()))
        out.append(("index", "O", tc.indexes.edge_removal_order.tobytes()))
    else:
        out.append(("index", "none"))
    return out


def diff(a, b):
    return [x[:2] for x, y in zip(a, b) if x != y] or (["length"] if len(a) != len(b) else [])


PATHS = ["dump_path", "dump_file", "asdict", "asdict_views", "asdict64", "pickle2", "pickle3", "pickle4", "pickle5", "copy",
         "load_skip_none"]


def roundtrip(tc, path, tmp):
    import numpy as np
    import tskit

    if path == "dump_path":
        tc.dump(tmp)
        return tskit.TableCollection.load(tmp)
    if path == "dump_file":
        with open(tmp, "wb") as f:
            tc.dump(f)
        with open(tmp, "rb") as f:
            return tskit.TableCollection.load(f)
    if path == "load_skip_none":
        tc.dump(tmp)
        return tskit.TableCollection.load(tmp, skip_tables=False, skip_reference_sequence=False)
    if path == "asdict":
        return tskit.TableCollection.fromdict(tc.asdict())
    if path == "asdict_views":
        # the same dictionary with every column as a strided / reversed / read-only view
        def walk(x, k):
            if isinstance(x, dict):
                return {kk: walk(v, k + i) for i, (kk, v) in enumerate(sorted(x.items()))}
            if isinstance(x, np.ndarray) and x.ndim == 1:
                return AF.reform(x, k)[1]
            return x
        return tskit.TableCollection.fromdict(walk(tc.asdict(), 1))
    if path == "asdict64":
        return tskit.TableCollection.fromdict(tc.asdict(force_offset_64=True))
    if path.startswith("pickle"):
        return pickle.loads(pickle.dumps(tc, protocol=int(path[6:])))
    if path == "copy":
        return tc.copy()
    raise KeyError(path)


def check_roundtrips(desc, acc, tmp):
    tc = build(desc)
    fp = fingerprint(tc)
    nt = any(desc["rows"].values())
    for path in PATHS:
        case = {"kind": "rt", "desc": desc, "path": path}
        acc.enter(case)
        acc.ev(1, nt)
        try:
            back = roundtrip(tc, path, tmp)
        except Exception as e:  # noqa
            acc.fail(f"roundtrip:{path}:error", repr(e), case)
            continue
        fb = fingerprint(back)
        # copy() and dict round trips keep the index; so does dump/load
        if fb != fp:
            acc.fail(f"roundtrip:{path}:differs:" + "+".join(sorted({d[0] if isinstance(d, tuple) else d for d in diff(fp, fb)})),
                     f"{path}: differing components {diff(fp, fb)}", case)
        if fingerprint(tc) != fp:
            acc.fail(f"roundtrip:{path}:source-changed", "the source object changed", case)
        if not back.equals(tc) or not tc.equals(back):
            acc.fail(f"roundtrip:{path}:not-equals", "equals() is False after the round trip", case)


def check_ts_roundtrip(acc, tmp):
    """TreeSequence-level equivalents on loadable collections."""
    import tskit

    from . import c09

    for name in ("ts_full", "ts_one", "ts_noedges", "ts_empty", "ts_nosamples", "ts_tieindex"):
        if name == "ts_tieindex":
            # a valid index that breaks a tie (two parents of equal time, same interval) the other way round
            # from build_index(): it is part of the object and must come back as it was
            import numpy as np

            tc = tskit.TableCollection(1.0)
            for fl, t in ((1, 0.0), (1, 0.0), (0, 1.0), (0, 1.0)):
                tc.nodes.add_row(fl, t)
            tc.edges.add_row(0, 1, 2, 0)
            tc.edges.add_row(0, 1, 3, 1)
            tc.indexes = tskit.TableCollectionIndexes(edge_insertion_order=np.array([1, 0], dtype=np.int32),
                                                      edge_removal_order=np.array([0, 1], dtype=np.int32))
            try:
                ts = tc.tree_sequence()
            except Exception:  # noqa: if this tie order is not accepted there is nothing to round-trip
                acc.count("tie_index_not_accepted")
                continue
        else:
            ts = c09._ts(name)
        fp = fingerprint(ts.dump_tables())
        for path in ("dump_path", "dump_file", "pickle", "tables_ts", "dict"):
            case = {"kind": "tsrt", "ts": name, "path": path}
            acc.enter(case)
            acc.ev(1, True)
            try:
                if path == "dump_path":
                    ts.dump(tmp)
                    back = tskit.load(tmp)
                elif path == "dump_file":
                    with open(tmp, "wb") as f:
                        ts.dump(f)
                    with open(tmp, "rb") as f:
                        back = tskit.load(f)
                elif path == "pickle":
                    back = pickle.loads(pickle.dumps(ts))
                elif path == "dict":
                    back = tskit.TableCollection.fromdict(ts.dump_tables().asdict()).tree_sequence()
                else:
                    back = ts.dump_tables().tree_sequence()
            except Exception as e:  # noqa
                acc.fail(f"ts-roundtrip:{path}:error", repr(e), case)
                continue
            fb = fingerprint(back.dump_tables())
            if fb != fp:
                acc.fail(f"ts-roundtrip:{path}:differs", f"{diff(fp, fb)}", case)
            if not back.equals(ts):
                acc.fail(f"ts-roundtrip:{path}:not-equals", "TreeSequence.equals False", case)


# --------------------------------------------------------------------------- streams
def stream_objects(setname):
    import tskit

    from . import c09

    if setname == "A":
        objs = [build({"rows": {}, "top": "plain"}),
                build({"rows": {"nodes": [1, 2], "edges": [1], "sites": [2], "mutations": [1], "individuals": [1, 2],
                                "populations": [1], "migrations": [2], "provenances": [1, 2]}, "top": "full", "index": True}),
                c09._ts("ts_full"),
                build({"rows": {"nodes": [5]}, "top": "rawmeta"})]
    else:
        objs = [c09._ts("ts_one"), build({"rows": {"populations": [1, 1]}, "top": "units"}), c09._ts("ts_empty"),
                build({"rows": {"sites": [3, 1], "provenances": [3]}, "top": "refdata"})]
    return objs


def tables_of(o):
    return o.dump_tables() if hasattr(o, "dump_tables") else o


def stream_load(loader, f):
    import tskit

    kw = {}
    if loader.endswith("skip_tables"):
        kw["skip_tables"] = True
    if loader.endswith("skip_ref"):
        kw["skip_reference_sequence"] = True
    return tskit.load(f, **kw) if loader.startswith("ts") else tskit.TableCollection.load(f, **kw)


def check_streams(setname, loader, acc, tmp):
    import tskit

    objs = stream_objects(setname)
    fps = [fingerprint(tables_of(o)) for o in objs]
    for k in (0, 1, 2, 3):
        for hist in itertools.product(range(4), repeat=k):
            case = {"kind": "stream", "set": setname, "loader": loader, "history": list(hist)}
            acc.enter(case)
            acc.ev(1, k > 0)
            sizes = []
            with open(tmp, "wb") as f:
                for i in hist:
                    objs[i].dump(f)
                    sizes.append(f.tell())
                    acc.count("transitions")
            with open(tmp, "rb") as f:
                ok = True
                for j, i in enumerate(hist):
                    try:
                        back = stream_load(loader, f)
                    except Exception as e:  # noqa
                        if loader.startswith("ts") and not hasattr(objs[i], "dump_tables"):
                            # a collection that is not a valid tree sequence legitimately fails tskit.load
                            ok = False
                            break
                        acc.fail("stream:load-error", f"load {j} of {list(hist)} raised {e!r}", case)
                        ok = False
                        break
                    acc.count("transitions")
                    if "skip" in loader:
                        # only the stream bookkeeping is comparable on the skip paths
                        if tables_of(back).sequence_length != tables_of(objs[i]).sequence_length:
                            acc.fail("stream:wrong-object", f"load {j} of {list(hist)} (skip path): wrong object", case)
                            ok = False
                            break
                    elif fingerprint(tables_of(back)) != fps[i]:
                        acc.fail("stream:wrong-object", f"load {j} of {list(hist)}: {diff(fps[i], fingerprint(tables_of(back)))}", case)
                        ok = False
                        break
                    if f.tell() != sizes[j]:
                        acc.fail("stream:position", f"after load {j} position {f.tell()} expected {sizes[j]}", case)
                        ok = False
                        break
                if ok:
                    for _ in range(2):
                        try:
                            stream_load(loader, f)
                            acc.fail("stream:no-eof", "load past the end returned an object", case)
                        except EOFError:
                            pass
                        except Exception as e:  # noqa
                            acc.fail("stream:eof-signal", f"end of stream signalled by {e!r} instead of EOFError", case)
                        acc.count("transitions")
            acc.count("states", k + 1)


# --------------------------------------------------------------------------- equality
IGNORES = ["ignore_metadata", "ignore_ts_metadata", "ignore_provenance", "ignore_timestamps", "ignore_tables",
           "ignore_reference_sequence"]


def perturbations():
    """(name, function(tc), set of flags any of which makes the difference invisible)"""
    import tskit

    def row_data(tc):
        tc.nodes[0] = tc.nodes[0].replace(time=tc.nodes[0].time + 1)

    def row_meta(tc):
        tc.edges[0] = tc.edges[0].replace(metadata=b"zz")

    def table_schema(tc):
        tc.sites.metadata_schema = tskit.MetadataSchema({"codec": "json", "title": "x"})

    def ts_meta(tc):
        tc.metadata = {"k": "other"}

    def ts_schema(tc):
        tc.metadata_schema = tskit.MetadataSchema({"codec": "json", "title": "other"})

    def prov_record(tc):
        tc.provenances[0] = tc.provenances[0].replace(record="{\"x\":1}")

    def prov_ts(tc):
        tc.provenances[0] = tc.provenances[0].replace(timestamp="1999")

    def ref_data(tc):
        tc.reference_sequence.data = "TTTT"

    def ref_meta(tc):
        tc.reference_sequence.metadata = {"a": [9]}

    def units(tc):
        tc.time_units = "ticks"

    def length(tc):
        tc.sequence_length = tc.sequence_length + 1

    def pop_meta(tc):
        tc.populations.packset_metadata([b"{}"] * tc.populations.num_rows)

    def ind_location(tc):
        tc.individuals[0] = tc.individuals[0].replace(location=[9.0])

    def units_same_len(tc):
        tc.time_units = tc.time_units[:-1] + "z"

    def ts_meta_same_len(tc):
        tc.metadata = {"k": 2}

    def ref_data_same_len(tc):
        tc.reference_sequence.data = tc.reference_sequence.data[:-1] + "A"

    def ref_url(tc):
        tc.reference_sequence.url = "v"

    def prov_record_same_len(tc):
        r = tc.provenances[0]
        tc.provenances[0] = r.replace(record=r.record[:-1] + "#")

    def prov_ts_same_len(tc):
        r = tc.provenances[0]
        tc.provenances[0] = r.replace(timestamp=r.timestamp[:-1] + "#")

    def row_meta_same_len(tc):
        r = tc.mutations[0]
        tc.mutations[0] = r.replace(metadata=bytes(r.metadata[:-1]) + b"#")

    def state_same_len(tc):
        r = tc.sites[0]
        tc.sites[0] = r.replace(ancestral_state=r.ancestral_state[:-1] + "#")

    extra = [("time_units_same_length", units_same_len, set()),
             ("ts_metadata_same_length", ts_meta_same_len, {"ignore_metadata", "ignore_ts_metadata"}),
             ("reference_data_same_length", ref_data_same_len, {"ignore_reference_sequence"}),
             ("reference_url", ref_url, {"ignore_reference_sequence"}),
             ("provenance_record_same_length", prov_record_same_len, {"ignore_tables", "ignore_provenance"}),
             ("provenance_timestamp_same_length", prov_ts_same_len, {"ignore_tables", "ignore_provenance", "ignore_timestamps"}),
             ("row_metadata_same_length", row_meta_same_len, {"ignore_tables", "ignore_metadata"}),
             ("ancestral_state_same_length", state_same_len, {"ignore_tables"})]
    return extra + [("row_data", row_data, {"ignore_tables"}), ("row_metadata", row_meta, {"ignore_tables", "ignore_metadata"}),
            ("table_schema", table_schema, {"ignore_tables", "ignore_metadata"}),
            ("ts_metadata", ts_meta, {"ignore_metadata", "ignore_ts_metadata"}),
            ("ts_schema", ts_schema, {"ignore_metadata", "ignore_ts_metadata"}),
            ("provenance_record", prov_record, {"ignore_tables", "ignore_provenance"}),
            ("provenance_timestamp", prov_ts, {"ignore_tables", "ignore_provenance", "ignore_timestamps"}),
            ("reference_data", ref_data, {"ignore_reference_sequence"}),
            ("reference_metadata", ref_meta, {"ignore_reference_sequence", "ignore_metadata"}),
            ("time_units", units, set()), ("sequence_length", length, set()),
            ("population_metadata", pop_meta, {"ignore_tables", "ignore_metadata"}),
            ("individual_location", ind_location, {"ignore_tables"})]


def eq_base(desc):
    import tskit

    tc = build(desc)
    tc.metadata_schema = tskit.MetadataSchema({"codec": "json"})
    tc.metadata = {"k": 1}
    tc.time_units = "generations"
    tc.reference_sequence.data = "ACGT"
    tc.reference_sequence.url = "u"
    tc.reference_sequence.metadata_schema = tskit.MetadataSchema({"codec": "json"})
    tc.reference_sequence.metadata = {"a": [1]}
    return tc


def check_equality(acc):
    base_desc = {"rows": {"nodes": [1, 2], "edges": [1], "sites": [2], "mutations": [1], "individuals": [1, 2],
                          "populations": [1], "migrations": [2], "provenances": [1, 2]}, "top": "plain"}
    for name, fn, hidden_by in perturbations():
        for combo in itertools.product((False, True), repeat=len(IGNORES)):
            kw = dict(zip(IGNORES, combo))
            case = {"kind": "eq", "perturbation": name, "flags": kw}
            acc.enter(case)
            acc.ev(1, True)
            a = eq_base(base_desc)
            b = eq_base(base_desc)
            fn(b)
            expect = any(kw[f] for f in hidden_by)
            for x, y in ((a, b), (b, a)):
                got = x.equals(y, **kw)
                try:
                    x.assert_equals(y, **kw)
                    raised = False
                except AssertionError:
                    raised = True
                if got != expect:
                    acc.fail(f"equals:{name}", f"equals({kw}) = {got}, expected {expect} for a difference in {name}", case)
                if raised == got:
                    acc.fail(f"assert_equals-disagrees:{name}", f"equals={got} but assert_equals raised={raised} with {kw}", case)
            # identical objects are equal under every combination
            if not a.equals(eq_base(base_desc), **kw):
                acc.fail("equals:identical", f"identical collections unequal under {kw}", case)


# --------------------------------------------------------------------------- driver
def row_choices(tname, maxrows):
    n = len(alphabet(tname))
    out = [[]]
    for k in range(1, maxrows + 1):
        out.extend(list(p) for p in itertools.product(range(n), repeat=k))
    return out


def all_descs(tier):
    tops = ["plain", "meta", "units", "refdata", "full", "rawmeta", "empties", "refmeta", "refurl", "refschema"]
    # single tables exhaustively (others empty), crossed with top-level variants and index
    for tname in TNAMES:
        for rows in row_choices(tname, 2):
            for top in tops:
                yield {"rows": {tname: rows}, "top": top, "index": tname == "edges" and top in ("plain", "full")}
                if tname == "edges" and top in ("plain", "full"):
                    yield {"rows": {tname: rows}, "top": top, "index": "stale+"}
                    if rows:
                        yield {"rows": {tname: rows}, "top": top, "index": "stale-"}
    maxr = 1 if tier == "quick" else 2
    for t1, t2 in itertools.combinations(TNAMES, 2):
        for r1 in row_choices(t1, maxr):
            for r2 in row_choices(t2, maxr):
                if r1 and r2:
                    yield {"rows": {t1: r1, t2: r2}, "top": "full" if (len(r1) + len(r2)) % 2 else "plain", "index": False}


def shards(tier, seed):
    specs = []
    n = 64 if tier == "quick" else 256
    for k in range(n):
        specs.append(dict(kind="rt", k=k, n=n, tier=tier))
    for setname in ("A", "B"):
        for loader in ("ts", "tc", "tc_skip_tables", "tc_skip_ref", "ts_skip_tables"):
            specs.append(dict(kind="stream", set=setname, loader=loader))
    specs.append(dict(kind="eq"))
    specs.append(dict(kind="tsrt"))
    return specs


def run_shard(spec):
    acc = Acc()
    tmp = f"/dev/shm/verif-c05-{os.getpid()}.trees"
    if spec["kind"] == "rt":
        for i, desc in enumerate(all_descs(spec["tier"])):
            if i % spec["n"] == spec["k"]:
                check_roundtrips(desc, acc, tmp)
        acc.sample({"roundtrip_desc_example": desc})
    elif spec["kind"] == "stream":
        check_streams(spec["set"], spec["loader"], acc, tmp)
        acc.sample({"stream_history_example": [0, 2, 1], "set": spec["set"], "loader": spec["loader"]})
    elif spec["kind"] == "eq":
        check_equality(acc)
        acc.sample({"equality": "13 perturbations x 64 ignore combinations"})
    else:
        check_ts_roundtrip(acc, tmp)
    try:
        os.unlink(tmp)
    except OSError:
        pass
    return acc.result()


def replay(case):
    acc = Acc()
    tmp = f"/dev/shm/verif-c05-{os.getpid()}.trees"
    if case["kind"] == "rt":
        check_roundtrips(case["desc"], acc, tmp)
    elif case["kind"] == "stream":
        check_streams(case["set"], case["loader"], acc, tmp)
    elif case["kind"] == "eq":
        check_equality(acc)
    else:
        check_ts_roundtrip(acc, tmp)
    return acc.failures
