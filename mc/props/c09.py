"""C09  No API input causes out-of-bounds memory access or aborts the interpreter.

Model checking of short API programs against the ASan+UBSan build: every public method and
property of TreeSequence, Tree, Variant, TableCollection, the table classes, IdentitySegments
and LdCalculator (discovered by introspection) is called with every combination of boundary
values for up to two parameters at a time on a set of objects that includes invalid,
unsorted, unindexed and corrupted table collections; depth-2 programs follow every mutating
or failing first call by a battery of probe calls.  The oracle is process survival: no
sanitizer report, no signal, no abort, no hang (10 s alarm)."""
import inspect
import itertools
import math
import os
import signal

from ..acc import Acc

ID = "C09"
LEVEL = "model_checking"
VARIANT = "asan"
RULE = ("state = (object under test rebuilt from a named recipe, program prefix); transition = one public API "
        "call with boundary arguments executed on the real object under ASan+UBSan; all single calls with all "
        "value combinations for <=2 boundary-typed parameters, plus all (mutating-or-failing call ; probe call) "
        "programs; a transition is non-trivial when the call got past Python argument binding")
ASSUMPTIONS = [
    "memory-safety oracle is AddressSanitizer + UndefinedBehaviorSanitizer (nonnull-attribute check off, see DESIGN 1)",
    "program depth is bounded at 2",
    "a Python exception of any type is an acceptable outcome",
]
SHARD_TIMEOUT = 900
CALL_TIMEOUT = 10
HUGE = 2 ** 31 - 1


def bounds(tier):
    return {"quick": "single calls on 12 objects x full alphabet (<=2 boundary params), depth-2 with probe battery on "
                     "table collections/trees", "thorough": "more objects, all table-collection corruptions, depth-2 any-call"}[tier]


# ----------------------------------------------------------------------------- objects
def _full_tables():
    import tskit

    tc = tskit.TableCollection(3.0)
    tc.populations.add_row(metadata=b"p0")
    tc.populations.add_row(metadata=b"p1")
    tc.individuals.add_row(flags=0, location=[1.0, 2.0], metadata=b"i0")
    tc.individuals.add_row(flags=1, location=[], parents=[0, -1], metadata=b"i1")
    for u, (fl, t, pop, ind) in enumerate([(1, 0, 0, 0), (1, 0, 0, 0), (1, 0, 1, 1), (1, 1, 1, -1), (0, 2, -1, -1)]):
        tc.nodes.add_row(flags=fl, time=t, population=pop, individual=ind, metadata=b"n%d" % u)
    for l, r, p, c in [(0, 1, 3, 0), (0, 1, 3, 1), (0, 1, 4, 2), (0, 1, 4, 3), (2, 3, 4, 0), (2, 3, 4, 1)]:
        tc.edges.add_row(l, r, p, c, metadata=b"e")
    tc.sites.add_row(0.0, "A", metadata=b"s0")
    tc.sites.add_row(0.5, "", metadata=b"")
    tc.sites.add_row(2.5, "G", metadata=b"s2")
    tc.mutations.add_row(0, 3, "T", -1, time=1.5, metadata=b"m0")
    tc.mutations.add_row(0, 0, "A", 0, time=0.5, metadata=b"m1")
    tc.mutations.add_row(1, 2, "C", -1, metadata=b"")
    tc.mutations.add_row(2, 4, "TT", -1, metadata=b"m3")
    tc.migrations.add_row(0, 3, 0, 0, 1, 0.25, metadata=b"g")
    tc.provenances.add_row(record="{}", timestamp="2020")
    tc.metadata_schema = tskit.MetadataSchema({"codec": "json"})
    tc.metadata = {"a": 1}
    tc.reference_sequence.data = "ACG"
    tc.sort()
    return tc


def _ts(name):
    import tskit

    if name == "ts_empty":
        return tskit.TableCollection(1.0).tree_sequence()
    if name == "ts_nosamples":
        tc = tskit.TableCollection(2.0)
        for t in (0, 0, 1):
            tc.nodes.add_row(0, t)
        tc.edges.add_row(0, 2, 2, 0)
        tc.edges.add_row(0, 1, 2, 1)
        return tc.tree_sequence()
    if name == "ts_noedges":
        tc = tskit.TableCollection(2.0)
        for t in (0, 0, 1):
            tc.nodes.add_row(1, t)
        tc.sites.add_row(1.0, "0")
        tc.mutations.add_row(0, 1, "1")
        return tc.tree_sequence()
    if name == "ts_one":
        tc = tskit.TableCollection(2.0)
        for t in (0, 0, 0):
            tc.nodes.add_row(1, t)
        tc.nodes.add_row(0, 1)
        tc.nodes.add_row(0, 2)
        for p, c in ((3, 0), (3, 1), (4, 2), (4, 3)):
            tc.edges.add_row(0, 2, p, c)
        tc.sites.add_row(0.0, "0")
        tc.sites.add_row(1.0, "0")
        tc.mutations.add_row(0, 3, "1")
        tc.mutations.add_row(1, 2, "1")
        tc.sort()
        return tc.tree_sequence()
    if name == "ts_dead":
        # two trees with different internal nodes; each tree has a site whose mutation sits on the node that
        # exists only in the OTHER tree (a dead branch here, with samples below it there)
        # (four trees, so that going from the last tree to the first is shorter through the null state)
        tc = tskit.TableCollection(4.0)
        for t in (0, 0, 0):
            tc.nodes.add_row(1, t)
        tc.nodes.add_row(0, 1)
        tc.nodes.add_row(0, 1)
        for j in range(4):
            p = 3 if j % 2 == 0 else 4
            for c in (0, 1, 2):
                tc.edges.add_row(j, j + 1, p, c)
        for j in range(4):
            other = 4 if j % 2 == 0 else 3
            s0 = tc.sites.add_row(j + 0.25, "0")
            tc.mutations.add_row(s0, other, "1")
            s1 = tc.sites.add_row(j + 0.5, "0")
            tc.mutations.add_row(s1, j % 3, "1")
        tc.sort()
        return tc.tree_sequence()
    if name == "ts_full":
        return _full_tables().tree_sequence()
    if name == "ts_ld":
        # one tree, six sites: three biallelic, one with two mutations, one with none, one biallelic
        tc = tskit.TableCollection(6.0)
        for t in (0, 0, 0, 0):
            tc.nodes.add_row(1, t)
        tc.nodes.add_row(0, 1)
        tc.nodes.add_row(0, 2)
        tc.nodes.add_row(0, 3)
        for p, c in ((4, 0), (4, 1), (5, 2), (5, 4), (6, 3), (6, 5)):
            tc.edges.add_row(0, 6, p, c)
        for j in range(6):
            tc.sites.add_row(float(j), "0")
        for site, node in ((0, 4), (1, 0), (2, 5), (3, 4), (3, 0), (5, 2)):
            par = -1
            if (site, node) == (3, 0):
                par = tc.mutations.num_rows - 1
            tc.mutations.add_row(site, node, "1", parent=par)
        tc.sort()
        return tc.tree_sequence()
    raise KeyError(name)


def _corrupt(kind):
    """Table collections in states the API lets one construct."""
    import numpy as np
    import tskit

    tc = _full_tables()
    tc.build_index()
    n, ne, nm, ns = tc.nodes.num_rows, tc.edges.num_rows, tc.mutations.num_rows, tc.sites.num_rows

    def setcol(table, col, j, val):
        arr = getattr(table, col).copy()
        arr[j] = val
        setattr(table, col, arr)

    if kind == "valid":
        pass
    elif kind == "unindexed":
        tc.drop_index()
    elif kind == "unsorted":
        tc.drop_index()
        e = tc.edges.copy()
        tc.edges.clear()
        for row in reversed(list(e)):
            tc.edges.append(row)
        s = tc.mutations.copy()
        tc.mutations.clear()
        for row in reversed(list(s)):
            tc.mutations.append(row.replace(parent=-1))
    elif kind == "staleindex":
        e = tc.edges.copy()
        tc.edges.clear()
        for row in reversed(list(e)):
            tc.edges.append(row)
        tc.indexes = tskit.TableCollectionIndexes(
            edge_insertion_order=np.arange(ne, dtype=np.int32), edge_removal_order=np.arange(ne, dtype=np.int32))
    elif kind == "badindex":
        tc.indexes = tskit.TableCollectionIndexes(
            edge_insertion_order=np.array([ne] * ne, dtype=np.int32), edge_removal_order=np.array([-5] * ne, dtype=np.int32))
    elif kind == "edge_child_n":
        setcol(tc.edges, "child", 0, n)
    elif kind == "edge_child_neg":
        setcol(tc.edges, "child", 1, -2)
    elif kind == "edge_parent_n":
        setcol(tc.edges, "parent", ne - 1, n)
    elif kind == "edge_parent_huge":
        setcol(tc.edges, "parent", 0, HUGE)
    elif kind == "edge_coords":
        setcol(tc.edges, "left", 0, 5.0)
        setcol(tc.edges, "right", 1, math.nan)
    elif kind == "mut_parent_n":
        setcol(tc.mutations, "parent", 1, nm)
    elif kind == "mut_parent_neg":
        setcol(tc.mutations, "parent", 1, -2)
    elif kind == "mut_node_n":
        setcol(tc.mutations, "node", 0, n)
    elif kind == "mut_site_n":
        setcol(tc.mutations, "site", nm - 1, ns)
    elif kind == "mut_site_neg":
        setcol(tc.mutations, "site", 0, -1)
    elif kind == "node_pop_n":
        setcol(tc.nodes, "population", 0, 2)
    elif kind == "node_ind_n":
        setcol(tc.nodes, "individual", 0, 2)
    elif kind == "node_ind_neg":
        setcol(tc.nodes, "individual", 0, -2)
    elif kind == "node_time_nan":
        setcol(tc.nodes, "time", 3, math.nan)
    elif kind == "ind_parent_n":
        setcol(tc.individuals, "parents", 0, 2)
    elif kind == "ind_parent_neg":
        setcol(tc.individuals, "parents", 0, -7)
    elif kind == "mig_node_n":
        setcol(tc.migrations, "node", 0, n)
    elif kind == "mig_pop_n":
        setcol(tc.migrations, "dest", 0, 2)
    elif kind == "site_pos_nan":
        setcol(tc.sites, "position", 1, math.nan)
    elif kind == "site_dup":
        setcol(tc.sites, "position", 1, 0.0)
    elif kind == "seqlen_small":
        tc.sequence_length = 0.5
    elif kind == "empty":
        tc = tskit.TableCollection(1.0)
    else:
        raise KeyError(kind)
    return tc


CORRUPTIONS_QUICK = ["valid", "unindexed", "unsorted", "staleindex", "edge_child_n", "edge_parent_n", "mut_parent_n",
                     "mut_node_n", "mut_site_n", "node_ind_n", "ind_parent_n", "mig_node_n", "empty",
                     "mut_parent_neg", "ind_parent_neg"]
CORRUPTIONS_ALL = CORRUPTIONS_QUICK + ["badindex", "edge_child_neg", "edge_parent_huge", "edge_coords",
                                       "mut_site_neg", "node_pop_n", "node_ind_neg", "node_time_nan",
                                       "mig_pop_n", "site_pos_nan", "site_dup", "seqlen_small"]
TABLE_NAMES = ["nodes", "edges", "sites", "mutations", "individuals", "populations", "migrations", "provenances"]


def make_object(name):
    """name -> (object, context).  Mutable objects are rebuilt for every program."""
    import tskit

    kind, _, rest = name.partition(":")
    if kind == "ts":
        ts = _ts(rest)
        return ts, _ctx(ts)
    if kind == "tree":
        tsname, where = rest.split("/")
        ts = _ts(tsname)
        tree = tskit.Tree(ts, sample_lists=True, tracked_samples=list(ts.samples()[:2]))
        if where == "first":
            tree.first()
        elif where == "last":
            tree.last()
        return tree, _ctx(ts)
    if kind == "var":
        tsname, where = rest.split("/")
        ts = _ts(tsname)
        v = tskit.Variant(ts)
        if where == "decoded":
            v.decode(0)
        return v, _ctx(ts)
    if kind == "tc":
        tc = _corrupt(rest)
        return tc, _ctx_tc(tc)
    if kind == "table":
        cor, tname = rest.split("/")
        tc = _corrupt(cor)
        ctx = _ctx_tc(tc)
        t = getattr(tc, tname)
        ctx["rows"] = t.num_rows
        return t, ctx
    if kind == "ibd":
        ts = _ts(rest)
        return ts.ibd_segments(store_segments=True), _ctx(ts)
    if kind == "ld":
        ts = _ts(rest)
        return tskit.LdCalculator(ts), _ctx(ts)
    if kind == "mod":
        return tskit, _ctx(_ts("ts_one"))
    raise KeyError(name)


def _ctx(ts):
    return dict(n=ts.num_nodes, L=ts.sequence_length, sites=ts.num_sites, muts=ts.num_mutations,
                trees=ts.num_trees, samples=[int(x) for x in ts.samples()], rows=ts.num_nodes,
                edges=ts.num_edges, inds=ts.num_individuals, pops=ts.num_populations, ts=ts)


def _ctx_tc(tc):
    return dict(n=tc.nodes.num_rows, L=tc.sequence_length, sites=tc.sites.num_rows, muts=tc.mutations.num_rows,
                trees=1, samples=[u for u in range(tc.nodes.num_rows) if tc.nodes.flags[u] & 1], rows=tc.nodes.num_rows,
                edges=tc.edges.num_rows, inds=tc.individuals.num_rows, pops=tc.populations.num_rows, ts=None)


# ----------------------------------------------------------------------------- domains
NODE_LIKE = {"u", "v", "node", "parent", "child", "root", "a", "b", "focal_node", "population", "population_id",
             "individual", "source", "dest"}
SITE_LIKE = {"site", "site_id"}
INDEX_LIKE = {"index", "id_", "key", "row_id", "edge_start", "site_start", "mutation_start", "num_rows", "size",
              "max_iter", "num_threads", "ploidy", "precision", "wrap_width", "max_num_trees", "num_components",
              "num_iterations", "num_oversamples", "output_dim", "arity", "max_mutations", "max_sites", "direction",
              "root_threshold", "length", "max_rows_increment", "random_seed", "rank"}
FLOAT_LIKE = {"position", "left", "right", "time", "t", "max_time", "min_time", "min_span", "span", "branch_length",
              "lambda_", "epsilon", "max_tree_height", "x", "max_distance", "Ne", "base", "proportion_value"}
IDLIST_LIKE = {"samples", "nodes", "sites", "individuals", "site_ids", "tracked_samples", "focal", "within", "ancestors",
               "node_mapping", "tracked_leaves", "order", "mutations", "edges", "populations", "migrations",
               "parents", "location", "quantiles", "positions"}
SETS_LIKE = {"sample_sets", "between"}
WINDOW_LIKE = {"windows", "time_windows", "breakpoints"}
BOOL_LIKE = {"span_normalise", "polarised", "record_provenance", "ignore_metadata", "simplify", "centre", "strict",
             "isolated_as_missing", "impute_missing_data", "keep_schema", "store_pairs", "store_segments",
             "reduce_to_site_topology", "filter_populations", "filter_individuals", "filter_sites", "filter_nodes",
             "update_sample_flags", "keep_unary", "keep_unary_in_individuals", "keep_input_roots",
             "filter_zero_mutation_sites", "reorder_populations", "check_shared_equality", "add_populations",
             "include_branch_lengths", "remove_unreferenced", "as_array", "include_terminal", "proportion",
             "pair_normalise", "copy", "include_trees", "include_alignments", "allow_position_zero", "sample_lists",
             "sample_counts", "leaf_counts", "leaf_lists", "remove_missing", "force_offset_64", "clear_provenance",
             "clear_metadata_schemas", "clear_ts_metadata_and_schema", "build_indexes", "skip_tables",
             "skip_reference_sequence", "ignore_timestamps", "ignore_ts_metadata", "ignore_provenance",
             "ignore_tables", "ignore_reference_sequence", "zlib_compression", "base64_metadata", "map_nodes",
             "omit_sites", "force_root_branch", "use_ascii", "all_edge_mutations", "range_sketch"}
SKIP_METHODS = {
    # interactive / external-program helpers and pure plotting options are not memory-safety relevant
    "draw", "draw_svg", "draw_text", "_repr_html_", "to_macs",
}


def ids(n):
    return [0, -2, -1, max(n - 1, 0), n, n + 1, HUGE, 2 ** 31]


def domain(name, ctx, default, required):
    """List of values for the parameter; element 0 is the benign one.  None -> leave at default."""
    import numpy as np

    n, L = ctx["n"], ctx["L"]
    S = ctx["samples"]
    if name in NODE_LIKE:
        return ids(n)
    if name in SITE_LIKE:
        return ids(ctx["sites"])
    if name == "output_dim":
        # sizes that legitimately scale the work are kept small (-1 wraps to 2**32-1 outputs: honest work, not a defect)
        return [1, 0, 2, 3, None, "x"]
    if name in INDEX_LIKE:
        base = ids(max(ctx.get("rows", n), 1) if name in ("index", "id_", "key", "row_id", "num_rows") else 3)
        if name in ("index",):
            base = ids(ctx["trees"])
        return [base[0]] + [x for x in base[1:] if not (name in ("num_threads", "num_iterations", "num_oversamples",
                                                               "num_components", "wrap_width", "max_iter", "size",
                                                               "precision", "max_rows_increment", "max_mutations",
                                                               "max_sites", "max_num_trees", "length", "arity",
                                                               "random_seed", "rank")
                                                       and x >= HUGE)] + [None, 1.5, "x"]
    if name in FLOAT_LIKE:
        return [L / 4, -1.0, 0.0, math.nextafter(L, 0), L, L + 1, math.nan, math.inf, -math.inf, None, "x"]
    if name == "positions":
        # ld_matrix: one or two lists of genome coordinates (rows / columns)
        Lm = math.nextafter(L, 0)
        return [None, [[0.0], [0.0]], [[0.0, L]], [[L]], [[0.0], [L]], [[0.0, Lm]], [[-1.0]], [[math.nan]], [[L + 1]],
                [[0.0, 0.0]], [[Lm, 0.0]], [], [[]], "x", [[0.5], [0.5], [0.5]], [0.0, L], [[math.inf]]]
    if name == "node_mapping":
        # one entry per node of `other` (the objects used here have as many nodes as self)
        return [list(range(n)), [-1] * n, [n] * n, [n - 1] * n, [n + 1] * n, [HUGE] * n, [-2] * n, [0] * n,
                [-1] * (n - 1) + [n] if n else [], [n] + [-1] * (n - 1) if n else [], [], [0], None, "x",
                np.full(n, 0.5)]
    if name in IDLIST_LIKE:
        full = list(range(n))
        return [S[:2] if S else [], [], [0], [0, 0], [n], [-1], full, [HUGE], np.array([0.5, 1.5]),
                np.zeros((2, 2), dtype=np.int32), None, "x", [None]]
    if name in SETS_LIKE:
        s0 = S[:1] or [0]
        s1 = S[1:2] or [0]
        return [[s0, s1], [], [[]], [s0], [s0, s0], [S], [[n]], [[-1]], [[HUGE]], [s0, []], None, [[0.5]], "x", [["a"]]]
    if name == "indexes":
        return [None, [], [(0, 0)], [(0, 1)], [(0, 5)], [(-1, 0)], [(0, 1, 2)], [(0,)], "x", [(HUGE, 0)]]
    if name in WINDOW_LIKE:
        return [None, [0, L], [], [0], [L, 0], [0, 0, L], [0, math.nan, L], [-1, L], [0, L + 1], [0, L / 2, L], "trees",
                "sites", "x", [[0, L]], np.array([0, math.inf])]
    if name == "intervals":
        return [[[0, L / 2]], [], [[0, L]], [[L, 0]], [[0, 1], [0.5, 2]], [[math.nan, 1]], [[-1, 1]], [[0, L + 1]],
                [0, 1], None, "x", [[0, 0]]]
    if name == "mode":
        return [default if isinstance(default, str) else "site", "site", "branch", "node", "bad", None, 3]
    if name in BOOL_LIKE:
        return [default if isinstance(default, bool) else False, True, False]
    if name == "W":
        k = len(S)
        return [np.ones((k, 1)), np.ones((k, 2)), np.ones((k + 1, 1)), np.ones((0, 1)), np.ones(k), np.full((k, 1), math.nan),
                None, "x", np.ones((k, 0))]
    if name == "f":
        return [lambda x: x, lambda x: [1.0], lambda x: [], lambda x: "x", None, lambda x: np.array([math.nan] * len(x))]
    if name in ("genotypes",):
        k = len(S)
        return [np.zeros(k, dtype=np.int8), np.full(k, -1, dtype=np.int8), np.arange(k, dtype=np.int8) + 62,
                np.zeros(k + 1, dtype=np.int8), np.zeros(0, dtype=np.int8), np.full(k, 64, dtype=np.int8),
                np.full(k, -2, dtype=np.int8), None]
    if name == "alleles":
        return [("0", "1"), None, (), ("0",), ("",), tuple(str(i) for i in range(70)), "x", (None,), (1, 2)]
    if name == "ancestral_state":
        return [None, "0", "zz", 0, 1, 64, -1, ""]
    if name == "other":
        return ["SELFLIKE", "OTHER", None, "x", 0]
    if name in ("metadata", "record", "timestamp", "derived_state", "reference_sequence", "missing_data_character",
                "missing_data_string", "contig_id", "time_units"):
        return [default if default is not inspect._empty else b"", b"", b"x", "x", None, 5, "é", "NN", b"\xff\x00"]
    if name in ("file_or_path", "path", "output"):
        return [f"/dev/shm/verif-c09-{os.getpid()}.out", None, 5, "/nonexistent-dir/x", ""]
    if name in ("node_labels", "mutation_labels"):
        return [None, {}, {0: "a"}, {HUGE: "x"}, "x", {0: None}]
    if name in ("site_mask", "sample_mask"):
        return [None, [], [True], np.zeros(ctx["sites"], dtype=bool), np.ones(ctx["sites"] + 1, dtype=bool), [1, 0], "x",
                (lambda v: None)]
    if name in ("individual_names",):
        return [None, [], ["a"], ["a"] * max(1, ctx["inds"]), [None], "x"]
    if name == "position_transform":
        return [None, "legacy", "bad", (lambda x: x), (lambda x: None), 5]
    if name in ("metadata_schema",):
        return [None, "x", 5]
    if name == "stat":
        return ["r2", "bad", None]
    if name == "method":
        return [default if default is not inspect._empty else None, "bad", None]
    if name == "dtype":
        return [default if default is not inspect._empty else None, "x", int]
    if name in ("keep",):
        return [[True] * ctx.get("rows", 0), [], [True], [False] * ctx.get("rows", 0), [2] * ctx.get("rows", 0), None, "x"]
    if required:
        # unknown required parameters (sizes of generated objects etc.): no astronomically large values,
        # honest work proportional to the argument is not a defect
        return [0, None, -1, "", [], 1.5, b"x", 1000]
    return None


def methods_of(obj):
    cls = type(obj)
    out = []
    props = []
    for name in sorted(dir(cls)):
        if name.startswith("_") or name in SKIP_METHODS:
            continue
        a = inspect.getattr_static(cls, name)
        if isinstance(a, property):
            props.append(name)
            continue
        f = getattr(cls, name, None)
        if callable(f) and not inspect.isclass(f):
            out.append(name)
    return out, props


def call_plans(obj, ctx, mname, pairs=True):
    """All argument dicts for one method: singles and (optionally) pairs over boundary-typed parameters."""
    f = getattr(obj, mname)
    if mname in ("set_columns", "append_columns") and hasattr(obj, "column_names"):
        return column_plans(obj)
    try:
        sig = inspect.signature(f)
    except (TypeError, ValueError):
        return [((), {})]
    params = []
    for p in sig.parameters.values():
        if p.kind in (p.VAR_POSITIONAL, p.VAR_KEYWORD):
            continue
        required = p.default is inspect._empty
        dom = domain(p.name, ctx, p.default, required)
        if dom is None:
            continue
        params.append((p.name, dom, required))
    base = {name: dom[0] for name, dom, req in params if req}
    plans = [dict(base)]
    for (name, dom, req) in params:
        for v in dom[1:] if req else dom:
            d = dict(base)
            d[name] = v
            plans.append(d)
    for (n1, d1, r1), (n2, d2, r2) in (itertools.combinations(params, 2) if pairs else ()):
        # pairs: skip bool x bool (no boundary content) to keep the space focused
        if n1 in BOOL_LIKE and n2 in BOOL_LIKE:
            continue
        for v1 in d1:
            for v2 in d2:
                d = dict(base)
                d[n1] = v1
                d[n2] = v2
                plans.append(d)
    return [((), d) for d in plans]


TEXTS = {
    "nodes": ["is_sample\ttime\n1\t0\n0\t1\n", "is_sample\ttime\n", "", "garbage\n", "time\n0\n",
              "is_sample\ttime\tpopulation\tindividual\tmetadata\n1\t0\t-5\t99999999999\t!!notb64\n",
              "is_sample\ttime\nx\ty\n", "is_sample\ttime\n1\n", "is_sample\ttime\n1\tnan\n\n\n"],
    "edges": ["left\tright\tparent\tchild\n0\t1\t1\t0\n", "left\tright\tparent\tchild\n", "", "x\n",
              "left\tright\tparent\tchild\n0\t1\t1\t0,0,-7\n", "left\tright\tparent\tchild\nnan\tinf\t99999999999\t-1\n",
              "left\tright\tparent\tchild\tmetadata\n0\t1\t1\t0\t%%%\n", "left\tright\tparent\n0\t1\t1\n"],
    "sites": ["position\tancestral_state\n0\tA\n", "position\n0\n", "", "position\tancestral_state\tmetadata\n-1\t\t=\n",
              "position\tancestral_state\nx\tA\n"],
    "mutations": ["site\tnode\tderived_state\n0\t0\tT\n", "site\tnode\n0\t0\n", "",
                  "site\tnode\tderived_state\tparent\ttime\tmetadata\n9\t-3\t\t7\tunknown\t*\n",
                  "site\tnode\tderived_state\ttime\n0\t0\tT\tnotanumber\n"],
    "individuals": ["flags\tlocation\tparents\n0\t1.5,2\t-1,0\n", "flags\n", "", "flags\tlocation\tparents\nx\ta,b\tc\n",
                    "flags\tlocation\tparents\tmetadata\n0\t,,\t,\t\n"],
    "populations": ["metadata\nYQ==\n", "", "metadata\n!!!\n", "id\n0\n"],
    "migrations": ["left\tright\tnode\tsource\tdest\ttime\n0\t1\t0\t0\t1\t0.5\n", "", "left\n0\n",
                   "left\tright\tnode\tsource\tdest\ttime\tmetadata\nnan\t-1\t-9\t99999999999\tx\tinf\t?\n"],
}


def module_plans():
    """(function name, args dict) for the module-level load / parse / pack functions."""
    import numpy as np

    plans = []
    for tab, texts in TEXTS.items():
        for t in texts:
            for strict in (True, False):
                kw = {"source": ("TEXT", t), "strict": strict}
                if tab not in ("edges",):
                    for b64 in (True, False):
                        plans.append((f"parse_{tab}", dict(kw, base64_metadata=b64)))
                else:
                    plans.append((f"parse_{tab}", kw))
    for n in TEXTS["nodes"][:6]:
        for e in TEXTS["edges"][:6]:
            for extra in ({}, {"sites": ("TEXT", TEXTS["sites"][0]), "mutations": ("TEXT", TEXTS["mutations"][0])},
                          {"sites": ("TEXT", TEXTS["sites"][3]), "mutations": ("TEXT", TEXTS["mutations"][3])},
                          {"individuals": ("TEXT", TEXTS["individuals"][3]), "populations": ("TEXT", TEXTS["populations"][2]),
                           "migrations": ("TEXT", TEXTS["migrations"][3])}):
                for L in (0, -1, 5, math.nan):
                    plans.append(("load_text", dict(nodes=("TEXT", n), edges=("TEXT", e), sequence_length=L, strict=False,
                                                   **extra)))
    for path in ("/nonexistent/x.trees", "/dev/null", "/", "", "/proc/self/status", None, 5, b"\x89KAS"):
        for kw in ({}, {"skip_tables": True}, {"skip_reference_sequence": True}):
            plans.append(("load", dict(file=path, **kw)))
    arrs = [np.array([], dtype=np.int8), np.array([1, 2, 3], dtype=np.int8), np.zeros(4)]
    offs = [np.array([0], dtype=np.uint64), np.array([0, 3], dtype=np.uint64), np.array([0, 10], dtype=np.uint64),
            np.array([3, 0], dtype=np.uint64), np.array([], dtype=np.uint64), np.array([0, 2 ** 63], dtype=np.uint64),
            np.array([-1, 2]), "x"]
    for a in arrs:
        for o in offs:
            for fn in ("unpack_bytes", "unpack_strings", "unpack_arrays"):
                plans.append((fn, dict(packed=a, offset=o)))
    for data in ([], [b""], [b"a", b""], ["x"], [None], "x", [[1, 2], []], [[1.5], ["a"]]):
        for fn, key in (("pack_bytes", "data"), ("pack_strings", "strings"), ("pack_arrays", "list_of_lists")):
            plans.append((fn, {key: data}))
    return plans


def column_plans(table):
    """Keyword sets for set_columns / append_columns: the table's own columns with one column perturbed."""
    import numpy as np

    base = {c: getattr(table, c).copy() for c in table.column_names}
    plans = [dict(base)]
    for c, arr in base.items():
        variants = [arr[:0], np.concatenate([arr, arr[:1]]) if len(arr) else np.zeros(1, dtype=arr.dtype), None, "x",
                    arr.astype(np.float64) if arr.dtype != np.float64 else arr.astype(np.int8)]
        if c.endswith("_offset") and len(arr) >= 2:
            a = arr.copy(); a[-1] += 5
            b = arr.copy(); b[0] = 3
            d = arr[::-1].copy()
            e = arr.copy(); e[1] = 2 ** 62
            variants += [a, b, d, e]
        if arr.dtype.kind == "i" and arr.dtype.itemsize >= 4 and len(arr):
            a = arr.copy(); a[0] = -2
            b = arr.copy(); b[-1] = HUGE
            variants += [a, b]
        for v in variants:
            d = dict(base)
            if v is None:
                d.pop(c)
            else:
                d[c] = v
            plans.append(d)
    return [((), d) for d in plans]


def resolve(args, obj, objname):
    import io

    out = {}
    for k, v in args.items():
        if isinstance(v, tuple) and len(v) == 2 and v[0] == "TEXT":
            v = io.StringIO(v[1])
        elif isinstance(v, str) and v == "SELFLIKE":
            v = make_object(objname)[0]
        elif isinstance(v, str) and v == "OTHER":
            import tskit

            kind = objname.split(":")[0]
            if kind == "ts":
                v = _ts("ts_one")
            elif kind == "tree":
                v = _ts("ts_one").first()
            elif kind == "tc":
                v = _corrupt("unsorted")
            elif kind == "table":
                v = getattr(_corrupt("unsorted"), objname.split("/")[1])
            else:
                v = None
        out[k] = v
    return out


def describe(args):
    def r(v):
        if callable(v):
            return "<callable>"
        s = repr(v)
        return s if len(s) < 80 else s[:77] + "..."
    return {k: r(v) for k, v in args.items()}


MUTATING_HINT = ("add", "set", "append", "clear", "truncate", "keep", "drop", "sort", "simplify", "delete", "trim",
                 "subset", "union", "packset", "replace", "squash", "compute", "dedup", "canonical", "build", "link",
                 "next", "prev", "first", "last", "seek", "decode", "extend", "reset", "fromdict", "load", "ibd", "map",
                 "takeset", "from")


def probes(obj):
    """Battery of follow-up calls for depth-2 programs (exercise the state left behind)."""
    import tskit

    out = []
    if isinstance(obj, tskit.TableCollection):
        out = [("tree_sequence", {}), ("sort", {}), ("simplify", {}), ("copy", {}), ("build_index", {}),
               ("compute_mutation_parents", {}), ("deduplicate_sites", {}), ("canonicalise", {}), ("asdict", {}),
               ("__str__", {}), ("ROWS", {}), ("dump", {"file_or_path": f"/dev/shm/verif-c09-{os.getpid()}.p2"}),
               ("subset", {"nodes": [0]}), ("ibd_segments", {}), ("delete_older", {"time": 0.5}),
               ("link_ancestors", {"samples": [0], "ancestors": [1]}), ("compute_mutation_times", {}),
               ("keep_intervals", {"intervals": [[0, 0.5]]}), ("trim", {}), ("sort_individuals", {})]
    elif isinstance(obj, tskit.Tree):
        out = [("next", {}), ("prev", {}), ("first", {}), ("last", {}), ("clear", {}), ("copy", {}), ("ARRAYS", {}),
               ("seek", {"position": 0.0}), ("as_newick", {}), ("preorder", {}), ("postorder", {}), ("total_branch_length", None),
               ("kc_distance", {"other": "SELFLIKE"}), ("map_mutations", {"genotypes": [0] * obj.tree_sequence.num_samples,
                                                                          "alleles": ("0",)})]
    elif isinstance(obj, tskit.Variant):
        out = [("decode", {"site_id": 0}), ("decode", {"site_id": obj.tree_sequence.num_sites - 1}), ("copy", {}), ("counts", {}),
               ("__str__", {}), ("genotypes", None)]
    elif isinstance(obj, tskit.LdCalculator):
        out = [("r2_array", {"a": 0, "max_sites": 1}), ("r2_array", {"a": 0}), ("r2_array", {"a": 5, "direction": -1, "max_sites": 1}),
               ("r2_array", {"a": 1, "max_distance": 0.5}), ("r2", {"a": 0, "b": 1}), ("r2_matrix", {})]
    elif hasattr(obj, "add_row"):
        out = [("__str__", {}), ("ROWS", {}), ("copy", {}), ("asdict", {}), ("clear", {}), ("truncate", {"num_rows": 1})]
    return out


def do_call(obj, mname, args, objname):
    """Execute one call; returns ('ok'|'exc'|'bind', value)."""
    import tskit

    try:
        if mname == "ROWS":
            tabs = [getattr(obj, t) for t in TABLE_NAMES] if isinstance(obj, tskit.TableCollection) else [obj]
            for t in tabs:
                for j in range(t.num_rows):
                    t[j]
            return "ok", None
        if mname == "SETROWS":
            # row replacement where ONE ragged field changes its length and the others keep theirs
            import dataclasses

            for j in range(obj.num_rows):
                row = obj[j]
                for f in dataclasses.fields(row):
                    v = getattr(row, f.name)
                    if f.name == "metadata" or not isinstance(v, (bytes, str)) and not hasattr(v, "dtype"):
                        continue
                    for n in (0, 1, 3, 4096, 300000):
                        if isinstance(v, bytes):
                            nv = b"x" * n
                        elif isinstance(v, str):
                            nv = "y" * n
                        else:
                            nv = [0] * n
                        try:
                            obj[j] = row.replace(**{f.name: nv})
                        except Exception:  # noqa
                            pass
            for j in range(obj.num_rows):
                obj[j]
            return "ok", None
        if mname == "ARRAYS":
            for a in ("parent_array", "left_child_array", "right_sib_array", "edge_array", "num_children_array"):
                getattr(obj, a).tolist()
            list(obj.nodes())
            return "ok", None
        if args is None:
            return "ok", getattr(obj, mname)
        f = getattr(obj, mname)
        r = f(**resolve(args, obj, objname))
        if inspect.isgenerator(r) or hasattr(r, "__next__"):
            for k, _ in enumerate(r):
                if k > 200:
                    break
        return "ok", r
    except TypeError as e:
        msg = str(e)
        if "argument" in msg and ("unexpected" in msg or "missing" in msg or "positional" in msg):
            return "bind", e
        return "exc", e
    except BaseException as e:  # noqa: any Python-level exception is an acceptable outcome
        if isinstance(e, (KeyboardInterrupt, SystemExit)):
            raise
        return "exc", e


def consume(r):
    """Touch the result so that lazily broken state is exercised."""
    try:
        if hasattr(r, "tobytes") and hasattr(r, "tolist"):
            # tobytes() goes through memcpy, which ASan intercepts: an array handed out as a view that is
            # longer than its allocation is caught here (numpy's own element loads are not instrumented)
            r.tobytes()
            r.tolist()
        elif isinstance(r, (tuple, list)):
            for x in r[:20]:
                if hasattr(x, "tobytes"):
                    x.tobytes()
            str(r)[:10]
        elif hasattr(r, "num_trees") and hasattr(r, "trees"):
            for t in r.trees():
                t.num_edges
        elif hasattr(r, "num_rows") and hasattr(r, "asdict"):
            r.asdict()
        else:
            str(r)[:10]
    except BaseException as e:  # noqa
        if isinstance(e, (KeyboardInterrupt, SystemExit)):
            raise


# ----------------------------------------------------------------------------- shards
def object_names(tier):
    names = ["mod:tskit", "ts:ts_full", "ts:ts_one", "ts:ts_noedges", "ts:ts_empty", "ts:ts_nosamples",
             "tree:ts_full/null", "tree:ts_full/first", "tree:ts_full/last", "tree:ts_noedges/first",
             "var:ts_full/undecoded", "var:ts_full/decoded", "var:ts_dead/undecoded", "tree:ts_dead/last",
             "ibd:ts_full", "ld:ts_full", "ld:ts_ld"]
    cors = CORRUPTIONS_QUICK if tier == "quick" else CORRUPTIONS_ALL
    names += [f"tc:{c}" for c in cors]
    for t in TABLE_NAMES:
        names.append(f"table:valid/{t}")
    # tables whose self-referencing id column holds out-of-range values (row operations index by them)
    names += ["table:mut_parent_neg/mutations", "table:mut_parent_n/mutations", "table:ind_parent_neg/individuals",
              "table:ind_parent_n/individuals"]
    if tier == "thorough":
        names += ["tree:ts_one/first", "tree:ts_empty/null", "var:ts_noedges/decoded", "ts:ts_noedges"]
    return names


def shards(tier, seed):
    specs = []
    # argument PAIRS on the two richest tree sequences (quick) / all (thorough); single-parameter sweeps elsewhere
    heavy = {"ts:ts_full": 24, "ts:ts_noedges": 12} if tier == "quick" else \
        {"ts:ts_full": 24, "ts:ts_one": 12, "ts:ts_noedges": 12, "ts:ts_empty": 8, "ts:ts_nosamples": 8}
    for name in object_names(tier):
        if name in heavy:
            for i in range(heavy[name]):
                specs.append(dict(kind="single", obj=name, _resumable=True, part=i, parts=heavy[name], pairs=True))
        else:
            specs.append(dict(kind="single", obj=name, _resumable=True, part=0, parts=1,
                              pairs=not name.startswith("ts:")))
    for name in object_names(tier):
        if name.startswith(("tc:", "tree:", "var:", "table:", "ld:")):
            specs.append(dict(kind="pair", obj=name, _resumable=True, full=(tier == "thorough" or name.startswith("ld:"))))
    return specs


def iter_single(objname, part=0, parts=1, pairs=True):
    if objname.startswith("mod:"):
        for i, (fn, args) in enumerate(module_plans()):
            yield i, fn, args
        return
    obj, ctx = make_object(objname)
    meths, props = methods_of(obj)
    i = 0
    for k, m in enumerate(meths):
        if k % parts != part:
            continue
        for _, args in call_plans(obj, ctx, m, pairs):
            yield i, m, args
            i += 1
    if part == 0:
        for p in props:
            yield i, p, None
            i += 1
        if hasattr(obj, "add_row"):
            yield i, "SETROWS", {}
            i += 1


def run_shard(spec):
    acc = Acc()
    objname = spec["obj"]
    skip = spec.get("_skip", 0)
    kind = objname.split(":")[0]
    rebuild = kind != "ts"
    obj, ctx = make_object(objname)
    cls = type(obj).__name__
    if spec["kind"] == "single":
        for i, m, args in iter_single(objname, spec["part"], spec["parts"], spec.get("pairs", True)):
            if i < skip:
                continue
            case = {"_i": i, "_key": f"{cls}.{m}", "kind": "single", "obj": objname, "part": spec["part"],
                    "parts": spec["parts"], "pairs": spec.get("pairs", True), "method": m,
                    "args": None if args is None else describe(args)}
            acc.enter(case)
            if rebuild:
                obj, ctx = make_object(objname)
            signal.alarm(CALL_TIMEOUT)
            st, r = do_call(obj, m, args, objname)
            if st == "ok":
                consume(r)
            signal.alarm(0)
            acc.ev(1, nontrivial=st != "bind")
            acc.count("transitions")
            acc.count("outcome_" + st)
            if st == "ok" and args and os.environ.get("VERIF_C09_ACCEPTS"):
                for k_, v_ in args.items():
                    if k_ in NODE_LIKE | SITE_LIKE or k_ in ("node_mapping", "nodes", "samples", "within", "ancestors", "site_ids"):
                        nn = ctx["sites"] if k_ in SITE_LIKE or k_ == "site_ids" else ctx["n"]
                        vals = v_ if isinstance(v_, list) else [v_]
                        for x_ in vals:
                            if isinstance(x_, int) and not isinstance(x_, bool) and (x_ >= nn or x_ < -1):
                                tag = "n" if x_ == nn else ("n+1" if x_ == nn + 1 else ("neg" if x_ < 0 else "huge"))
                                acc.count(f"ACCEPTS {cls}.{m}({k_}={tag}) on {objname}")
            if i % 997 == 0:
                acc.sample({"obj": objname, "method": m, "args": case["args"], "outcome": st})
        acc.count("states", 1)
    else:
        # depth 2: (mutating or failing call ; probe)
        i = 0
        for _, m, args in iter_single(objname, pairs=bool(spec.get("full"))):
            if args is None:
                continue
            obj, ctx = make_object(objname)
            acc.enter({"_i": max(i - 1, 0), "_key": f"{cls}.{m}", "kind": "pair-first", "obj": objname, "method": m,
                       "args": describe(args)})
            signal.alarm(CALL_TIMEOUT)
            st, r = do_call(obj, m, args, objname)
            signal.alarm(0)
            mutating = any(h in m for h in MUTATING_HINT)
            if st == "bind" or not (st == "exc" or mutating):
                continue
            pr = probes(obj)
            for (pm, pargs) in pr:
                if i < skip:
                    i += 1
                    continue
                case = {"_i": i, "_key": f"{cls}.{m};{pm}", "kind": "pair", "obj": objname, "method": m,
                        "args": describe(args), "probe": pm}
                acc.enter(case)
                obj, ctx = make_object(objname)
                signal.alarm(CALL_TIMEOUT)
                do_call(obj, m, args, objname)
                st2, r2 = do_call(obj, pm, pargs, objname)
                if st2 == "ok":
                    consume(r2)
                signal.alarm(0)
                acc.ev(1, nontrivial=True)
                acc.count("transitions", 2)
                acc.count("programs2")
                i += 1
        acc.count("states", 1)
    return acc.result()


def replay(case):
    """Re-run the journaled case; a crash kills this process (which the driver detects)."""
    acc = Acc()
    objname = case["obj"]
    if case["kind"] == "single":
        for i, m, args in iter_single(objname, case.get("part", 0), case.get("parts", 1), case.get("pairs", True)):
            if i == case["_i"]:
                obj, ctx = make_object(objname)
                signal.alarm(CALL_TIMEOUT)
                st, r = do_call(obj, m, args, objname)
                if st == "ok":
                    consume(r)
                signal.alarm(0)
                break
    else:
        for _, m, args in iter_single(objname):
            if args is None or m != case["method"] or describe(args) != case["args"]:
                continue
            obj, ctx = make_object(objname)
            if case["kind"] == "pair-first":
                signal.alarm(CALL_TIMEOUT)
                st, r = do_call(obj, m, args, objname)
                if st == "ok":
                    consume(r)
                signal.alarm(0)
                return acc.failures
            for (pm, pargs) in probes(obj):
                if pm == case["probe"]:
                    obj, ctx = make_object(objname)
                    signal.alarm(CALL_TIMEOUT)
                    do_call(obj, m, args, objname)
                    st2, r2 = do_call(obj, pm, pargs, objname)
                    if st2 == "ok":
                        consume(r2)
                    signal.alarm(0)
                    return acc.failures
    return acc.failures
