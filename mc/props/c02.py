"""C02  Only table collections meeting the data-model requirements become tree sequences.

Exhaustive input-space exploration: (a) every valid universe member in several forms must
be accepted; (b) every raw edge table with <=2 (thorough 3) rows over 3 nodes under all 13
weak time orders, and every small site/mutation table on a fixed two-tree genealogy, must get
the verdict of the reference predicate mc/ref/valid.py; (c) every single-field departure (and
pairs, thorough) from a set of valid bases.  A rejected collection must raise an exception
(never crash) and leave every table row unchanged."""
import itertools
import math

from .. import muts as MU
from .. import universe as U
from ..acc import Acc
from ..ref import valid as V

ID = "C02"
LEVEL = "exploration"
RULE = ("(a) universe members with sites/mutations/individuals/populations/migrations, indexed or not, via "
        "tree_sequence() and dump+load; (b) all raw edge tables of <=2|3 rows (l,r in {0,1,2}, p,c in {0,1,2}) x "
        "13 weak time orders; all site lists of <=2 positions from {-1,0,.5,1,L,nan}; all mutation tables of "
        "<=2 rows over site x node x parent x time alphabets; (c) every single-field substitution from boundary "
        "alphabets in every table of each base, every row permutation/duplication/deletion, user indexes; every "
        "index-free spec is judged twice: as is (tree_sequence() builds the index) and with a ready-made index. "
        "non-trivial = the reference verdict is INVALID or the collection has >=1 edge")
ASSUMPTIONS = [
    "reference predicate transcribed from docs/data-model.md 'Valid tree sequence requirements'",
    "don't-care: infinite sequence length, individual as its own parent, null migration population, "
    "index differing only in tie order, wrong-but-well-formed mutation parent",
]


def bounds(tier):
    return {"quick": "(b) edges <=2 rows, mutations <=2 rows; (c) single-field on 6 bases",
            "thorough": "(b) edges <=3 rows, mutations 3 rows reduced alphabet; (c) single + pairs of fields"}[tier]


# ---------------------------------------------------------------------------------------
def build_tc(spec):
    import numpy as np
    import tskit

    L = spec["L"]
    tc = tskit.TableCollection(1.0)
    tc.sequence_length = L  # the setter does not validate
    for _ in range(spec.get("populations", 0)):
        tc.populations.add_row(metadata=b"p")
    inds = spec.get("individuals", [])
    if inds:
        par = [x for _, ps in inds for x in ps]
        off = [0]
        for _, ps in inds:
            off.append(off[-1] + len(ps))
        tc.individuals.set_columns(
            flags=np.array([i[0] for i in inds], dtype=np.uint32),
            parents=np.array(par, dtype=np.int32), parents_offset=np.array(off, dtype=np.uint64),
            location=np.array([1.5] * len(inds)), location_offset=np.arange(len(inds) + 1, dtype=np.uint64),
            metadata=np.frombuffer(b"i" * len(inds), dtype=np.int8), metadata_offset=np.arange(len(inds) + 1, dtype=np.uint64))
    nodes = spec["nodes"]
    if nodes:
        tc.nodes.set_columns(
            flags=np.array([n[0] for n in nodes], dtype=np.uint32),
            time=np.array([n[1] for n in nodes], dtype=np.float64),
            population=np.array([n[2] for n in nodes], dtype=np.int32),
            individual=np.array([n[3] for n in nodes], dtype=np.int32))
    edges = spec.get("edges", [])
    if edges:
        tc.edges.set_columns(
            left=np.array([e[0] for e in edges], dtype=np.float64),
            right=np.array([e[1] for e in edges], dtype=np.float64),
            parent=np.array([e[2] for e in edges], dtype=np.int32),
            child=np.array([e[3] for e in edges], dtype=np.int32))
    for pos, anc in spec.get("sites", []):
        tc.sites.add_row(pos, anc)
    muts = spec.get("mutations", [])
    if muts:
        der, der_off = tskit.pack_strings([m[2] for m in muts])
        try:
            tc.mutations.set_columns(
                site=np.array([m[0] for m in muts], dtype=np.int32),
                node=np.array([m[1] for m in muts], dtype=np.int32),
                derived_state=der, derived_state_offset=der_off,
                parent=np.array([m[3] for m in muts], dtype=np.int32),
                time=np.array([m[4] for m in muts], dtype=np.float64))
        except Exception as e:  # noqa
            return tc, e
    migs = spec.get("migrations", [])
    if migs:
        try:
            tc.migrations.set_columns(
                left=np.array([m[0] for m in migs], dtype=np.float64),
                right=np.array([m[1] for m in migs], dtype=np.float64),
                node=np.array([m[2] for m in migs], dtype=np.int32),
                source=np.array([m[3] for m in migs], dtype=np.int32),
                dest=np.array([m[4] for m in migs], dtype=np.int32),
                time=np.array([m[5] for m in migs], dtype=np.float64))
        except Exception as e:  # noqa
            return tc, e
    idx = spec.get("index")
    if idx is not None:
        try:
            tc.indexes = tskit.TableCollectionIndexes(
                edge_insertion_order=np.array(idx[0], dtype=np.int32),
                edge_removal_order=np.array(idx[1], dtype=np.int32))
        except Exception as e:  # noqa: wrong-length indexes are refused at assignment
            return tc, e
    return tc, None


def tables_snapshot(tc):
    d = tc.asdict()
    out = []
    for name in ("individuals", "nodes", "edges", "migrations", "sites", "mutations", "populations",
                 "provenances"):
        t = d[name]
        for col in sorted(t):
            v = t[col]
            out.append((name, col, v.tobytes() if hasattr(v, "tobytes") else v))
    out.append(("sequence_length", repr(d["sequence_length"])))
    return out


def spec_json(spec):
    def enc(x):
        if isinstance(x, float):
            if V.is_unknown(x):
                return "unknown"
            if math.isnan(x):
                return "nan"
            if math.isinf(x):
                return "inf" if x > 0 else "-inf"
        if isinstance(x, (list, tuple)):
            return [enc(y) for y in x]
        if isinstance(x, dict):
            return {k: enc(v) for k, v in x.items()}
        return x
    return enc(spec)


def spec_unjson(d):
    def dec(x):
        if x == "unknown":
            return V.unknown_time()
        if x == "nan":
            return math.nan
        if x == "inf":
            return math.inf
        if x == "-inf":
            return -math.inf
        if isinstance(x, list):
            return [dec(y) for y in x]
        if isinstance(x, dict):
            return {k: dec(v) for k, v in x.items()}
        return x
    out = dec(d)
    for k in ("nodes", "edges", "sites", "mutations", "migrations"):
        if k in out:
            out[k] = [tuple(r) for r in out[k]]
    if "individuals" in out:
        out["individuals"] = [(r[0], tuple(r[1])) for r in out["individuals"]]
    return out


def judge(spec, acc, fam, via_load=False, nontrivial=None):
    """Run the gate on the spec and compare with the reference verdict."""
    import tskit

    ver, reason = V.verdict(spec)
    tc, build_err = build_tc(spec)
    case = {"fam": fam, "spec": spec_json(spec)}
    acc.enter(case)
    nt = (ver == V.INVALID or bool(spec.get("edges"))) if nontrivial is None else nontrivial
    acc.ev(1, nt)
    acc.count("verdict_" + ver)
    if build_err is not None:
        # index of the wrong length cannot even be attached: that is a rejection
        if ver == V.VALID:
            acc.fail(fam + ":valid-rejected-at-build", repr(build_err), case)
        return
    before = tables_snapshot(tc)
    err = None
    ts = None
    try:
        ts = tc.tree_sequence()
    except Exception as e:  # noqa
        err = e
    after = tables_snapshot(tc)
    if err is not None and after != before:
        diff = [a[:2] for a, b in zip(after, before) if a != b]
        acc.fail(fam + ":rejected-but-modified", f"tables changed by a rejected tree_sequence(): {diff}", case)
    if err is None and after != before:
        diff = [a[:2] for a, b in zip(after, before) if a != b]
        acc.fail(fam + ":accepted-but-modified", f"table rows changed by tree_sequence(): {diff}", case)
    if ver == V.VALID and err is not None:
        acc.fail(fam + ":valid-rejected", f"reference says VALID but tree_sequence() raised {err!r}", case)
    elif ver == V.INVALID and err is None:
        acc.fail(fam + ":invalid-accepted:" + reason.split(" (")[0],
                 f"reference says INVALID ({reason}) but tree_sequence() succeeded", case)
    elif ver == V.INVALID and not isinstance(err, (tskit.LibraryError, ValueError, TypeError, OverflowError)):
        acc.fail(fam + ":wrong-exception", repr(err), case)
    if spec.get("index") is None and spec.get("file_index") is None and not fam.endswith("+idx") and spec.get("edges"):
        # the same rows with a ready-made index attached (as after sort()/build_index() followed by an edit
        # of another table): tree_sequence() then skips its own build_index(), and every requirement must
        # still be enforced by the gate itself
        try:
            e = spec["edges"]
            tm = [spec["nodes"][x[2]][1] for x in e]
            I = sorted(range(len(e)), key=lambda k: (e[k][0], tm[k], e[k][2], e[k][3]))
            O = sorted(range(len(e)), key=lambda k: (e[k][1], -tm[k], -e[k][2], -e[k][3]))
        except Exception:  # noqa: references out of range / unorderable values: no index to compute
            I = None
        if I is not None:
            judge(dict(spec, index=(I, O)), acc, fam + "+idx", nontrivial=nt)
            acc.enter(case)
    if spec.get("index") is not None and build_err is None:
        # an explicit build_index() replaces whatever index was there (stale, user-supplied): afterwards the
        # verdict is that of the rows alone
        ver2, reason2 = V.verdict({k: v for k, v in spec.items() if k != "index"})
        tc2 = tc.copy()
        err2 = None
        try:
            tc2.build_index()
            tc2.tree_sequence()
        except Exception as e:  # noqa
            err2 = e
        if ver2 == V.VALID and err2 is not None:
            acc.fail(fam + ":valid-rejected-after-build_index", f"rows are VALID; after an explicit build_index() "
                     f"tree_sequence() raised {err2!r}", case)
        elif ver2 == V.INVALID and err2 is None:
            acc.fail(fam + ":invalid-accepted-after-build_index", f"INVALID ({reason2}) but accepted after build_index()", case)
    if via_load:
        import os

        path = f"/dev/shm/verif-c02-{os.getpid()}.trees"
        try:
            tc.dump(path)
        except Exception as e:  # noqa
            acc.count("dump_refused")
            return
        buf = path
        fidx = spec.get("file_index")
        if fidx is not None:
            # index columns exactly as a foreign writer could have left them (the setter refuses
            # wrong lengths, so the file is the only way in)
            import kastore
            import numpy as np

            with kastore.load(path) as store:
                data = {k: np.array(v) for k, v in store.items()}
            for key, col in zip(("indexes/edge_insertion_order", "indexes/edge_removal_order"), fidx):
                data.pop(key, None)
                if col is not None:
                    data[key] = np.array(col, dtype=np.int32)
            kastore.dump(data, path)
            E = len(spec.get("edges", []))
            if ver != V.VALID:
                return
            if fidx[0] is None or fidx[1] is None or len(fidx[0]) != E or len(fidx[1]) != E:
                ver, reason = V.INVALID, "index columns in the file missing or not one entry per edge"
            else:
                ver, reason = V.verdict(dict(spec, index=(list(fidx[0]), list(fidx[1]))))
            ts = None
            acc.count("file_index_verdict_" + ver)
        # every way of loading the whole object gives the same verdict (the lazy reader used with
        # skip_reference_sequence must apply the same checks to the tables and the index it reads)
        for lkw in ({}, {"skip_reference_sequence": True}):
            tagl = "" if not lkw else ":skip_reference_sequence"
            lerr = None
            try:
                ts2 = tskit.load(buf, **lkw)
            except Exception as e:  # noqa
                lerr = e
            if ver == V.VALID and lerr is not None:
                acc.fail(fam + ":valid-rejected-by-load" + tagl, repr(lerr), case)
            elif ver == V.INVALID and lerr is None:
                acc.fail(fam + ":invalid-loaded" + tagl + ":" + reason.split(" (")[0],
                         f"INVALID ({reason}) but tskit.load({lkw}) succeeded", case)
            elif ver == V.VALID and ts is not None:
                if not ts2.tables.equals(ts.tables, ignore_provenance=True):
                    acc.fail(fam + ":load-differs" + tagl, "loaded tree sequence differs from tree_sequence()", case)
    if ver == V.VALID and ts is not None and fam.startswith("a"):
        # trees must be the reference ones
        from ..ref.trees import RefTS

        rts = RefTS([n[1] for n in spec["nodes"]], [n[0] & 1 for n in spec["nodes"]], spec["edges"], spec["L"])
        ivs = rts.intervals()
        if ts.num_trees != len(ivs):
            acc.fail(fam + ":trees", "num_trees", case)
        else:
            for tree, (l, r) in zip(ts.trees(), ivs):
                if tree.parent_array.tolist()[:-1] != rts.parent_map(l):
                    acc.fail(fam + ":trees", f"parents at {l}", case)
                    break


# ---------------------------------------------------------------------------------------
def member_spec(m, with_extras=True, times_mode="unknown", index=False):
    spec = {"L": m.L, "populations": 2 if with_extras else 0}
    spec["individuals"] = [(0, ()), (1, (0, -1))] if with_extras else []
    nodes = []
    for u in range(m.N):
        nodes.append((1 if m.flags[u] else 0, m.times[u], (u % 3) - 1 if with_extras else -1,
                      (u % 3) - 1 if with_extras else -1))
    spec["nodes"] = nodes
    spec["edges"] = m.edges()
    sites, muts = [], []
    if with_extras and m.N:
        import tskit

        tc = m.tables()
        pos = MU.site_positions(m)
        placement = [(pos[0], "0", [(m.N - 1, "1"), (0, "0")])]
        if len(pos) > 1:
            placement.append((pos[-1], "A", [(0, "T")]))
        MU.add_sites(tc, m, placement, times_mode)
        for s in tc.sites:
            sites.append((s.position, s.ancestral_state))
        for mu in tc.mutations:
            muts.append((mu.site, mu.node, mu.derived_state, mu.parent, mu.time))
    spec["sites"], spec["mutations"] = sites, muts
    migs = []
    if with_extras and m.N:
        migs = [(0.0, m.L, 0, 0, 1, m.times[0] + 0.25), (0.0, m.coords[1], m.N - 1, 1, 0, m.times[-1] + 0.5)]
        migs.sort(key=lambda r: r[5])
    spec["migrations"] = migs
    if index:
        e = spec["edges"]
        tm = [spec["nodes"][x[2]][1] for x in e]
        I = sorted(range(len(e)), key=lambda k: (e[k][0], tm[k], e[k][2], e[k][3]))
        O = sorted(range(len(e)), key=lambda k: (e[k][1], -tm[k], -e[k][2], -e[k][3]))
        spec["index"] = (I, O)
    return spec


WEAK3 = U.weak_orders(3)


def edge_rows():
    return [(float(l), float(r), p, c) for l in (0, 1, 2) for r in (0, 1, 2) for p in (0, 1, 2) for c in (0, 1, 2)]


def base_two_trees():
    # nodes 0,1 (time 0, samples) under node 2 (time 1); node 1 has a parent only on [0,1)
    return {"L": 2.0, "nodes": [(1, 0.0, -1, -1), (1, 0.0, -1, -1), (0, 1.0, -1, -1)],
            "edges": [(0.0, 2.0, 2, 0), (0.0, 1.0, 2, 1)], "sites": [], "mutations": [], "migrations": [],
            "individuals": [], "populations": 0}


SITE_POS = [-1.0, 0.0, 0.5, 1.0, 2.0, math.nan]
MUT_TIMES = [V.unknown_time(), math.nan, math.inf, -0.5, 0.0, 0.5, 1.0, 1.5]
MUT_ROWS_FULL = [(s, u, "1", par, t) for s in (-1, 0, 1, 2) for u in (-1, 0, 1, 2, 3) for par in (-2, -1, 0, 1, 2)
                 for t in MUT_TIMES]
MUT_ROWS_SMALL = [(s, u, "1", par, t) for s in (0, 1) for u in (0, 1, 2) for par in (-1, 0, 1, 2)
                  for t in (V.unknown_time(), 0.0, 0.5, 1.5)]


# (c) alphabets ------------------------------------------------------------------------
def id_alphabet(n):
    return sorted({-2, -1, 0, max(n - 1, 0), n, n + 1, 2 ** 31 - 1})


def coord_alphabet(spec):
    L = spec["L"]
    pts = {-1.0, 0.0, L, L + 1, math.nan, math.inf, -math.inf, L / 2}
    for e in spec.get("edges", []):
        pts.add(e[0])
        pts.add(e[1])
    return sorted(pts, key=lambda x: (math.isnan(x), x))


def time_alphabet(spec):
    ts = {n[1] for n in spec["nodes"]}
    out = {math.nan, V.unknown_time(), math.inf, -math.inf}
    for t in ts:
        out.update({t, t + 0.25, t - 0.25})
    return sorted(out, key=lambda x: (math.isnan(x), repr(x)))


def departures(spec):
    """Yield (description, new spec) for every single-field substitution, row permutation,
    duplication and deletion."""
    nn, ne = len(spec["nodes"]), len(spec["edges"])
    ns, nm = len(spec["sites"]), len(spec["mutations"])
    nind, npop = len(spec["individuals"]), spec["populations"]

    def sub(table, j, k, val):
        new = dict(spec)
        rows = list(spec[table])
        row = list(rows[j])
        row[k] = val
        rows[j] = tuple(row)
        new[table] = rows
        return new

    for j in range(nn):
        for v in time_alphabet(spec):
            yield f"nodes[{j}].time", sub("nodes", j, 1, v)
        for v in id_alphabet(npop):
            yield f"nodes[{j}].population", sub("nodes", j, 2, v)
        for v in id_alphabet(nind):
            yield f"nodes[{j}].individual", sub("nodes", j, 3, v)
        yield f"nodes[{j}].flags", sub("nodes", j, 0, spec["nodes"][j][0] ^ 1)
    for j in range(nind):
        for v in id_alphabet(nind):
            yield f"individuals[{j}].parents", sub("individuals", j, 1, (v,))
    for j in range(ne):
        for k in (0, 1):
            for v in coord_alphabet(spec):
                yield f"edges[{j}].{'left' if k == 0 else 'right'}", sub("edges", j, k, v)
        for k in (2, 3):
            for v in id_alphabet(nn):
                yield f"edges[{j}].{'parent' if k == 2 else 'child'}", sub("edges", j, k, v)
    for j in range(ns):
        for v in coord_alphabet(spec) + [s[0] for s in spec["sites"]]:
            yield f"sites[{j}].position", sub("sites", j, 0, v)
    for j in range(nm):
        for v in id_alphabet(ns):
            yield f"mutations[{j}].site", sub("mutations", j, 0, v)
        for v in id_alphabet(nn):
            yield f"mutations[{j}].node", sub("mutations", j, 1, v)
        for v in id_alphabet(nm):
            yield f"mutations[{j}].parent", sub("mutations", j, 3, v)
        for v in time_alphabet(spec):
            yield f"mutations[{j}].time", sub("mutations", j, 4, v)
    for j in range(len(spec["migrations"])):
        for k in (0, 1):
            for v in coord_alphabet(spec):
                yield f"migrations[{j}].coord", sub("migrations", j, k, v)
        for v in id_alphabet(nn):
            yield f"migrations[{j}].node", sub("migrations", j, 2, v)
        for k in (3, 4):
            for v in id_alphabet(npop):
                yield f"migrations[{j}].pop", sub("migrations", j, k, v)
        for v in time_alphabet(spec):
            yield f"migrations[{j}].time", sub("migrations", j, 5, v)
    for L in (0.0, -1.0, math.nan, math.inf, max([e[1] for e in spec["edges"]] + [0.5]) - 0.25):
        new = dict(spec)
        new["L"] = L
        yield "sequence_length", new
    # row permutations / duplication / deletion of the ordered tables
    for table in ("edges", "sites", "migrations"):
        rows = spec[table]
        if 2 <= len(rows) <= 4:
            for perm in itertools.permutations(range(len(rows))):
                if list(perm) == list(range(len(rows))):
                    continue
                new = dict(spec)
                new[table] = [rows[i] for i in perm]
                if table == "sites":
                    inv = {old: newi for newi, old in enumerate(perm)}
                    new["mutations"] = [(inv[mu[0]],) + tuple(mu[1:]) for mu in spec["mutations"]]
                yield f"{table} permuted", new
        for j in range(len(rows)):
            new = dict(spec)
            new[table] = rows[:j + 1] + rows[j:]
            if table == "sites":
                new["mutations"] = [((mu[0] + 1) if mu[0] > j else mu[0],) + tuple(mu[1:]) for mu in spec["mutations"]]
            yield f"{table}[{j}] duplicated", new
    rows = spec["mutations"]
    if 2 <= len(rows) <= 4:
        for perm in itertools.permutations(range(len(rows))):
            if list(perm) == list(range(len(rows))):
                continue
            inv = {old: newi for newi, old in enumerate(perm)}
            new = dict(spec)
            new["mutations"] = [(rows[i][0], rows[i][1], rows[i][2], inv[rows[i][3]] if rows[i][3] >= 0 else -1, rows[i][4])
                                for i in perm]
            yield "mutations permuted", new
    # user supplied indexes
    e = spec["edges"]
    if 1 <= len(e) <= 3:
        for I in itertools.product(range(-1, len(e) + 1), repeat=len(e)):
            for O in (tuple(range(len(e))), tuple(reversed(range(len(e)))), I):
                new = dict(spec)
                new["index"] = (list(I), list(O))
                yield "index", new
        # the two index arrays are checked separately: every removal order with the insertion order valid
        ident = list(range(len(e)))
        for O in itertools.product(list(range(-1, len(e) + 1)) + [2 ** 31 - 1], repeat=len(e)):
            new = dict(spec)
            new["index"] = (ident, list(O))
            yield "index-removal", new
        for I in itertools.permutations(range(len(e))):
            for O in itertools.permutations(range(len(e))):
                new = dict(spec)
                new["index"] = (list(I), list(O))
                yield "index-perm", new
        new = dict(spec)
        new["index"] = ([0] * (len(e) + 1), [0] * (len(e) + 1))
        yield "index-wrong-length", new
    # index columns of a stored file (foreign writer): lengths around the number of edges, one column
    # missing, columns of unequal length, surplus entries of every kind
    E = len(e)
    if E >= 1 and V.verdict(spec)[0] == V.VALID:
        tc0, err0 = build_tc(spec)
        if err0 is None:
            tc0.build_index()
            I0 = tc0.indexes.edge_insertion_order.tolist()
            O0 = tc0.indexes.edge_removal_order.tolist()
            variants = [(I0, O0), (I0[:-1], O0[:-1]), ([], []), (None, None), (I0, None), (None, O0),
                        (I0 + [0], O0), (I0, O0 + [0]), (I0[:-1], O0), (O0, I0)]
            for extra in (0, E - 1, E, -1, 2 ** 31 - 1):
                variants.append((I0 + [extra], O0 + [extra]))
                variants.append((I0 + [extra, extra], O0 + [extra, extra]))
                variants.append(([extra] + I0, [extra] + O0))
            for I, O in variants:
                new = dict(spec)
                new["file_index"] = (I, O)
                yield "fileindex", new


def bases():
    out = []
    for (n, g, idx) in ((3, 2, 200), (3, 2, 137), (4, 2, 5000), (4, 1, 300), (3, 3, 1000), (2, 2, 30)):
        ms = list(U.enumerate_members(n, g))
        m = ms[idx % len(ms)]
        out.append(member_spec(m, True, "known" if idx % 2 else "unknown"))
    out.append(base_two_trees())
    empty = {"L": 1.0, "nodes": [], "edges": [], "sites": [], "mutations": [], "migrations": [],
             "individuals": [], "populations": 0}
    out.append(empty)
    nodes_only = dict(empty, nodes=[(1, 0.0, -1, -1), (0, 1.0, -1, -1)], sites=[(0.0, "0"), (0.5, "")],
                      mutations=[(0, 0, "1", -1, V.unknown_time()), (1, 1, "", -1, V.unknown_time())])
    out.append(nodes_only)
    return out


# ---------------------------------------------------------------------------------------
def shards(tier, seed):
    specs = []
    # (a)
    for n, g in ((0, 1), (1, 1), (2, 1), (2, 2), (3, 1), (3, 2), (4, 1)):
        cnt = U.count_members(n, g)
        k = max(1, cnt // 100)
        for i in range(k):
            specs.append(dict(fam="a", b=dict(N=n, G=g), k=i, n=k))
    k = 48 if tier == "quick" else 96
    for i in range(k):
        specs.append(dict(fam="a", b=dict(N=4, G=2, times="id"), k=i, n=k, lite=tier == "quick"))
    if tier == "thorough":
        for i in range(32):
            specs.append(dict(fam="a", b=dict(N=3, G=2, times="weak"), k=i, n=32))
    # (b) edges
    nrows = 2 if tier == "quick" else 3
    nsh = 40 if tier == "quick" else 13 * 81
    for i in range(nsh):
        specs.append(dict(fam="b-edges", rows=nrows, k=i, n=nsh))
    specs.append(dict(fam="b-sites"))
    specs.append(dict(fam="b-migs"))
    specs.append(dict(fam="b-nodes"))
    specs.append(dict(fam="b-zero"))
    nsh = 40
    for i in range(nsh):
        specs.append(dict(fam="b-muts", rows=2, k=i, n=nsh, alphabet="full"))
    if tier == "thorough":
        for i in range(60):
            specs.append(dict(fam="b-muts", rows=3, k=i, n=60, alphabet="small"))
    # (c)
    nb = len(bases())
    for b in range(nb):
        for i in range(8):
            specs.append(dict(fam="c", base=b, k=i, n=8, pairs=False))
    if tier == "thorough":
        for b in (0, nb - 1):
            for i in range(200):
                specs.append(dict(fam="c", base=b, k=i, n=200, pairs=True))
    return specs


def run_shard(spec):
    acc = Acc()
    fam = spec["fam"]
    if fam == "a":
        lite = spec.get("lite", False)
        for m in U.shard(U.enumerate_members(**spec["b"]), spec["k"], spec["n"]):
            if lite and sum(m.flags) not in (0, m.N):
                continue
            for extras in (True, False):
                for tm in (("unknown", "known") if extras else ("unknown",)):
                    for idx in (False, True):
                        s = member_spec(m, extras, tm, idx)
                        judge(s, acc, "a", via_load=idx)
        acc.sample({"fam": "a", "last": spec_json(s)} if "s" in dir() else {"fam": "a"})
    elif fam == "b-edges":
        rows = edge_rows()
        tables = itertools.chain.from_iterable(itertools.product(rows, repeat=k) for k in range(spec["rows"] + 1))
        for tab in U.shard(tables, spec["k"], spec["n"]):
            for ranks in WEAK3:
                s = {"L": 2.0, "nodes": [(1, float(r), -1, -1) for r in ranks], "edges": list(tab),
                     "sites": [], "mutations": [], "migrations": [], "individuals": [], "populations": 0}
                judge(s, acc, "b-edges")
        acc.sample({"fam": "b-edges", "last": spec_json(s)})
    elif fam == "b-sites":
        base = base_two_trees()
        for k in (0, 1, 2, 3):
            if k == 3:
                combos = itertools.product([0.0, 0.5, 1.0, 2.0], repeat=3)
            else:
                combos = itertools.product(SITE_POS, repeat=k)
            for combo in combos:
                s = dict(base)
                s["sites"] = [(x, "0") for x in combo]
                judge(s, acc, "b-sites", nontrivial=True)
        acc.sample({"fam": "b-sites", "last": spec_json(s)})
    elif fam == "b-migs":
        # every single migration row over full coordinate / reference alphabets (all FIELD COMBINATIONS of one
        # row, so multi-field departures inside a row are covered), and all pairs of rows over a reduced alphabet
        base = base_two_trees()
        base["populations"] = 2
        L = base["L"]
        coords = [-1.0, 0.0, 1.0, L, L + 1, math.nan, math.inf]
        for l in coords:
            for r in coords:
                for node in (-1, 0, 3):
                    for src in (-1, 0, 2):
                        for dst in (0, 2):
                            for t in (0.5, math.nan):
                                s = dict(base)
                                s["migrations"] = [(l, r, node, src, dst, t)]
                                judge(s, acc, "b-migs", nontrivial=True)
        small = [0.0, 1.0, L, L + 1]
        rows = [(l, r, 0, 0, 1, t) for l in small for r in small for t in (0.25, 0.75)]
        for a in rows:
            for b in rows:
                s = dict(base)
                s["migrations"] = [a, b]
                judge(s, acc, "b-migs", nontrivial=True)
        acc.sample({"fam": "b-migs", "last": spec_json(s)})
    elif fam == "b-nodes":
        base = base_two_trees()
        base["populations"] = 1
        base["individuals"] = [(0, ())]
        for t in (0.0, math.nan, math.inf, -math.inf, -1.0):
            for pop in (-2, -1, 0, 1):
                for ind in (-2, -1, 0, 1):
                    for j in (0, 2):
                        s = dict(base)
                        nodes = list(base["nodes"])
                        nodes[j] = (nodes[j][0], t if j == 0 else 1.0 + (0 if t != t else 0), pop, ind)
                        if j == 2 and t == t and abs(t) != math.inf:
                            nodes[j] = (nodes[j][0], max(t, 1.0), pop, ind)
                        elif j == 2:
                            nodes[j] = (nodes[j][0], t, pop, ind)
                        s["nodes"] = nodes
                        judge(s, acc, "b-nodes", nontrivial=True)
        for parents in itertools.product((-2, -1, 0, 1, 2), repeat=2):
            s = dict(base)
            s["individuals"] = [(0, (parents[0],)), (0, (parents[1], -1))]
            judge(s, acc, "b-nodes", nontrivial=True)
            # a reference placed AFTER a NULL entry of the same row, and rows of three
            s = dict(base)
            s["individuals"] = [(0, (-1, parents[0])), (0, (-1, -1, parents[1]))]
            judge(s, acc, "b-nodes", nontrivial=True)
        acc.sample({"fam": "b-nodes", "last": spec_json(s)})
    elif fam == "b-zero":
        # references into a table that has ZERO rows (or exactly one): every id is then out of range except
        # NULL where NULL is allowed; "num_rows - 1" arithmetic has nothing to stand on
        ids = (-2, -1, 0, 1, 2 ** 31 - 1)
        for nn in (0, 1):
            nodes = [(1, 0.0, -1, -1)] * nn
            empty = {"L": 2.0, "nodes": nodes, "edges": [], "sites": [], "mutations": [], "migrations": [],
                     "individuals": [], "populations": 0}
            for u in ids:
                for par in (-1, 0):
                    for t in (V.unknown_time(), 0.5):
                        s = dict(empty, sites=[(0.5, "0")], mutations=[(0, u, "1", par, t)])
                        judge(s, acc, "b-zero", via_load=True, nontrivial=True)
                s = dict(empty, populations=1, migrations=[(0.0, 2.0, u, 0, 0, 0.5)])
                judge(s, acc, "b-zero", nontrivial=True)
                for (l, r) in ((0.0, 2.0), (0.0, 1.0)):
                    for c in ids:
                        s = dict(empty, edges=[(l, r, u, c)])
                        judge(s, acc, "b-zero", nontrivial=True)
            for site in ids:
                s = dict(empty, nodes=[(1, 0.0, -1, -1)], mutations=[(site, 0, "1", -1, V.unknown_time())])
                judge(s, acc, "b-zero", via_load=True, nontrivial=True)
            for pop in ids:
                for npop in (0, 1):
                    s = dict(empty, nodes=[(1, 0.0, pop, -1)], populations=npop)
                    judge(s, acc, "b-zero", nontrivial=True)
                    s = dict(empty, nodes=[(1, 0.0, -1, -1)], populations=npop, migrations=[(0.0, 2.0, 0, pop, 0, 0.5)])
                    judge(s, acc, "b-zero", nontrivial=True)
                    s = dict(empty, nodes=[(1, 0.0, -1, -1)], populations=npop, migrations=[(0.0, 2.0, 0, 0, pop, 0.5)])
                    judge(s, acc, "b-zero", nontrivial=True)
            for ind in ids:
                for ninds in (0, 1):
                    s = dict(empty, nodes=[(1, 0.0, -1, ind)], individuals=[(0, ())] * ninds)
                    judge(s, acc, "b-zero", nontrivial=True)
                    s = dict(empty, individuals=[(0, (ind,))] * max(ninds, 1))
                    judge(s, acc, "b-zero", nontrivial=True)
        acc.sample({"fam": "b-zero", "last": spec_json(s)})
    elif fam == "b-muts":
        base = base_two_trees()
        base["sites"] = [(0.5, "0"), (1.0, "0")]
        rows = MUT_ROWS_FULL if spec["alphabet"] == "full" else MUT_ROWS_SMALL
        ks = range(spec["rows"] + 1) if spec["alphabet"] == "full" else [spec["rows"]]
        tables = itertools.chain.from_iterable(itertools.product(rows, repeat=k) for k in ks)
        for tab in U.shard(tables, spec["k"], spec["n"]):
            s = dict(base)
            s["mutations"] = list(tab)
            judge(s, acc, "b-muts", nontrivial=True)
        acc.sample({"fam": "b-muts", "last": spec_json(s)})
    elif fam == "c":
        base = bases()[spec["base"]]
        if V.verdict(base)[0] != V.VALID:
            acc.fail("c:base-not-valid", str(V.verdict(base)), {"fam": "c-base", "spec": spec_json(base)})
        deps = departures(base)
        if not spec["pairs"]:
            for desc, s in U.shard(deps, spec["k"], spec["n"]):
                judge(s, acc, "c:" + desc.split("[")[0].split(" ")[0] + "." + desc.split(".")[-1].split(" ")[-1], via_load=True)
        else:
            singles = [(d, s) for d, s in deps if not d.startswith(("index", "fileindex")) and "permuted" not in d]
            pairs = itertools.combinations(range(len(singles)), 2)
            for i, j in U.shard(pairs, spec["k"], spec["n"]):
                d1, s1 = singles[i]
                d2, s2 = singles[j]
                if d1 == d2:
                    continue
                # apply the second departure on top of the first when they touch different fields
                new = dict(s1)
                changed = [k for k in s2 if s2[k] != base.get(k)]
                if len(changed) != 1 or any(s1.get(k) != base.get(k) for k in changed):
                    continue
                new[changed[0]] = s2[changed[0]]
                judge(new, acc, "c2")
        acc.sample({"fam": "c", "base": spec["base"]})
    return acc.result()


def replay(case):
    acc = Acc()
    spec = spec_unjson(case["spec"])
    fam = case["fam"]
    judge(spec, acc, fam, via_load=fam.startswith("c:") or fam in ("a", "b-zero"))
    return acc.failures
