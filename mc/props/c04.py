"""C04  simplify preserves the sample genealogy and the sample genotypes exactly.

Exhaustive input-space exploration: every member of the small-scope universe, decorated
with individuals, populations, node metadata, sites and mutations, x every list of chosen
samples (any nodes, any order) x simplify option combinations; the real
TableCollection.simplify / TreeSequence.simplify output is compared, position by position
and table by table, with the per-position reference model in mc/ref/simplify.py."""
import itertools
import math

from .. import muts as MU
from .. import universe as U
from ..acc import Acc
from ..ref import simplify as RS
from ..ref.trees import NULL, RefTS

ID = "C04"
LEVEL = "exploration"
RULE = ("every universe member (all parent choices per node per cell) decorated with individuals/"
        "populations/metadata/sites/mutations x every subset of nodes as the sample list (sorted; reversed "
        "and rotated orders on a reduced option set; samples=None over every flag subset) x option "
        "combinations (quick: defaults, every single option, every pair; thorough: full 384-way product); "
        "one evaluation = one simplify call fully compared with the reference; non-trivial = the member has "
        ">=1 edge, >=1 chosen sample and the call changed the tables (output differs from input)")
ASSUMPTIONS = [
    "reference model mc/ref/simplify.py: per-position definition derived from the simplify docstrings",
    "keep_unary[_in_individuals] without keep_input_roots: unary nodes above the topmost sample/coalescence "
    "may be kept (keep_unary text) or dropped (keep_input_roots=False text); both accepted per position",
    "a mutation is part of the retained history iff its node lies on a chosen-sample-to-root path at the "
    "site; it is then carried by the nearest retained node at or below that node",
    "order of non-sample output nodes, of output mutations within a site and of filtered individual/"
    "population ids is not documented and not asserted (only consistency of the remapping)",
    "reduce_to_site_topology: topology compared at input site positions only",
    "adjacent output edges with equal parent and child count as redundant information (C doc: "
    "'Simplify the tables to remove redundant information')",
    "'simplifying again changes nothing' is not re-asserted on a case that already failed with "
    "node:unreferenced_kept* or reduce:tree_without_*_site (the second pass removing that residue is a "
    "consequence of the same defect)",
    "individual parents that point at a removed individual may become NULL or be dropped",
]

IND_PAT = {"A": [0, -1, 1, 1, 2, 0], "B": [-1, 2, 0, -1, 0, 2]}
POP_PAT = {"A": [1, -1, 0, 1, 0, 2], "B": [2, 2, -1, 0, 2, 1]}
STACK_STATES = ["1", "2", "", "AA", "0", "T"]

# decoration name -> (individual/population pattern or None, site pattern, mutation times)
DECOS = {
    "A-full": ("A", "full", "unknown"),
    "B-full": ("B", "full", "known"),
    "A-midlast": ("A", "midlast", "unknown"),
    "B-bps": ("B", "bps", "known"),
    "A-zeromid": ("A", "zeromid", "unknown"),
    "A-nosites": ("A", "none", "unknown"),
    "N-full": (None, "full", "unknown"),
}

TOGGLES = [
    ("keep_unary", True), ("keep_unary_in_individuals", True), ("keep_input_roots", True),
    ("filter_nodes", False), ("filter_sites", False), ("filter_individuals", False),
    ("filter_populations", False), ("update_sample_flags", False),
    ("reduce_to_site_topology", True),
]


# ----------------------------------------------------------------------------------
# option plans
# ----------------------------------------------------------------------------------
def _ok(opts):
    return not (opts.get("keep_unary") and opts.get("keep_unary_in_individuals"))


def combos_singles():
    return [{}] + [{k: v} for k, v in TOGGLES]


def combos_pairs():
    out = combos_singles()
    for (a, va), (b, vb) in itertools.combinations(TOGGLES, 2):
        o = {a: va, b: vb}
        if _ok(o):
            out.append(o)
    return out


def combos_full():
    out = []
    for bits in itertools.product((False, True), repeat=len(TOGGLES)):
        o = {k: v for (k, v), b in zip(TOGGLES, bits) if b}
        if _ok(o):
            out.append(o)
    return out


def combos_core():
    """Defaults, every single option, and the pairs of options that interact in the
    documentation (topology options with each other and with filter_nodes; each filter
    with the option that creates its unreferenced rows)."""
    pairs = [
        ("keep_unary", "keep_input_roots"), ("keep_unary_in_individuals", "keep_input_roots"),
        ("keep_unary", "filter_nodes"), ("keep_unary_in_individuals", "filter_nodes"),
        ("keep_input_roots", "filter_nodes"), ("keep_unary_in_individuals", "filter_individuals"),
        ("filter_nodes", "update_sample_flags"), ("filter_nodes", "filter_individuals"),
        ("filter_nodes", "filter_populations"), ("filter_nodes", "filter_sites"),
        ("keep_unary", "reduce_to_site_topology"), ("keep_unary_in_individuals", "reduce_to_site_topology"),
        ("keep_input_roots", "reduce_to_site_topology"), ("filter_nodes", "reduce_to_site_topology"),
        ("filter_sites", "reduce_to_site_topology"),
    ]
    tv = dict(TOGGLES)
    return combos_singles() + [{a: tv[a], b: tv[b]} for a, b in pairs]


def combos_perm():
    """Reduced option set for permuted sample orders (order only affects id allocation)."""
    return [{}, {"keep_unary": True}, {"keep_input_roots": True}, {"filter_nodes": False},
            {"update_sample_flags": False}, {"keep_unary": True, "keep_input_roots": True},
            {"reduce_to_site_topology": True}]


def combos_default():
    return [{}, {"keep_unary": True}, {"filter_nodes": False}, {"update_sample_flags": False}]


_RTS_ZEROMID = {"reduce_to_site_topology", "filter_sites", "keep_unary", "keep_unary_in_individuals",
                "keep_input_roots"}


def decos_for(opts, plan, perm=False):
    """Which decorations an option combination is run on."""
    if opts.get("reduce_to_site_topology"):
        if perm:
            return ["A-midlast"]
        if plan == "light":
            return ["A-midlast", "B-bps"]
        d = ["A-midlast", "B-bps"]
        if set(opts) <= _RTS_ZEROMID:
            d.append("A-zeromid")
        if len(opts) == 1:
            d += ["A-nosites", "A-full"]
        return d
    if plan == "light" or perm:
        return ["A-full"]
    d = ["A-full"]
    if any(k in opts for k in ("keep_unary_in_individuals", "filter_individuals",
                               "filter_populations", "filter_sites")) or not opts:
        d.append("B-full")
    if not opts:
        d.append("N-full")
    return d


PLANS = {
    # name: (sorted-list combos, permuted-list combos, deco plan, default-samples combos)
    "pairs": (combos_pairs, combos_perm, "rich", combos_singles),
    "core": (combos_core, combos_perm, "rich", combos_default),
    "singles": (combos_singles, combos_perm, "light", combos_default),
    "full": (combos_full, combos_perm, "rich", combos_singles),
    # sorted sample lists only (no permuted orders, no samples=None sweep)
    "sorted-singles": (combos_singles, lambda: [], "light", lambda: []),
}


def evals_per_member(n, plan):
    """Number of simplify evaluations check_member makes for an n-node member."""
    sc, pc, dp, dc = PLANS[plan]
    sl, pl = sample_lists(n)
    tot = len(sl) * sum(len(decos_for(o, dp)) for o in sc())
    tot += len(pl) * sum(len(decos_for(o, dp, True)) for o in pc())
    tot += (2 ** n) * len(dc()) + 2 * len(combos_singles()) + 1
    return tot


def sample_lists(n):
    """(sorted subsets incl. the empty list, permuted variants)."""
    sorted_lists = []
    perms = []
    for k in range(0, n + 1):
        for sub in itertools.combinations(range(n), k):
            sub = list(sub)
            sorted_lists.append(sub)
            if k >= 2:
                perms.append(sub[::-1])
            if k >= 3:
                perms.append(sub[1:] + sub[:1])
    return sorted_lists, perms


# ----------------------------------------------------------------------------------
# decorated input tables
# ----------------------------------------------------------------------------------
def site_placement(m, pattern):
    c = m.coords
    n = m.N
    out = []
    if pattern == "none" or n == 0:
        return out
    if m.grid == "ulp":
        pattern = "bps"  # a one-ulp cell has no interior point to put a site on
    if pattern == "full":
        for i in range(m.G):
            w = c[i + 1] - c[i]
            d = n + 3
            out.append((c[i], "0", [(u, STACK_STATES[u]) for u in range(n)]))
            for u in range(n):
                out.append((c[i] + w * (u + 1) / d, "0", [(u, "1")]))
            out.append((c[i] + w * (n + 1) / d, "0", []))
            a = (i + 1) % n
            b = (i + 2) % n
            ml = [(a, "1"), (a, "2")]
            if b != a:
                ml.append((b, "3"))
            out.append((c[i] + w * (n + 2) / d, "G", ml))
    elif pattern == "midlast":
        i = m.G - 1
        out.append(((c[i] + c[i + 1]) / 2, "0", [(u, STACK_STATES[u]) for u in range(n)]))
    elif pattern == "bps":
        if m.G == 1:
            out.append((c[0], "0", [(u, STACK_STATES[u]) for u in range(n)]))
        for i in range(1, m.G):
            out.append((c[i], "0", [(u, STACK_STATES[(u + i) % len(STACK_STATES)]) for u in range(n)]))
    elif pattern == "zeromid":
        out.append((c[0], "0", []))
        out.append(((c[0] + c[1]) / 2, "0", [(u, STACK_STATES[u]) for u in range(n)]))
        if m.G >= 2:
            out.append(((c[-2] + c[-1]) / 2, "0", []))
    else:
        raise ValueError(pattern)
    return out


def build_tables(m, deco):
    import tskit

    pat, site_pat, tmode = DECOS[deco]
    tc = tskit.TableCollection(m.L)
    if pat is not None:
        for i in range(3):
            tc.populations.add_row(metadata=b"p%d" % i)
        par = [[1, 2], [-1, 2], [0]]
        for i in range(3):
            tc.individuals.add_row(flags=10 + i, location=[i + 0.5] * i, parents=par[i],
                                   metadata=b"i%d" % i)
    t = m.times
    for u in range(m.N):
        fl = (1 if m.flags[u] else 0) | ((1 << 5) if u % 2 else 0) | ((1 << 20) if u == 2 else 0)
        tc.nodes.add_row(
            flags=fl, time=t[u],
            population=POP_PAT[pat][u] if pat else -1,
            individual=IND_PAT[pat][u] if pat else -1,
            metadata=b"n%d" % u)
    for l, r, p, ch in m.edges():
        tc.edges.add_row(l, r, p, ch)
    MU.add_sites(tc, m, site_placement(m, site_pat),
                 times_mode=MU.UNKNOWN if tmode == "unknown" else "known", metadata=True)
    return tc


def _ragged(col, off):
    b = col.tobytes()
    o = off.tolist()
    return [b[o[i]:o[i + 1]] for i in range(len(o) - 1)]


def _tm(x):
    return x if x == x else "unknown"


class Snap:
    """Plain-Python copy of the tables simplify may touch."""
    __slots__ = ("nodes", "edges", "sites", "muts", "inds", "pops", "L")

    def __init__(self, tc):
        n = tc.nodes
        self.nodes = list(zip(n.flags.tolist(), n.time.tolist(), n.population.tolist(),
                              n.individual.tolist(), _ragged(n.metadata, n.metadata_offset)))
        e = tc.edges
        self.edges = list(zip(e.left.tolist(), e.right.tolist(), e.parent.tolist(),
                              e.child.tolist()))
        s = tc.sites
        self.sites = list(zip(s.position.tolist(),
                              _ragged(s.ancestral_state, s.ancestral_state_offset),
                              _ragged(s.metadata, s.metadata_offset)))
        mt = tc.mutations
        self.muts = list(zip(mt.site.tolist(), mt.node.tolist(), mt.parent.tolist(),
                             [_tm(x) for x in mt.time.tolist()],
                             _ragged(mt.derived_state, mt.derived_state_offset),
                             _ragged(mt.metadata, mt.metadata_offset)))
        iv = tc.individuals
        if iv.num_rows:
            loc = iv.location.tolist()
            lo = iv.location_offset.tolist()
            pa = iv.parents.tolist()
            po = iv.parents_offset.tolist()
            self.inds = list(zip(iv.flags.tolist(),
                                 [tuple(loc[lo[i]:lo[i + 1]]) for i in range(iv.num_rows)],
                                 [tuple(pa[po[i]:po[i + 1]]) for i in range(iv.num_rows)],
                                 _ragged(iv.metadata, iv.metadata_offset)))
        else:
            self.inds = []
        p = tc.populations
        self.pops = _ragged(p.metadata, p.metadata_offset) if p.num_rows else []
        self.L = tc.sequence_length


def parent_map(edges, n, x):
    par = [NULL] * n
    for l, r, p, c in edges:
        if l <= x < r:
            par[c] = p
    return par


def allele(par, muts_on, anc, u):
    """Reference genotype rule (mc/ref/geno.py) for one node, no missing data."""
    v = u
    guard = 0
    while v != NULL:
        st = muts_on.get(v)
        if st is not None:
            return st
        v = par[v]
        guard += 1
        if guard > len(par):
            return "<cycle>"
    return anc


class Ctx:
    """Everything that depends on (member, decoration) only."""

    def __init__(self, m, deco):
        self.m = m
        self.deco = deco
        self.tc = build_tables(m, deco)
        self.snap = Snap(self.tc)
        self.N = m.N
        self.has_ind = [row[3] != NULL for row in self.snap.nodes]
        self.site_pos = [s[0] for s in self.snap.sites]
        self.grid = set(m.coords[:-1]) | set(self.site_pos)
        self._par = {}
        # per input site: dict node -> last listed derived state
        self.muts_on = [dict() for _ in self.snap.sites]
        for s, node, _, _, der, _ in self.snap.muts:
            self.muts_on[s][node] = der
        self._ts = None
        self._geno = {}
        self._var = {}

    def par(self, x):
        p = self._par.get(x)
        if p is None:
            p = self._par[x] = parent_map(self.snap.edges, self.N, x)
        return p

    def variants(self, skey, samples, o, x):
        key = (skey, o["keep_unary"], o["keep_unary_in_individuals"], o["keep_input_roots"], x)
        v = self._var.get(key)
        if v is None:
            v = self._var[key] = RS.genealogy_variants(self.par(x), samples, self.has_ind, o)
        return v

    def ts(self):
        if self._ts is None:
            self._ts = self.tc.tree_sequence()
        return self._ts

    def geno_in(self, u):
        """Alleles of input node u at every input site."""
        g = self._geno.get(u)
        if g is None:
            g = self._geno[u] = [
                allele(self.par(pos), self.muts_on[j], anc, u)
                for j, (pos, anc, _) in enumerate(self.snap.sites)]
        return g


def probes_between(points, L):
    pts = sorted(p for p in points if 0 <= p < L)
    out = []
    for a, b in zip(pts, pts[1:] + [L]):
        out.append(a)
        if b > a:
            mid = a + (b - a) / 2
            if a < mid < b:
                out.append(mid)
    return out


# ----------------------------------------------------------------------------------
# the check of one simplify call
# ----------------------------------------------------------------------------------
def run_simplify(ctx, samples, opts, via_ts=False, as_list=False):
    """A fresh copy of the decorated input tables, simplified in place through the public
    API (TableCollection.simplify), or TreeSequence.simplify(map_nodes=True) if via_ts."""
    import numpy as np

    if via_ts:
        ts2, nm = ctx.ts().simplify(samples, map_nodes=True, record_provenance=False, **opts)
        return ts2.dump_tables(), nm.tolist()
    tc = ctx.ts().dump_tables()
    arg = samples if as_list else np.array(samples, dtype=np.int32)
    nm = tc.simplify(arg, record_provenance=False, **opts)
    return tc, nm.tolist()


# failures after which the "simplify again" comparison is skipped: the first output is
# already known to contain something a second pass removes
UPSTREAM = ("node:unreferenced_kept", "reduce:tree_without_output_site", "reduce:tree_without_input_site",
            "reduce:edges_without_sites")


def check_case(ctx, samples, opts, report, counters=None):
    """Run simplify(samples, **opts) on the decorated member and compare everything with
    the reference.  `samples` is a list of node ids.  Returns True iff the tables changed."""
    o = RS.full_options(opts)
    upstream = [False]

    def fail(key, what):
        if key.startswith(UPSTREAM):
            upstream[0] = True
        report(key, what)

    N = ctx.N
    inp = ctx.snap
    try:
        tc, nm = run_simplify(ctx, samples, opts)
    except Exception as e:  # noqa
        fail("simplify:raised", f"simplify raised {e!r}")
        return False
    out = Snap(tc)
    try:
        tc.tree_sequence()
    except Exception as e:  # noqa
        fail("result:not_loadable", f"simplified tables do not load: {e!r}")
        return False
    if out.L != inp.L:
        fail("result:sequence_length", f"{out.L} != {inp.L}")
    sset = set(samples)
    fn = o["filter_nodes"]
    M = len(out.nodes)

    # ---- node map -----------------------------------------------------------------
    if len(nm) != N:
        fail("nodemap:length", f"node map has length {len(nm)} for {N} input nodes")
        return True
    rev = [NULL] * M
    bad = False
    for u, v in enumerate(nm):
        if v == NULL:
            continue
        if not (0 <= v < M):
            fail("nodemap:out_of_range", f"node_map[{u}] = {v} with {M} output nodes")
            bad = True
        elif rev[v] != NULL:
            fail("nodemap:not_injective", f"input nodes {rev[v]} and {u} both map to {v}")
            bad = True
        else:
            rev[v] = u
    if bad:
        return True
    if NULL in rev:
        fail("nodemap:not_onto", f"output node {rev.index(NULL)} is no input node's image; map {nm}")
        return True
    if fn:
        for k, s in enumerate(samples):
            if nm[s] != k:
                fail("nodemap:sample_order", f"samples[{k}] = {s} became node {nm[s]}; map {nm}")
    else:
        if nm != list(range(N)) or M != N:
            fail("nodemap:not_identity", f"filter_nodes=False but node map is {nm}, {M} output nodes")
            return True

    # ---- node rows ----------------------------------------------------------------
    usf = o["update_sample_flags"]
    pmap, imap = {}, {}
    for v in range(M):
        u = rev[v]
        fl, tm, pop, ind, md = out.nodes[v]
        ifl, itm, ipop, iind, imd = inp.nodes[u]
        efl = RS.expected_flags(ifl, u in sset, usf)
        if fl != efl:
            fail("node:flags", f"input node {u} (flags {ifl}, chosen={u in sset}) has output flags {fl}, "
                 f"expected {efl}")
        if tm != itm:
            fail("node:time", f"input node {u} time {itm} -> {tm}")
        if md != imd:
            fail("node:metadata", f"input node {u} metadata {imd} -> {md}")
        if (pop == NULL) != (ipop == NULL):
            fail("node:population", f"input node {u} population {ipop} -> {pop}")
        elif ipop != NULL:
            if pmap.setdefault(ipop, pop) != pop:
                fail("node:population", f"population {ipop} mapped to both {pmap[ipop]} and {pop}")
        if (ind == NULL) != (iind == NULL):
            fail("node:individual", f"input node {u} individual {iind} -> {ind}")
        elif iind != NULL:
            if imap.setdefault(iind, ind) != ind:
                fail("node:individual", f"individual {iind} mapped to both {imap[iind]} and {ind}")

    # ---- populations --------------------------------------------------------------
    if not o["filter_populations"]:
        if out.pops != inp.pops:
            fail("population:table_altered", f"filter_populations=False but table {inp.pops} -> {out.pops}")
        if any(a != b for a, b in pmap.items()):
            fail("population:ref_altered", f"filter_populations=False but node references remapped {pmap}")
    else:
        if len(set(pmap.values())) != len(pmap) or len(out.pops) != len(pmap):
            fail("population:filter", f"referenced populations {sorted(pmap)} -> output has {len(out.pops)} "
                 f"rows, mapping {pmap}")
        else:
            for a, b in pmap.items():
                if not (0 <= b < len(out.pops)) or out.pops[b] != inp.pops[a]:
                    fail("population:row", f"population {a} -> {b}: row differs")
    # ---- individuals --------------------------------------------------------------
    if not o["filter_individuals"]:
        if out.inds != inp.inds:
            fail("individual:table_altered", f"filter_individuals=False but table {inp.inds} -> {out.inds}")
        if any(a != b for a, b in imap.items()):
            fail("individual:ref_altered", f"filter_individuals=False but node references remapped {imap}")
    else:
        if len(set(imap.values())) != len(imap) or len(out.inds) != len(imap):
            fail("individual:filter", f"referenced individuals {sorted(imap)} -> output has {len(out.inds)} "
                 f"rows, mapping {imap}")
        else:
            for a, b in imap.items():
                if not (0 <= b < len(out.inds)):
                    fail("individual:row", f"individual {a} -> {b} out of range")
                    continue
                ifl, iloc, ipar, imd = inp.inds[a]
                ofl, oloc, opar, omd = out.inds[b]
                if (ifl, iloc, imd) != (ofl, oloc, omd):
                    fail("individual:row", f"individual {a} -> {b}: {inp.inds[a]} became {out.inds[b]}")
                # parents: retained ones remapped in order, removed ones NULL (or dropped)
                want_strict = tuple(imap.get(p, NULL) if p != NULL else NULL for p in ipar)
                want_loose = tuple(x for x in want_strict if x != NULL)
                if opar != want_strict and tuple(x for x in opar if x != NULL) != want_loose:
                    fail("individual:parents", f"individual {a} -> {b}: parents {ipar} became {opar}, "
                         f"expected {want_strict} under id map {imap}")

    # ---- edges --------------------------------------------------------------------
    referenced = set()
    seen = {}
    for l, r, p, c in out.edges:
        referenced.add(p)
        referenced.add(c)
        seen.setdefault((p, c), []).append((l, r))
    for (p, c), ivs in seen.items():
        ivs.sort()
        for (l1, r1), (l2, r2) in zip(ivs, ivs[1:]):
            if r1 == l2 and o["keep_input_roots"]:
                # squashing is not part of the property; with keep_input_roots the root's edges are
                # emitted per input segment (and a second simplify reproduces them): counted only
                if counters is not None:
                    counters["dontcare_unsquashed_input_root_edges"] = counters.get("dontcare_unsquashed_input_root_edges", 0) + 1
            elif r1 == l2:
                fail("edges:not_squashed" + (":keep_input_roots" if o["keep_input_roots"] else ""),
                     f"output edges ({l1},{r1}) and ({l2},{r2}) for parent {p} "
                     f"child {c} abut")
    if fn:
        for v in range(M):
            if rev[v] not in sset and v not in referenced:
                fail("node:unreferenced_kept" + (":keep_input_roots+reduce" if o["keep_input_roots"]
                                                 and o["reduce_to_site_topology"] else ""),
                     f"filter_nodes=True but output node {v} (input {rev[v]}) "
                     f"is not a chosen sample and no edge refers to it")
    rts = o["reduce_to_site_topology"]
    L = inp.L
    if rts:
        probes = sorted(set(ctx.site_pos))
    else:
        pts = set(ctx.grid)
        for l, r, _, _ in out.edges:
            pts.add(l)
            pts.add(r)
        probes = probes_between(pts, L)
    matched = {}
    opar_at = {}
    skey = tuple(sorted(samples))
    for x in probes:
        act_out = opar_at[x] = parent_map(out.edges, M, x)
        ipar = ctx.par(x)
        variants = ctx.variants(skey, samples, o, x)
        hit = None
        for g in variants:
            ok = True
            for u in range(N):
                v = nm[u]
                if v == NULL:
                    if g.kept[u]:
                        ok = False
                        break
                else:
                    ap = act_out[v]
                    if (rev[ap] if ap != NULL else NULL) != g.parent[u]:
                        ok = False
                        break
            if ok:
                hit = g
                break
        if hit is None:
            g = variants[0]
            act = [(rev[act_out[nm[u]]] if act_out[nm[u]] != NULL else NULL) if nm[u] != NULL else "gone"
                   for u in range(N)]
            exp = [g.parent[u] if g.kept[u] else ("gone" if nm[u] == NULL else NULL) for u in range(N)]
            missing = [u for u in range(N) if g.kept[u] and nm[u] == NULL]
            key = "tree:retained_node_missing" if missing else "tree:parent"
            if rts:
                key = "reduce:" + key.split(":")[1]
            fail(key, f"at position {x}: output parents (in input ids) {act}, expected {exp} "
                 f"(retained {[u for u in range(N) if g.kept[u]]}; input parents {ipar}; node map {nm})")
            matched[x] = g
        else:
            matched[x] = hit
            if counters is not None and hit is not variants[0]:
                counters["second_reading_positions"] = counters.get("second_reading_positions", 0) + 1
    if rts:
        if not inp.sites and out.edges:
            fail("reduce:edges_without_sites", f"no sites but {len(out.edges)} output edges")
        bps = {0.0, L}
        for l, r, _, _ in out.edges:
            bps.add(l)
            bps.add(r)
        bps = sorted(bps)
        opos = [s[0] for s in out.sites]
        for a, b in zip(bps, bps[1:]):
            if inp.sites and not any(a <= p < b for p in ctx.site_pos):
                fail("reduce:tree_without_input_site", f"output tree [{a},{b}) contains none of the "
                     f"input site positions {ctx.site_pos}")
            elif (opos or out.edges) and not any(a <= p < b for p in opos):
                # the documented statement read on the output itself: zero sites => zero
                # edges, otherwise every tree contains a site
                fail("reduce:tree_without_output_site", f"output tree [{a},{b}) contains none of the "
                     f"output sites {opos} (input sites {ctx.site_pos}); output edges {out.edges}")
    # ---- mutations ----------------------------------------------------------------
    exp_mut = {}      # metadata -> (pos, out node, time, derived, parent metadata or None)
    site_has = [False] * len(inp.sites)
    for (s, node, par_i, tm, der, md) in inp.muts:
        pos = inp.sites[s][0]
        g = matched.get(pos)
        if g is None:
            g = ctx.variants(skey, samples, o, pos)[0]
        if not g.in_t[node]:
            continue
        car = g.carrier(node)
        site_has[s] = True
        pmd = inp.muts[par_i][5] if par_i != NULL else None
        if pmd is not None and pmd not in exp_mut:
            pmd = None   # parent not retained (cannot happen for valid input)
        exp_mut[md] = (pos, nm[car] if car != NULL else NULL, tm, der, pmd)
    got_mut = {}
    for j, (s, node, par_o, tm, der, md) in enumerate(out.muts):
        if md in got_mut:
            fail("mutation:duplicated", f"mutation {md} appears twice in the output")
        got_mut[md] = j
    for md in exp_mut:
        if md not in got_mut:
            fail("mutation:lost", f"input mutation {md} (on a sample-to-root path at {exp_mut[md][0]}) is "
                 f"not in the output")
    for md, j in got_mut.items():
        if md not in exp_mut:
            fail("mutation:not_removed", f"output mutation {md} is on no chosen sample's path to the root")
            continue
        s, node, par_o, tm, der, _ = out.muts[j]
        pos, enode, etm, eder, pmd = exp_mut[md]
        if not (0 <= s < len(out.sites)) or out.sites[s][0] != pos:
            fail("mutation:site", f"mutation {md} at position {pos} now refers to site {s}")
        if node != enode:
            fail("mutation:node", f"mutation {md} at {pos}: output node {node} (input {rev[node] if 0 <= node < M else '?'}), "
                 f"expected {enode}; node map {nm}")
        if tm != etm:
            fail("mutation:time", f"mutation {md}: time {etm} -> {tm}")
        if der != eder:
            fail("mutation:derived_state", f"mutation {md}: derived state {eder} -> {der}")
        epar = got_mut.get(pmd, NULL) if pmd is not None else NULL
        if par_o != epar:
            fail("mutation:parent", f"mutation {md}: parent {par_o}, expected {epar}")

    # ---- sites --------------------------------------------------------------------
    if not o["filter_sites"]:
        if out.sites != inp.sites:
            fail("site:table_altered", f"filter_sites=False but site table changed: {inp.sites} -> {out.sites}")
    else:
        refd = set(mu[0] for mu in out.muts)
        for j in range(len(out.sites)):
            if j not in refd:
                fail("site:unreferenced_kept", f"filter_sites=True but output site {j} at "
                     f"{out.sites[j][0]} has no mutation")
        exp_sites = [inp.sites[j] for j in range(len(inp.sites)) if site_has[j]]
        if out.sites != exp_sites:
            fail("site:filter", f"output sites {out.sites}, expected {exp_sites}")

    # ---- genotypes of the chosen samples -------------------------------------------
    out_pos = {s[0]: j for j, s in enumerate(out.sites)}
    out_muts_on = [dict() for _ in out.sites]
    for s, node, _, _, der, _ in out.muts:
        if 0 <= s < len(out.sites):
            out_muts_on[s][node] = der
    gin = [ctx.geno_in(s) for s in samples]
    for j, (pos, anc, _) in enumerate(inp.sites):
        jo = out_pos.get(pos)
        if jo is None:
            for k, s in enumerate(samples):
                if gin[k][j] != anc:
                    fail("genotype:site_removed", f"site at {pos} removed but chosen sample {s} carried "
                         f"{gin[k][j]!r} (ancestral {anc!r})")
            continue
        opar = opar_at.get(pos)
        if opar is None:
            opar = parent_map(out.edges, M, pos)
        oanc = out.sites[jo][1]
        for k, s in enumerate(samples):
            a = allele(opar, out_muts_on[jo], oanc, nm[s])
            if a != gin[k][j]:
                fail("genotype:changed", f"site at {pos}: chosen sample {s} had allele {gin[k][j]!r}, "
                     f"output node {nm[s]} has {a!r}")

    # ---- simplifying again changes nothing -----------------------------------------
    if not upstream[0]:
        import numpy as np

        s2 = [nm[s] for s in samples]
        try:
            nm2 = tc.simplify(np.array(s2, dtype=np.int32), record_provenance=False, **opts).tolist()
        except Exception as e:  # noqa
            fail("idempotent:raised", f"second simplify raised {e!r}")
            nm2 = None
        if nm2 is not None:
            o2 = Snap(tc)
            diff = [nme for nme in Snap.__slots__ if getattr(o2, nme) != getattr(out, nme)]
            if nm2 != list(range(M)) or diff:
                fail("idempotent:changed", f"second simplify(samples={s2}) node map {nm2}; tables differing: "
                     f"{diff}; first edges {out.edges} second edges {o2.edges}; first nodes {out.nodes} "
                     f"second {o2.nodes}; first sites {out.sites} second {o2.sites}")
    changed = (out.nodes != inp.nodes or out.edges != inp.edges or out.sites != inp.sites
               or out.muts != inp.muts or out.inds != inp.inds or out.pops != inp.pops)
    return changed


def check_other_paths(ctx, samples, opts, fail):
    """TreeSequence.simplify(map_nodes=True) and the provenance switch agree with the
    TableCollection path."""
    try:
        tc1, nm1 = run_simplify(ctx, samples, opts)
        tc2, nm2 = run_simplify(ctx, samples, opts, via_ts=True)
    except Exception as e:  # noqa
        fail("paths:raised", f"{e!r}")
        return
    for t in (tc1, tc2):
        if t.has_index():
            t.drop_index()
    if nm1 != nm2 or not tc1.equals(tc2, ignore_provenance=True):
        fail("paths:ts_vs_tables", f"TreeSequence.simplify and TableCollection.simplify differ: {nm1} {nm2}")
    # the deprecated spelling of filter_sites (still documented) must mean the same, on both entry points
    if "filter_sites" in opts:
        alias = {k: v for k, v in opts.items() if k != "filter_sites"}
        alias["filter_zero_mutation_sites"] = opts["filter_sites"]
        import warnings

        for route in ("ts", "tc"):
            try:
                with warnings.catch_warnings():
                    warnings.simplefilter("ignore")
                    if route == "ts":
                        ts2, nma = ctx.ts().simplify(samples, map_nodes=True, record_provenance=False, **alias)
                        tca, nma = ts2.dump_tables(), nma.tolist()
                    else:
                        tca = ctx.ts().dump_tables()
                        nma = tca.simplify(samples, record_provenance=False, **alias).tolist()
            except Exception as e:  # noqa
                fail("paths:alias:raised", f"{route}: simplify(filter_zero_mutation_sites={opts['filter_sites']}) raised {e!r}")
                continue
            if tca.has_index():
                tca.drop_index()
            if nma != nm1 or not tca.equals(tc1, ignore_provenance=True):
                fail("paths:alias:filter_zero_mutation_sites", f"{route}: filter_zero_mutation_sites={opts['filter_sites']} "
                     f"differs from filter_sites={opts['filter_sites']}")
    # the same samples in every form a caller may pass them (strided / reversed views, other
    # integer widths, tuples): the glue must see the same sequence
    from ..argforms import array_forms

    for form, arg in array_forms(samples):
        tcf = ctx.ts().dump_tables()
        try:
            nmf = tcf.simplify(arg, record_provenance=False, **opts).tolist()
        except Exception as e:  # noqa
            fail("paths:argform:" + form, f"simplify(samples as {form}) raised {e!r}")
            continue
        if tcf.has_index():
            tcf.drop_index()
        if nmf != nm1 or not tcf.equals(tc1, ignore_provenance=True):
            fail("paths:argform:" + form, f"simplify(samples as {form} of {samples}) differs from the list form: {nmf} vs {nm1}")
    tc3 = ctx.tc.copy()
    n0 = tc3.provenances.num_rows
    nm3 = tc3.simplify(samples, **opts).tolist()
    if tc3.provenances.num_rows != n0 + 1 or nm3 != nm1 or not tc3.equals(tc1, ignore_provenance=True):
        fail("paths:provenance", "record_provenance=True must add exactly one provenance row and change "
             "nothing else")


def check_errors(ctx, fail):
    import tskit

    N = ctx.N
    bad = []
    if N >= 1:
        bad.append(([0, 0], {}, "duplicate sample"))
        bad.append(([N], {}, "node id == num_nodes"))
        bad.append(([-1], {}, "node id -1"))
        bad.append(([0], {"keep_unary": True, "keep_unary_in_individuals": True},
                    "keep_unary together with keep_unary_in_individuals"))
    # option sets for the rejected call: the defaults and "filter nothing" (after which a later
    # call would silently work on whatever the rejected one left behind)
    nofilter = {"filter_nodes": False, "filter_populations": False, "filter_individuals": False, "filter_sites": False}
    bad += [(s_, dict(o_, **nofilter), w_ + " (no filtering)") for s_, o_, w_ in list(bad)[:3]]
    good = [u for u in range(N) if u % 2 == 0]
    for samples, opts, what in bad:
        tc = ctx.tc.copy()
        try:
            tc.simplify(samples, record_provenance=False, **opts)
        except (tskit.LibraryError, ValueError, OverflowError):
            # the object is still the user's tables: a later valid call on it must answer for THEM
            # (a rejected call that empties or reorders them makes every later answer wrong)
            try:
                nm2 = tc.simplify(good, record_provenance=False).tolist()
                tc1, nm1 = run_simplify(ctx, good, {})
                if tc.has_index():
                    tc.drop_index()
                if tc1.has_index():
                    tc1.drop_index()
                if nm2 != nm1 or not tc.equals(tc1, ignore_provenance=True):
                    fail("errors:later_call_differs", f"after the rejected simplify(samples={samples}, {opts}) [{what}] "
                         f"simplify(samples={good}) on the same object gives node map {nm2}, a fresh copy gives {nm1}")
            except Exception as e:  # noqa
                fail("errors:later_call_raised", f"after the rejected simplify(samples={samples}, {opts}) [{what}] "
                     f"simplify(samples={good}) on the same object raised {e!r}")
            continue
        except Exception as e:  # noqa
            fail("errors:wrong_exception", f"{what}: raised {e!r}")
            continue
        fail("errors:accepted", f"{what}: simplify(samples={samples}, {opts}) succeeded")
    if N >= 1 and ctx.snap.pops:
        # tables.h: "Migrations are currently not supported by simplify, and an error will be raised"
        tc = ctx.tc.copy()
        tc.migrations.add_row(left=0, right=tc.sequence_length, node=0, source=0, dest=1,
                              time=ctx.snap.nodes[0][1] + 0.5)
        try:
            tc.simplify([0], record_provenance=False)
        except tskit.LibraryError:
            pass
        else:
            fail("errors:migrations_accepted", "simplify succeeded on tables with a migration row")


# ----------------------------------------------------------------------------------
# enumeration
# ----------------------------------------------------------------------------------
def main_flags(N, ranks, cells):
    return [tuple(1 if u % 2 == 0 else 0 for u in range(N))]


def check_member(m, plan, acc, only=None):
    """All cases of one member.  `only` = a case dict restricts to that one case (replay)."""
    sorted_combos, perm_combos, deco_plan, default_combos = PLANS[plan]
    sorted_combos, perm_combos, default_combos = sorted_combos(), perm_combos(), default_combos()
    ctxs = {}
    counters = {}
    has_edges = bool(m.edges())

    def ctx_for(deco, member=m):
        key = (deco, member.flags)
        c = ctxs.get(key)
        if c is None:
            c = ctxs[key] = Ctx(member, deco)
        return c

    def one(member, deco, samples, opts, case, default=False):
        ctx = ctx_for(deco, member)

        def fail(key, what):
            acc.fail(key, what, case)

        sl = samples
        if default:
            sl = member.samples
            try:
                tcd = ctx.tc.copy()
                nmd = tcd.simplify(record_provenance=False, **opts).tolist()
                tce, nme = run_simplify(ctx, sl, opts)
                if nmd != nme or not tcd.equals(tce, ignore_provenance=True):
                    fail("default_samples:differs", f"simplify() differs from simplify(samples={sl})")
            except Exception as e:  # noqa
                fail("default_samples:raised", f"{e!r}")
        changed = check_case(ctx, sl, opts, fail, counters)
        acc.ev(1, nontrivial=bool(changed and has_edges and sl))

    if only is not None:
        mem = U.Member.from_desc(only["member"])
        if only.get("kind") == "errors":
            check_errors(ctx_for(only["deco"], mem), lambda k, w: acc.fail(k, w, only))
        elif only.get("kind") == "paths":
            check_other_paths(ctx_for(only["deco"], mem), only["samples"], only["opts"],
                              lambda k, w: acc.fail(k, w, only))
        elif only.get("opts") is None:
            # journal entry of a crashed group: re-run the whole group
            combos = default_combos if only.get("default") else (
                sorted_combos if only["samples"] == sorted(only["samples"]) else perm_combos)
            for opts in combos:
                for deco in decos_for(opts, deco_plan, combos is perm_combos):
                    if deco == only["deco"]:
                        case = dict(only, opts=opts)
                        one(mem, deco, only["samples"], opts, case, default=bool(only.get("default")))
        else:
            one(mem, only["deco"], only["samples"], only["opts"], only, default=bool(only.get("default")))
        return

    base = {"member": m.desc(), "plan": plan}
    sorted_lists, perms = sample_lists(m.N)
    for lists, combos in ((sorted_lists, sorted_combos), (perms, perm_combos)):
        by_deco = {}
        for opts in combos:
            for deco in decos_for(opts, deco_plan, lists is perms):
                by_deco.setdefault(deco, []).append(opts)
        for deco, olist in by_deco.items():
            for samples in lists:
                acc.enter(dict(base, deco=deco, samples=samples, opts=None))
                for opts in olist:
                    one(m, deco, samples, opts, dict(base, deco=deco, samples=samples, opts=opts))
    # other entry points and error paths, once per member on the rich decoration
    ctx = ctx_for("A-full")
    for samples in ([u for u in range(m.N) if u % 2 == 0], list(range(m.N))[::-1]):
        for opts in combos_singles():
            case = dict(base, deco="A-full", samples=samples, opts=opts, kind="paths")
            acc.enter(case)
            check_other_paths(ctx, samples, opts, lambda k, w: acc.fail(k, w, case))
            acc.ev(1, nontrivial=has_edges and bool(samples))
    case = dict(base, deco="A-full", kind="errors")
    acc.enter(case)
    check_errors(ctx, lambda k, w: acc.fail(k, w, case))
    acc.ev(1, nontrivial=False)
    # samples=None over every flag subset
    for fl in itertools.product((0, 1), repeat=m.N):
        mf = U.Member(m.N, m.G, m.ranks, m.parents, fl, m.grid, m.squash, m.timescale)
        cb = {"member": mf.desc(), "plan": plan, "deco": "A-full", "samples": None, "default": True}
        acc.enter(dict(cb, opts=None))
        for opts in default_combos:
            one(mf, "A-full", None, opts, dict(cb, opts=opts), default=True)
        if fl != m.flags:
            ctxs.pop(("A-full", mf.flags), None)
    for k, v in counters.items():
        acc.count(k, v)
    acc.sample({"member": m.desc(), "plan": plan})


def bounds(tier):
    if tier == "quick":
        return {
            "universe": "all edge structures with N<=4 nodes, G<=2 cells and N=3,G=3 (times=id); N=3,G=2 all "
                        "weak time orders on the fractional grid; N=3,4 G=2 with unsquashed input edges",
            "samples": "every subset of nodes incl. the empty list (sorted); reversed/rotated orders on 7 "
                       "option sets; samples=None over all 2^N flag subsets",
            "options": "defaults + every single option + every pair (45 combinations) for N<=3 and N=4,G=1; "
                       "N=4,G=2: defaults + singles + 15 documented-interaction pairs (25); weak/unsquashed "
                       "N=4: defaults + singles; reduce_to_site_topology on 2-5 site layouts",
            "decorations": "individuals/populations patterns A and B (or none), node metadata and extra flag "
                           "bits, 'full' site layout (per cell: stacked mutations on every node at the "
                           "breakpoint, one single-mutation site per node, an empty site, a doubly-mutated "
                           "node), unknown and known mutation times",
        }
    return {
        "universe": "structures N<=4,G<=2 (times=id) with the full option product; N=3,G=3, N=5,G=1, "
                    "N=3,G=2 weak/frac and N=4,G=2 unsquashed with all pairs; N=4,G=3 and N=4,G=2 all weak "
                    "time orders with defaults + single options on sorted sample lists",
        "samples": "every subset of nodes (sorted), reversed/rotated orders on 7 option sets, "
                   "samples=None over all 2^N flag subsets",
        "options": "full 384-way product on U_B; pairs / singles elsewhere",
    }


def _split(specs, b, plan, per):
    cnt = U.count_members(b["N"], b["G"], b.get("times", "id"), flags="one")
    n = max(1, -(-cnt // per))
    for k in range(n):
        specs.append(dict(b=b, k=k, n=n, plan=plan))


def shards(tier, seed):
    specs = []
    if tier == "quick":
        for n in (1, 2, 3):
            for g in (1, 2):
                _split(specs, dict(N=n, G=g, times="id"), "pairs", 12)
        _split(specs, dict(N=4, G=1, times="id"), "pairs", 3)
        _split(specs, dict(N=4, G=2, times="id"), "core", 3)
        _split(specs, dict(N=3, G=3, times="id"), "pairs", 6)
        _split(specs, dict(N=3, G=2, times="weak", grid="frac", timescale="quarter"), "singles", 30)
        _split(specs, dict(N=3, G=2, times="id", squash=False), "pairs", 6)
        _split(specs, dict(N=4, G=2, times="id", squash=False), "sorted-singles", 18)
        _split(specs, dict(N=3, G=3, times="id", grid="ulp"), "singles", 12)
    else:
        _split(specs, dict(N=3, G=3, times="id", grid="ulp"), "pairs", 12)
        _split(specs, dict(N=4, G=3, times="id", grid="ulp"), "sorted-singles", 150)
        for n in (1, 2, 3):
            for g in (1, 2):
                _split(specs, dict(N=n, G=g, times="id"), "full", 4)
        _split(specs, dict(N=4, G=1, times="id"), "full", 1)
        _split(specs, dict(N=4, G=2, times="id"), "full", 2)
        _split(specs, dict(N=3, G=3, times="id"), "pairs", 12)
        _split(specs, dict(N=5, G=1, times="id"), "pairs", 2)
        _split(specs, dict(N=3, G=2, times="weak", grid="frac", timescale="big"), "pairs", 12)
        _split(specs, dict(N=4, G=2, times="id", squash=False), "pairs", 6)
        _split(specs, dict(N=4, G=3, times="id"), "sorted-singles", 150)
        _split(specs, dict(N=4, G=2, times="weak"), "sorted-singles", 150)
    return specs


def run_shard(spec):
    acc = Acc()
    gen = U.enumerate_members(flags=main_flags, **spec["b"])
    for m in U.shard(gen, spec["k"], spec["n"]):
        check_member(m, spec["plan"], acc)
    return acc.result()


def replay(case):
    acc = Acc()
    m = U.Member.from_desc(case["member"])
    check_member(m, case.get("plan", "pairs"), acc, only=case)
    return acc.failures
