"""C15  Tree ranks are a bijection and topology counts match brute-force enumeration.

Exhaustive input-space exploration.  (1) all_trees(n) / all_tree_shapes / all_tree_labellings /
Tree.rank / Tree.unrank for every n up to a bound are compared with a brute-force list of all
leaf-labelled trees (mc/ref/rank.py: canonical nested-frozenset forms, built from set
partitions), incl. rank invariance under internal-node renumbering, child order and branch
lengths and rejection of out-of-range ranks.  (2) boundary big-integer ranks for large n
(deterministic supplement).  (3) Tree.count_topologies for every small tree x every family of
disjoint sample sets against "choose one sample per set in every way and reduce".  (4) the
incremental TreeSequence.count_topologies against the same oracle for every tree of every
member of small-scope universes."""
import itertools
import math
from collections import Counter

from .. import universe as U
from ..acc import Acc
from ..ref import rank as R
from ..ref.trees import NULL, RefTS

ID = "C15"
LEVEL = "exploration"
VARIANT = "plain"
SHARD_TIMEOUT = 1400
RULE = (
    "enum: every index of all_trees(n) (rank, unrank round trip, unrank(span, branch_length)) and "
    "every out-of-range rank on the boundary of the dense range, non-trivial = n>=3; "
    "shapes: every shape of all_tree_shapes(n) x 3 input renderings of all_tree_labellings, "
    "non-trivial = shape has >1 labelling; inv: every brute-force tree x (internal id permutation, "
    "leaf ids first/last, 3 time vectors, 6 child-order constructions), non-trivial = n>=3 and the "
    "variant differs from the plain build; big: boundary (shape, label) ranks for large n; "
    "ct: (single tree, family of disjoint sample sets) pairs, cts: (tree sequence, family) pairs, "
    "non-trivial = some combination of >=2 sets has a non-empty expected counter or an "
    "internal-sample ValueError is required; rank_univ: universe trees, non-trivial = >=2 leaves "
    "below a single root or >1 root"
)
ASSUMPTIONS = [
    "a topology is identified with its canonical nested-set form; rank() of a tree whose leaf ids "
    "are not 0..n-1 is the rank of the order-preserving relabelling to 0..n-1",
    "the rank of the i-th tree of all_trees(n) is the i-th pair of the dense lexicographic range "
    "{(s,l)}: s counts shape changes, l the position among the labellings of that shape "
    "(docs/topological-analysis.md 'Interpreting Tree Ranks')",
    "in count_topologies a choice of samples that do not share a root contributes nothing; a key "
    "K of the counter uses labels K (order-preserving relabelling to 0..|K|-1 for the rank)",
    "an internal sample outside sample_sets may either raise ValueError or be treated as an "
    "ordinary internal node (documentation only promises the error for nodes in sample_sets)",
    "expected ranks for induced topologies are looked up through all_trees(k) order, which part "
    "(1) checks against rank()/unrank() for the same k",
]

# --------------------------------------------------------------------------------------
# bounds and shards
# --------------------------------------------------------------------------------------


def bounds(tier):
    if tier == "quick":
        return {
            "enum": "n<=6 (1,1,4,26,236,2752 trees), oob ranks for every shape",
            "shapes": "n<=6",
            "inv": "n<=4 full product of variants; n=5 all internal perms x cycled variants; "
                   "n=6 rotations+reversal x cycled variants on every 2nd tree",
            "big": "n in {10,12,14,16} s in {0,1,2,S/7,S/3,S/2,S-2,S-1}; n=20 s in {0,1,2,S-2,S-1}; "
                   "n in {30,40} s in {0,1,2}; l in {0,1,2,L/3,L/2,L-2,L-1}",
            "ct": "all trees n<=5 x all assignments to <=2 sets (+unassigned), n<=5 x all full "
                  "assignments to 3 sets, n<=4 x <=3 sets and <=4 sets full; universe G=1 N<=5 all "
                  "flags x <=2 sets (N<=4: <=3 sets)",
            "cts": "U(N<=3,G=2,weak times), U(N=3,G=2,unsquashed), U(N=4,G=2), U(N=3,G=3) all flags "
                   "x <=2 sets; leaf-sample universe (3 leaves+2 internal, G=2) x (<=2 sets + 4 fixed "
                   "families incl. singletons); (4 leaves+2 internal, G=2) x 2 fixed families "
                   "(singletons, halves)",
        }
    return {
        "enum": "n<=7 (39208 trees for n=7)",
        "shapes": "n<=7",
        "inv": "n<=5 full product; n=6 all perms x cycled; n=7 rotations+reversal x cycled (every 4th tree)",
        "big": "quick + n=20 mid shapes excluded (cost), n=30 s in {S-2,S-1}",
        "ct": "all trees n<=5 x <=3 sets, n=6 x <=2 sets full, n<=4 x <=4 sets; universe G=1 N<=5 "
              "all flags x <=3 sets, N=6 leaf-subset flags x <=2 sets",
        "cts": "U(N<=4,G=2) weak orders leaf flags, U(N<=4,G=2), U(N<=3,G=3) all flags x <=3 sets; "
               "LS(3+2,G=2) x <=3 sets, LS(4+2,G=2) x (2 sets full + fixed), LS(3+2,G=3), LS(3+3,G=2) x fixed families",
    }


def _parts(specs, count, **kw):
    for k in range(count):
        specs.append(dict(kw, part=k, nparts=count))


def shards(tier, seed):
    sp = []
    quick = tier == "quick"
    nmax = 6 if quick else 7
    # (1) enumeration / rank / unrank
    for n in range(0, nmax + 1):
        _parts(sp, {6: 4, 7: 16}.get(n, 1), kind="enum", n=n)
        if n >= 1:
            _parts(sp, {6: 2, 7: 8}.get(n, 1), kind="shapes", n=n)
    # invariance
    for n in range(1, 5):
        _parts(sp, 1, kind="inv", n=n, mode="full")
    if quick:
        _parts(sp, 8, kind="inv", n=5, mode="perms")
        _parts(sp, 16, kind="inv", n=6, mode="rot", stride=2)
    else:
        _parts(sp, 24, kind="inv", n=5, mode="full")
        _parts(sp, 60, kind="inv", n=6, mode="perms")
        _parts(sp, 40, kind="inv", n=7, mode="rot", stride=4)
    # (2) big integers
    for n in (10, 12, 14, 16):
        for ss in (["lo", 0], ["lo", 1], ["lo", 2], ["frac", 1, 7], ["frac", 1, 3], ["frac", 1, 2],
                   ["hi", 1], ["hi", 0]):
            sp.append(dict(kind="big", n=n, s=ss))
    for ss in (["lo", 0], ["lo", 1], ["lo", 2], ["hi", 1], ["hi", 0]):
        sp.append(dict(kind="big", n=20, s=ss))
    # n=24: the last shapes have more than 2**53 labellings (label ranks no longer fit a double)
    for ss in (["hi", 0], ["hi", 1], ["hi", 2]):
        sp.append(dict(kind="big", n=24, s=ss))
    for n in (30, 40):
        for ss in (["lo", 0], ["lo", 1], ["lo", 2]):
            sp.append(dict(kind="big", n=n, s=ss))
    if not quick:
        sp.append(dict(kind="big", n=30, s=["hi", 0]))
        sp.append(dict(kind="big", n=30, s=["hi", 1]))
    # (3) count_topologies on single trees
    for n in (1, 2, 3, 4):
        _parts(sp, 1, kind="ct_forms", n=n, kmax=3, fam="all", pops=True)
        _parts(sp, 1 if n < 4 else 2, kind="ct_forms", n=n, kmax=4, fam="full", pops=False)
    if quick:
        _parts(sp, 16, kind="ct_forms", n=5, kmax=2, fam="all", pops=False)
        _parts(sp, 16, kind="ct_forms", n=5, kmax=3, fam="full", pops=False)
        for N in (0, 1, 2, 3, 4):
            _parts(sp, 1 if N < 4 else 3, kind="ct_univ", b=dict(N=N, G=1, times="id"), kmax=3)
        _parts(sp, 15, kind="ct_univ", b=dict(N=5, G=1, times="id"), kmax=2)
    else:
        _parts(sp, 48, kind="ct_forms", n=5, kmax=3, fam="all", pops=False)
        _parts(sp, 48, kind="ct_forms", n=6, kmax=2, fam="full", pops=False)
        for N in (0, 1, 2, 3, 4):
            _parts(sp, 1 if N < 4 else 5, kind="ct_univ", b=dict(N=N, G=1, times="weak"), kmax=3)
        _parts(sp, 31, kind="ct_univ", b=dict(N=5, G=1, times="id"), kmax=3)
        _parts(sp, 31, kind="ct_univ", b=dict(N=6, G=1, times="id", flags="leafsubsets"), kmax=2)
    # (4) count_topologies along tree sequences
    if quick:
        for N in (1, 2, 3):
            _parts(sp, 1 if N < 3 else 3, kind="cts", b=dict(N=N, G=2, times="weak"), kmax=2, pops=True)
        _parts(sp, 1, kind="cts", b=dict(N=3, G=2, times="id", squash=False), kmax=2, pops=False)
        _parts(sp, 5, kind="cts", b=dict(N=3, G=3, times="id"), kmax=2, pops=False)
        _parts(sp, 23, kind="cts", b=dict(N=4, G=2, times="id"), kmax=2, pops=False)
        _parts(sp, 12, kind="cts", ls=dict(S=3, I=2, G=2), kmax=2, fixed=True, pops=False)
        _parts(sp, 24, kind="cts", ls=dict(S=4, I=2, G=2), fixed=2, pops=False)
    else:
        for N in (1, 2, 3):
            _parts(sp, 1 if N < 3 else 5, kind="cts", b=dict(N=N, G=2, times="weak"), kmax=3, pops=True)
        _parts(sp, 7, kind="cts", b=dict(N=3, G=3, times="id"), kmax=3, pops=False)
        _parts(sp, 5, kind="cts", b=dict(N=3, G=2, times="weak", squash=False), kmax=2, pops=False)
        _parts(sp, 47, kind="cts", b=dict(N=4, G=2, times="id"), kmax=3, pops=False)
        _parts(sp, 48, kind="cts", b=dict(N=4, G=2, times="weak", flags="leaves"), kmax=2, pops=False)
        _parts(sp, 16, kind="cts", ls=dict(S=3, I=2, G=2), kmax=3, pops=False)
        _parts(sp, 64, kind="cts", ls=dict(S=3, I=2, G=3), fixed=True, pops=False)
        _parts(sp, 64, kind="cts", ls=dict(S=4, I=2, G=2), kmax=2, fam="full", fixed=True, pops=False)
        _parts(sp, 64, kind="cts", ls=dict(S=3, I=3, G=2), fixed=True, pops=False)
    return sp


# --------------------------------------------------------------------------------------
# helpers: tskit tree -> reference form
# --------------------------------------------------------------------------------------


def tsk_form(tree):
    """(form over leaf node ids, has_unary, problems) of a single-rooted tskit tree, read
    from the tree's parent array."""
    par = tree.parent_array.tolist()[:-1]
    roots = list(tree.roots)
    if len(roots) != 1:
        return None, False, f"tree has {len(roots)} roots"
    form, unary = R.tree_form(par, roots[0])
    return form, unary, None


_ENUM = {}


def enumeration(n):
    """[(form, expected_rank)] for all_trees(n) in the order yielded, the expected rank being
    derived from the order alone (shape runs), plus the trees and a list of problems."""
    import tskit

    if n in _ENUM:
        return _ENUM[n]
    trees = list(tskit.all_trees(n))
    forms, problems = [], []
    for i, t in enumerate(trees):
        ts = t.tree_sequence
        form, unary, prob = tsk_form(t)
        if prob is None and ts.num_trees != 1:
            prob = f"tree sequence has {ts.num_trees} trees"
        if prob:
            problems.append(("all_trees:structure", f"all_trees({n})[{i}]: {prob}"))
            forms.append(("bad", i))
            continue
        if unary:
            problems.append(("all_trees:unary", f"all_trees({n})[{i}] has a unary node: {t.parent_dict}"))
        if sorted(R.form_labels(form)) != list(range(n)) or list(ts.samples()) != list(range(n)):
            problems.append(("all_trees:labels",
                             f"all_trees({n})[{i}]: leaves {sorted(R.form_labels(form))}, samples "
                             f"{list(ts.samples())}, expected 0..{n - 1}"))
        forms.append(form)
    exp = []
    s, l, prev = -1, 0, None
    seen_shapes = {}
    for i, f in enumerate(forms):
        sh = R.shape(f) if not isinstance(f, tuple) else ("bad",)
        if sh != prev:
            s += 1
            l = 0
            prev = sh
            if sh in seen_shapes:
                problems.append(("all_trees:shape_runs",
                                 f"all_trees({n}): shape of tree {i} already occurred at {seen_shapes[sh]}"))
            seen_shapes.setdefault(sh, i)
        else:
            l += 1
        exp.append((s, l))
    res = dict(trees=trees, forms=forms, exp=exp, problems=problems)
    _ENUM[n] = res
    return res


_RANKMAP = {}


def rankmap(k):
    """form (labels 0..k-1) -> rank, from the order of all_trees(k)."""
    if k not in _RANKMAP:
        e = enumeration(k)
        _RANKMAP[k] = {f: r for f, r in zip(e["forms"], e["exp"])}
    return _RANKMAP[k]


class CallTimeout(Exception):
    pass


def _on_alarm(signum, frame):
    raise CallTimeout()


CALL_LIMIT = 240.0  # seconds of wall time for a single library call (a hang is a failure)


def expect_valueerror(fn):
    """('ok', value) | ('ValueError', msg) | ('other', repr)."""
    import signal

    old = signal.signal(signal.SIGALRM, _on_alarm)
    signal.setitimer(signal.ITIMER_REAL, CALL_LIMIT)
    try:
        v = fn()
    except ValueError as e:
        return "ValueError", str(e)
    except CallTimeout:
        return "other", f"no result after {CALL_LIMIT}s (hang)"
    except Exception as e:  # noqa
        return "other", repr(e)
    finally:
        signal.setitimer(signal.ITIMER_REAL, 0)
        signal.signal(signal.SIGALRM, old)
    return "ok", v


# --------------------------------------------------------------------------------------
# (1) enumeration, rank, unrank
# --------------------------------------------------------------------------------------


def unrank_details(t, n, span, bl):
    """Documented construction of Tree.unrank: leaves at time 0, internal node time = max child
    time + branch_length, span = sequence length, single tree."""
    ts = t.tree_sequence
    if ts.num_trees != 1 or ts.sequence_length != span or tuple(t.interval) != (0, span):
        return f"span: sequence_length={ts.sequence_length} interval={tuple(t.interval)} expected {span}"
    tm = ts.tables.nodes.time.tolist()
    par = t.parent_array.tolist()[:-1]
    ch = R.children_of(par)
    for u in range(len(par)):
        if not ch[u]:
            if tm[u] != 0 and (par[u] != NULL or u < n):
                return f"leaf {u} has time {tm[u]}"
        else:
            want = max(tm[c] for c in ch[u]) + bl
            if tm[u] != want:
                return f"node {u} has time {tm[u]} expected {want}"
    return None


def check_enum(n, part, nparts, acc):
    import tskit

    case = {"kind": "enum", "n": n, "part": part, "nparts": nparts}
    acc.enter(case)
    if n == 0:
        # nothing is promised for zero leaves except that nothing nonsensical is produced
        got = expect_valueerror(lambda: len(list(tskit.all_trees(0))))
        acc.ev(1, False)
        if got[0] == "ok" and got[1] != 0:
            acc.fail("all_trees:n0", f"all_trees(0) yields {got[1]} trees", case)
        return
    e = enumeration(n)
    forms, exp, trees = e["forms"], e["exp"], e["trees"]
    ref = set(R.all_forms(n))
    if part == 0:
        for key, what in e["problems"]:
            acc.fail(key, what, case)
        good = [f for f in forms if not isinstance(f, tuple)]
        if len(forms) != len(ref):
            acc.fail("all_trees:count", f"all_trees({n}) yields {len(forms)} trees, brute force has {len(ref)}", case)
        if len(set(good)) != len(good):
            dup = [R.form_str(f) for f, c in Counter(good).items() if c > 1][:3]
            acc.fail("all_trees:duplicate", f"all_trees({n}) repeats topologies, e.g. {dup}", case)
        if set(good) != ref:
            miss = [R.form_str(f) for f in list(ref - set(good))[:3]]
            extra = [R.form_str(f) for f in list(set(good) - ref)[:3]]
            acc.fail("all_trees:set", f"all_trees({n}): missing {miss} unexpected {extra}", case)
        # run lengths and documented shape order (root partitions in ascending-composition order)
        runs = []
        for f, (s, l) in zip(forms, exp):
            if isinstance(f, tuple):
                continue
            if l == 0:
                runs.append([R.shape(f), 0])
            runs[-1][1] += 1
        for s, (sh, cnt) in enumerate(runs):
            if cnt != R.num_labellings(sh):
                acc.fail("all_trees:run_length",
                         f"all_trees({n}): shape #{s} {sh} has {cnt} labellings, expected {R.num_labellings(sh)}", case)
        if n >= 2:
            order = R.ascending_partitions(n)
            idx = [order.index(R.root_partition(sh)) for sh, _ in runs if sh != ()]
            if idx != sorted(idx):
                acc.fail("all_trees:shape_order",
                         f"all_trees({n}): root partitions of successive shapes not in rule_asc order: "
                         f"{[R.root_partition(sh) for sh, _ in runs]}", case)
        acc.count("enum_trees", len(forms))
        # span argument
        if n <= 4:
            for t in tskit.all_trees(n, span=2.5):
                if t.tree_sequence.sequence_length != 2.5 or tuple(t.interval) != (0, 2.5):
                    acc.fail("all_trees:span", f"all_trees({n}, span=2.5) gives interval {tuple(t.interval)}", case)
        check_oob(n, acc, case)
    for i in range(part, len(forms), nparts):
        f = forms[i]
        if isinstance(f, tuple):
            continue
        acc.ev(1, n >= 3)
        r = exp[i]
        got = expect_valueerror(lambda: tuple(trees[i].rank()))
        if got != ("ok", r):
            acc.fail("rank:value", f"all_trees({n})[{i}] = {R.form_str(f)}: rank() -> {got}, expected {r} "
                                   f"(position in the enumeration)", case)
        got = expect_valueerror(lambda: tskit.Tree.unrank(n, r))
        if got[0] != "ok":
            acc.fail("unrank:rejected", f"unrank({n}, {r}) -> {got}; all_trees({n})[{i}] = {R.form_str(f)}", case)
            continue
        u = got[1]
        uf, unary, prob = tsk_form(u)
        if prob or uf != f:
            acc.fail("unrank:tree", f"unrank({n}, {r}) = {prob or R.form_str(uf)}, but all_trees({n})[{i}] = "
                                    f"{R.form_str(f)}", case)
        rr = expect_valueerror(lambda: tuple(u.rank()))
        if rr != ("ok", r):
            acc.fail("unrank:roundtrip", f"unrank({n}, {r}).rank() -> {rr}", case)
        d = unrank_details(u, n, 1, 1)
        if d:
            acc.fail("unrank:construction", f"unrank({n}, {r}): {d}", case)
        if i % 3 == 0 or n <= 4:
            got = expect_valueerror(lambda: tskit.Tree.unrank(n, r, span=2.5, branch_length=0.25))
            if got[0] != "ok":
                acc.fail("unrank:rejected", f"unrank({n}, {r}, span=2.5, branch_length=0.25) -> {got}", case)
            else:
                d = unrank_details(got[1], n, 2.5, 0.25)
                f2 = tsk_form(got[1])[0]
                if d or f2 != f:
                    acc.fail("unrank:construction",
                             f"unrank({n}, {r}, span=2.5, branch_length=0.25): {d or R.form_str(f2)}", case)
    acc.sample({"kind": "enum", "n": n, "trees": len(forms), "last_rank": list(exp[-1]) if exp else None})


def check_oob(n, acc, case):
    """Every rank just outside the dense range must be rejected with ValueError."""
    import tskit

    shapes = sorted({R.shape(f) for f in R.all_forms(n)})
    S = len(shapes)
    big = 10 ** 40
    bad = [((S, 0), "shape"), ((S + 1, 0), "shape"), ((S + 7, 3), "shape"), ((big, 0), "shape"),
           ((-1, 0), "negative"), ((S, -1), "negative"), ((-big, 0), "negative")]
    for s in range(S):
        got = expect_valueerror(lambda: tskit.Tree.unrank(n, (s, 0)))
        if got[0] != "ok":
            acc.fail("unrank:rejected", f"unrank({n}, ({s}, 0)) -> {got} although there are {S} shapes", case)
            continue
        f = tsk_form(got[1])[0]
        if f is None:
            continue
        L = R.num_labellings(R.shape(f))
        bad += [((s, L), "label"), ((s, L + 1), "label"), ((s, L * 2 + 5), "label"),
                ((s, big), "label"), ((s, -1), "negative")]
    for r, cls in bad:
        acc.ev(1, True)
        got = expect_valueerror(lambda: tskit.Tree.unrank(n, r))
        if got[0] == "ok":
            form = tsk_form(got[1])[0]
            suffix = ":n1" if n == 1 else ""
            acc.fail(f"unrank:oob_{cls}_accepted{suffix}",
                     f"unrank({n}, {r}) returns {R.form_str(form) if form is not None else '?'} with rank "
                     f"{expect_valueerror(lambda: tuple(got[1].rank()))}; valid ranks have shape < {S} "
                     f"and label < number of labellings", case)
        elif got[0] != "ValueError":
            acc.fail(f"unrank:oob_{cls}_exception", f"unrank({n}, {r}) -> {got}, expected ValueError", case)


def check_shapes(n, part, nparts, acc):
    import tskit

    case = {"kind": "shapes", "n": n, "part": part, "nparts": nparts}
    acc.enter(case)
    ref = R.all_forms(n)
    by_shape = {}
    for f in ref:
        by_shape.setdefault(R.shape(f), set()).add(f)
    shapes = list(tskit.all_tree_shapes(n))
    shs = []
    for i, t in enumerate(shapes):
        f, unary, prob = tsk_form(t)
        if prob or unary:
            acc.fail("all_tree_shapes:structure", f"all_tree_shapes({n})[{i}]: {prob or 'unary node'}", case)
            shs.append(None)
            continue
        shs.append(R.shape(f))
    if part == 0:
        good = [s for s in shs if s is not None]
        if len(good) != len(set(good)) or set(good) != set(by_shape):
            acc.fail("all_tree_shapes:set",
                     f"all_tree_shapes({n}) yields {len(shs)} shapes ({len(set(good))} distinct), brute force "
                     f"has {len(by_shape)}; missing {list(set(by_shape) - set(good))[:2]}", case)
        for t in tskit.all_tree_shapes(n, span=3):
            if t.tree_sequence.sequence_length != 3:
                acc.fail("all_tree_shapes:span", "span ignored", case)
    for i in range(part, len(shapes), nparts):
        sh = shs[i]
        if sh is None:
            continue
        t = shapes[i]
        want = by_shape.get(sh, set())
        # shape index i is the shape component of the rank of every labelling
        got = expect_valueerror(lambda: tuple(t.rank()))
        if got[0] != "ok" or got[1][0] != i:
            acc.fail("all_tree_shapes:order", f"all_tree_shapes({n})[{i}].rank() -> {got}, expected shape index {i}", case)
        f0 = tsk_form(t)[0]
        inputs = [("shape", t)]
        labs = None
        for name, src in inputs + [("last", None), ("renumbered", None)]:
            if name == "last":
                if not labs:
                    continue
                src = build_tree(labs[-1], n, {})[0]
            elif name == "renumbered":
                var = {"leaf_first": False, "times": 1, "order": "last"}
                src = build_tree(f0, n, var)[0]
            acc.ev(1, len(want) > 1)
            got = expect_valueerror(lambda: list(tskit.all_tree_labellings(src)))
            if got[0] != "ok":
                acc.fail("all_tree_labellings:raised", f"n={n} shape #{i} input={name}: {got}", case)
                continue
            fl = [tsk_form(x)[0] for x in got[1]]
            if name == "shape":
                labs = fl
            if len(fl) != len(set(fl)) or set(fl) != want:
                acc.fail("all_tree_labellings:set",
                         f"n={n} shape #{i} {sh} input={name}: {len(fl)} trees ({len(set(fl))} distinct), "
                         f"expected the {len(want)} labellings of the shape", case)
                continue
            rk = [expect_valueerror(lambda: tuple(x.rank())) for x in got[1]]
            if rk != [("ok", (i, j)) for j in range(len(fl))]:
                acc.fail("all_tree_labellings:order",
                         f"n={n} shape #{i} input={name}: ranks {rk[:6]}..., expected ({i},0),({i},1),...", case)
            if name == "shape":
                for x in tskit.all_tree_labellings(t, span=4):
                    if x.tree_sequence.sequence_length != 4:
                        acc.fail("all_tree_labellings:span", "span ignored", case)
                    break
    acc.count("shapes", len(range(part, len(shapes), nparts)))


# --------------------------------------------------------------------------------------
# building trees from forms (independent of tskit's RankTree)
# --------------------------------------------------------------------------------------


def build_tables(form, n, var, pops=None, npop=0):
    """Tables for the tree `form` on leaves 0..n-1.

    var: perm (internal node index -> id offset), leaf_first (leaf ids 0..n-1, else after the
    internal nodes), times (0,1,2), order ('first','last','embed_fwd','embed_rev'), A (list of
    node ids kept over the whole sequence in the embed constructions).
    Returns (tables, position of the target tree, leaf_id function)."""
    import tskit

    internals = []

    def rec(f):
        if R.is_leaf(f):
            return ("L", f)
        kids = [rec(c) for c in sorted(f, key=R.form_str)]
        internals.append(kids)
        return ("I", len(internals) - 1)

    root = rec(form)
    k = len(internals)
    perm = var.get("perm") or list(range(k))
    leaf_first = var.get("leaf_first", True)
    tmode = var.get("times", 0)

    def nid(ref):
        kind, x = ref
        if kind == "L":
            return x if leaf_first else k + x
        return (n + perm[x]) if leaf_first else perm[x]

    N = n + k
    time = [None] * N
    for lab in range(n):
        time[nid(("L", lab))] = {0: 0.0, 1: 0.25 * lab, 2: -1000.0}[tmode]
    edges = []
    for i, kids in enumerate(internals):
        top = max(time[nid(c)] for c in kids)
        inc = {0: 1.0, 1: 0.5 + 0.125 * i, 2: 10.0 ** (i % 3 + 1)}[tmode]
        u = nid(("I", i))
        time[u] = top + inc
        for c in kids:
            edges.append((u, nid(c)))
    order = var.get("order", "first")
    embed = order in ("embed_fwd", "embed_rev")
    L = 2.0 if embed else 1.0
    tc = tskit.TableCollection(L)
    for _ in range(npop):
        tc.populations.add_row()
    leaf_ids = {nid(("L", lab)): lab for lab in range(n)}
    for u in range(N):
        is_leaf = u in leaf_ids
        pop = -1
        if is_leaf and pops is not None:
            pop = pops.get(leaf_ids[u], -1)
        tc.nodes.add_row(flags=tskit.NODE_IS_SAMPLE if is_leaf else 0, time=time[u], population=pop)
    A = set(var.get("A") or [])
    for p, c in edges:
        if not embed or c in A:
            tc.edges.add_row(0, L, p, c)
        elif order == "embed_fwd":
            tc.edges.add_row(1, 2, p, c)
        else:
            tc.edges.add_row(0, 1, p, c)
    tc.sort()
    pos = {"first": 0.5, "last": 0.5, "embed_fwd": 1.5, "embed_rev": 0.5}[order]
    return tc, pos, (lambda lab: nid(("L", lab)))


def build_tree(form, n, var, pops=None, npop=0):
    """(tree positioned on the target, ts, leaf_id)."""
    import tskit

    tc, pos, leaf_id = build_tables(form, n, var, pops, npop)
    ts = tc.tree_sequence()
    order = var.get("order", "first")
    tree = tskit.Tree(ts)
    if order in ("first", "embed_fwd"):
        tree.first()
        while tree.interval.right <= pos:
            tree.next()
    else:
        tree.last()
        while tree.interval.left > pos:
            tree.prev()
    return tree, ts, leaf_id


def child_orders(tree):
    return tuple(tuple(tree.children(u)) for u in range(tree.tree_sequence.num_nodes))


def inv_variants(form, n, mode):
    """Deterministic list of variant dicts for one tree."""
    k = sum(1 for _ in _internal_count(form))
    ids = list(range(k))
    if mode == "full" or mode == "perms":
        perms = [list(p) for p in itertools.permutations(ids)]
    else:
        perms = [ids[j:] + ids[:j] for j in range(max(1, k))]
        perms += [list(reversed(ids))]
        perms = [list(p) for p in dict.fromkeys(tuple(p) for p in perms)]
    N = n + k
    out = []
    orders = [("first", None), ("last", None), ("embed_fwd", "odd"), ("embed_rev", "odd"),
              ("embed_fwd", "high"), ("embed_rev", "low")]

    def mk(perm, lf, tm, od):
        o, a = od
        v = {"perm": perm, "leaf_first": lf, "times": tm, "order": o}
        if a == "odd":
            v["A"] = [u for u in range(N) if u % 2 == 1]
        elif a == "high":
            v["A"] = [u for u in range(N) if u >= N // 2]
        elif a == "low":
            v["A"] = [u for u in range(N) if u < N // 2]
        return v

    if mode == "full":
        for perm in perms:
            for lf in (True, False):
                for tm in (0, 1, 2):
                    for od in orders:
                        out.append(mk(perm, lf, tm, od))
    else:
        j = 0
        for perm in perms:
            out.append(mk(perm, j % 2 == 0, j % 3, orders[j % len(orders)]))
            out.append(mk(perm, j % 2 == 1, (j + 1) % 3, orders[(j + 3) % len(orders)]))
            j += 1
        for lf in (True, False):
            for tm in (0, 1, 2):
                for od in orders:
                    out.append(mk(ids, lf, tm, od))
    return out


def _internal_count(form):
    if not R.is_leaf(form):
        yield 1
        for c in form:
            yield from _internal_count(c)


def check_inv_one(form, n, var, acc, base=None):
    """rank() of the variant equals rank() of the plain build, whose unrank is the same form."""
    import tskit

    case = {"kind": "inv", "n": n, "form": R.form_to_nested(form), "var": var}
    if base is None:
        t0 = build_tree(form, n, {})[0]
        r0 = expect_valueerror(lambda: tuple(t0.rank()))
        base = (r0, child_orders(t0))
    r0, co0 = base
    tree, ts, leaf_id = build_tree(form, n, var)
    # sanity of the harness: the variant really is the same topology
    f = tsk_form(tree)[0]
    if f is None or R.order_relabel(f)[0] != form:
        raise RuntimeError(f"harness: variant {var} of {R.form_str(form)} is a different tree")
    differs = child_orders(tree) != co0 or bool(var.get("times")) or not var.get("leaf_first", True)
    acc.ev(1, n >= 3 and differs)
    if [tuple(sorted(c)) for c in child_orders(tree)] != [tuple(c) for c in child_orders(tree)]:
        acc.count("inv_child_order_not_sorted")
    got = expect_valueerror(lambda: tuple(tree.rank()))
    if got != r0 or got[0] != "ok":
        acc.fail("rank:invariance",
                 f"{R.form_str(form)}: plain build has rank {r0}, variant {var} (children "
                 f"{tree.parent_dict}) has rank {got}", case)
    return base


def check_inv_form(form, n, mode, acc):
    import tskit

    case0 = {"kind": "inv", "n": n, "form": R.form_to_nested(form), "var": {}, "mode": mode}
    acc.enter(case0)
    t0 = build_tree(form, n, {})[0]
    r0 = expect_valueerror(lambda: tuple(t0.rank()))
    acc.ev(1, n >= 3)
    if r0[0] != "ok":
        acc.fail("rank:raised", f"rank() of {R.form_str(form)} -> {r0}", case0)
        return
    # the rank of an independently built tree unranks to the same topology
    u = expect_valueerror(lambda: tskit.Tree.unrank(n, r0[1]))
    uf = tsk_form(u[1])[0] if u[0] == "ok" else None
    if uf != form:
        acc.fail("rank:unrank_mismatch",
                 f"{R.form_str(form)} has rank {r0[1]} but unrank({n}, {r0[1]}) = "
                 f"{R.form_str(uf) if uf is not None else u}", case0)
    if n <= 6 and rankmap(n).get(form) != r0[1]:
        acc.fail("rank:value", f"{R.form_str(form)} built from tables has rank {r0[1]}, its position in "
                               f"all_trees({n}) gives {rankmap(n).get(form)}", case0)
    base = (r0, child_orders(t0))
    for var in inv_variants(form, n, mode):
        check_inv_one(form, n, var, acc, base)


def check_inv(n, mode, part, nparts, stride, acc):
    forms = R.all_forms(n)
    for i in range(part * stride, len(forms), nparts * stride):
        check_inv_form(forms[i], n, mode, acc)
    acc.sample({"kind": "inv", "n": n, "mode": mode, "example": R.form_str(forms[part * stride % len(forms)])})


# --------------------------------------------------------------------------------------
# (2) big integers
# --------------------------------------------------------------------------------------


def resolve_s(ss, S):
    if ss[0] == "lo":
        return ss[1]
    if ss[0] == "hi":
        return S - 1 - ss[1]
    return S * ss[1] // ss[2]


def check_big(n, ss, acc):
    import tskit

    case = {"kind": "big", "n": n, "s": ss}
    acc.enter(case)
    S = R.num_shapes_upto(n)[n]
    s = resolve_s(ss, S)
    got = expect_valueerror(lambda: tskit.Tree.unrank(n, (s, 0)))
    acc.ev(1, True)
    if got[0] != "ok":
        acc.fail("big:unrank_rejected", f"unrank({n}, ({s}, 0)) -> {got}; there are {S} shapes", case)
        return
    f0, unary, prob = tsk_form(got[1])
    if prob or unary or sorted(R.form_labels(f0)) != list(range(n)):
        acc.fail("big:unrank_tree", f"unrank({n}, ({s}, 0)) is not a tree on leaves 0..{n - 1} without unary nodes", case)
        return
    sh = R.shape(f0)
    L = R.num_labellings(sh)
    seen = {}
    ls = {0, min(1, L - 1), min(2, L - 1), L // 3, L // 2, max(0, L - 2), L - 1}
    # odd label ranks just beyond what a double holds exactly (2**53 and up): integer arithmetic that
    # strays through floating point loses their last bits
    for k in (53, 54, 56, 60, 63, 64, 70, 80):
        for d in (1, -1, 3):
            if 0 <= 2 ** k + d < L:
                ls.add(2 ** k + d)
    if L > 2 ** 54:
        ls.add(L - 1 - 2 ** 53)
        ls.add((L // 2) | 1)
    for l in sorted(ls):
        acc.ev(1, True)
        got = expect_valueerror(lambda: tskit.Tree.unrank(n, (s, l)))
        if got[0] != "ok":
            acc.fail("big:unrank_rejected", f"unrank({n}, ({s}, {l})) -> {got}; shape has {L} labellings", case)
            continue
        f, unary, prob = tsk_form(got[1])
        if prob or unary or sorted(R.form_labels(f)) != list(range(n)) or R.shape(f) != sh:
            acc.fail("big:unrank_tree", f"unrank({n}, ({s}, {l})) = {R.form_str(f) if f is not None else prob} "
                                        f"does not have the shape of label rank 0", case)
            continue
        if f in seen:
            acc.fail("big:not_injective", f"unrank({n}, ({s}, {l})) == unrank({n}, ({s}, {seen[f]}))", case)
        seen[f] = l
        rr = expect_valueerror(lambda: tuple(got[1].rank()))
        if rr != ("ok", (s, l)):
            acc.fail("big:roundtrip", f"unrank({n}, ({s}, {l})).rank() -> {rr}", case)
        # the same tree rebuilt from its form with other ids / child order / times
        var = {"leaf_first": False, "times": 1, "order": "embed_rev",
               "A": [u for u in range(2 * n) if u % 2 == 1],
               "perm": list(reversed(range(sum(1 for _ in _internal_count(f)))))}
        t2 = build_tree(f, n, var)[0]
        rr = expect_valueerror(lambda: tuple(t2.rank()))
        if rr != ("ok", (s, l)):
            acc.fail("big:invariance", f"unrank({n}, ({s}, {l})) rebuilt with {var} has rank {rr}", case)
    for r in [(s, L), (s, L + 1), (s, -1)] + ([(S, 0), (S + 1, 0), (-1, 0)] if ss[0] == "hi" else []):
        acc.ev(1, True)
        got = expect_valueerror(lambda: tskit.Tree.unrank(n, r))
        if got[0] != "ValueError":
            acc.fail("big:oob_accepted" if got[0] == "ok" else "big:oob_exception",
                     f"unrank({n}, {r}) -> {got[0]}; {S} shapes, shape {s} has {L} labellings", case)
    if ss[0] == "hi" and ss[1] == 0:
        # neighbouring shapes are different shapes
        g1 = expect_valueerror(lambda: tskit.Tree.unrank(n, (s - 1, 0)))
        if g1[0] == "ok" and R.shape(tsk_form(g1[1])[0]) == sh:
            acc.fail("big:not_injective", f"shapes {s - 1} and {s} of n={n} coincide", case)
    acc.sample({"kind": "big", "n": n, "s": str(s), "num_shapes": str(S), "labellings": str(L)})


# --------------------------------------------------------------------------------------
# (3)/(4) count_topologies
# --------------------------------------------------------------------------------------


def families(samples, kmax, mode):
    """All assignments of samples to sets 0..kmax-1 (or unassigned, unless mode 'full')."""
    lo = 0 if mode == "full" else -1
    for a in itertools.product(range(lo, kmax), repeat=len(samples)):
        sets = [[u for u, x in zip(samples, a) if x == j] for j in range(kmax)]
        for j in range(1, kmax, 2):
            sets[j].reverse()
        yield a, sets


def fixed_families(samples):
    S = list(samples)
    out = [[[u] for u in S]]
    if len(S) >= 2:
        h = len(S) // 2
        out.append([S[:h], S[h:]])
        out.append([S[0::2], S[1::2]])
    if len(S) >= 3:
        out.append([[S[-1]], [S[0]], S[1:-1]])
    return out


class TreeOracle:
    """Brute-force expected counters for one tree (parent array) with leaf samples."""

    def __init__(self, parent):
        self.parent = parent
        self.cache = {}

    def rank_of(self, choice):
        r = self.cache.get(choice, 0)
        if r == 0:
            f = R.induced(self.parent, choice)
            r = None if f is None else rankmap(len(choice)).get(f, ("unknown form", R.form_str(f)))
            self.cache[choice] = r
        return r

    def expected(self, sets):
        out = {}
        k = len(sets)
        for size in range(1, k + 1):
            for K in itertools.combinations(range(k), size):
                if any(not sets[j] for j in K):
                    continue
                c = Counter()
                for choice in itertools.product(*(sets[j] for j in K)):
                    r = self.rank_of(choice)
                    if r is not None:
                        c[r] += 1
                if c:
                    out[K] = c
        return out


def compare_counter(tc, exp, k):
    """None or a description of the first difference between a TopologyCounter and `exp`."""
    for size in range(1, k + 1):
        for K in itertools.combinations(range(k), size):
            want = exp.get(K, Counter())
            for key in ({K, tuple(reversed(K))} | ({K[0]} if size == 1 else set())):
                got = tc[key]
                got = {tuple(r): c for r, c in got.items() if c != 0}
                if got != dict(want):
                    return f"counter[{key}] = {got}, expected {dict(want)}"
    top = getattr(tc, "topologies", None)
    if top is not None:
        for key, c in top.items():
            if tuple(key) not in exp and any(v != 0 for v in c.values()):
                return f"unexpected key {key} -> {dict(c)}"
    return None


def internal_flags(parent, flags, sets):
    """(any sample has children, any node of the sets has children)."""
    ch = R.children_of(parent)
    bad = any(flags[u] and ch[u] for u in range(len(parent)))
    must = any(ch[u] for s in sets for u in s)
    return bad, must


def check_tree_call(tree, parent, flags, sets, oracle, acc, case, site, default=False):
    """One Tree.count_topologies call against the oracle.  Returns non-triviality."""
    bad, must = internal_flags(parent, flags, sets)
    if default:
        got = expect_valueerror(lambda: tree.count_topologies())
    else:
        got = expect_valueerror(lambda: tree.count_topologies(sets))
    if got[0] == "other":
        acc.fail(f"{site}:exception", f"count_topologies({sets}) -> {got[1]} on {parent}", case)
        return True
    if must:
        if got[0] != "ValueError":
            acc.fail(f"{site}:internal_sample_accepted",
                     f"count_topologies({sets}) returned although a node of the sets is internal; parent={parent}", case)
        return True
    if got[0] == "ValueError":
        if not bad:
            acc.fail(f"{site}:raised", f"count_topologies({sets}) -> ValueError({got[1]}); parent={parent} flags={flags}", case)
        return False
    exp = oracle.expected(sets)
    d = compare_counter(got[1], exp, len(sets))
    if d:
        acc.fail(f"{site}:counts", f"parent={parent} sample_sets={sets}: {d}", case)
    return any(len(K) >= 2 for K in exp)


def pop_tables(tc, samples_sets, kmax):
    """Copy of tc where the nodes of set j are in population j (others in none)."""
    import numpy as np

    tc = tc.copy()
    for _ in range(kmax):
        tc.populations.add_row()
    pop = np.full(tc.nodes.num_rows, -1, dtype=np.int32)
    for j, s in enumerate(samples_sets):
        for u in s:
            pop[u] = j
    tc.nodes.population = pop
    return tc


def check_ct_form(form, n, var, kmax, fam, pops, acc):
    tree, ts, leaf_id = build_tree(form, n, var)
    parent = tree.parent_array.tolist()[:-1]
    flags = [1 if ts.node(u).is_sample() else 0 for u in range(ts.num_nodes)]
    samples = [leaf_id(lab) for lab in range(n)]
    oracle = TreeOracle(parent)
    base = {"kind": "ct_form", "n": n, "form": R.form_to_nested(form), "var": var}
    acc.enter(base)
    for a, sets in families(samples, kmax, fam):
        case = dict(base, sets=sets)
        nt = check_tree_call(tree, parent, flags, sets, oracle, acc, case, "tree_count")
        acc.ev(1, nt)
        if pops:
            # default sample_sets = samples grouped by population
            case = dict(base, sets=sets, pops=True)
            pd = {lab: x for lab, x in enumerate(a) if x >= 0}
            t2 = build_tree(form, n, var, pops=pd, npop=kmax)[0]
            sets_sorted = [sorted(s) for s in sets]
            nt = check_tree_call(t2, parent, flags, sets_sorted, oracle, acc, case, "tree_count_default", default=True)
            acc.ev(1, nt)
    return base


def ct_form_variant(i, form, n):
    k = sum(1 for _ in _internal_count(form))
    orders = ["first", "last", "embed_fwd", "embed_rev"]
    var = {"leaf_first": i % 2 == 0, "times": i % 3, "order": orders[i % 4]}
    if var["order"].startswith("embed"):
        var["A"] = [u for u in range(n + k) if u % 2 == 1]
    if k > 1 and i % 5 in (1, 3):
        var["perm"] = list(reversed(range(k)))
    return var


def check_invalid_nodes(tree_or_ts, N, flags, samples, acc, case, level):
    """Nodes that are not samples / not nodes at all must be rejected with ValueError."""
    if level == "tree":
        call = lambda ss: tree_or_ts.count_topologies(ss)  # noqa
    else:
        call = lambda ss: list(tree_or_ts.count_topologies(ss))  # noqa
    nons = [u for u in range(N) if not flags[u]]
    tests = []
    if nons:
        tests.append(("nonsample", nons[-1]))
    tests.append(("oob", N))
    tests.append(("oob", N + 3))
    tests.append(("negative", -1))
    tests.append(("negative", -2))
    tests.append(("oob", -N - 1))
    for cls, u in tests:
        sets = [list(samples[:1]), [u]]
        got = expect_valueerror(lambda: call(sets))
        acc.ev(1, True)
        # The property quantifies over families of (valid) sample sets; what happens for ids that are
        # not nodes at all is C09's business (no crash), so only genuine non-sample NODES are judged
        # here, and any exception type counts as a rejection.
        if got[0] == "ok" and cls == "nonsample":
            acc.fail(f"{level}_count:{cls}_node_accepted",
                     f"count_topologies({sets}) returned a result; {N} nodes, flags {flags}", dict(case, sets=sets))
        elif got[0] == "ok":
            acc.count(f"dontcare_{level}_count_{cls}_node_accepted")
        elif got[0] == "other":
            acc.count(f"dontcare_{level}_count_{cls}_node_other_exception")


def leafsubset_flags(N, ranks, cells):
    """Flag vectors whose samples are never parents: all subsets of the childless nodes, plus
    one vector with an internal sample."""
    parents = {p for cell in cells for p in cell if p >= 0}
    leaves = [u for u in range(N) if u not in parents]
    for bits in itertools.product((0, 1), repeat=len(leaves)):
        fl = [0] * N
        for u, b in zip(leaves, bits):
            fl[u] = b
        yield tuple(fl)
    if parents:
        fl = [0 if u in parents else 1 for u in range(N)]
        fl[min(parents)] = 1
        yield tuple(fl)


def leaves_flags(N, ranks, cells):
    parents = {p for cell in cells for p in cell if p >= 0}
    yield tuple(0 if u in parents else 1 for u in range(N))


FLAGS = {"leafsubsets": leafsubset_flags, "leaves": leaves_flags}


def members_of(spec):
    if "b" in spec:
        b = dict(spec["b"])
        if isinstance(b.get("flags"), str) and b["flags"] in FLAGS:
            b["flags"] = FLAGS[b["flags"]]
        return U.enumerate_members(**b)
    return ls_members(**spec["ls"])


def ls_members(S, I, G):
    """Leaf-sample universe: nodes 0..S-1 are samples and never parents, nodes S..S+I-1 are
    internal; every node chooses in every cell a parent among the older internal nodes or none."""
    N = S + I
    choices = []
    for u in range(N):
        choices.append([-1] + [v for v in range(max(S, u + 1), N)])
    pv = list(itertools.product(*choices))
    flags = tuple(1 if u < S else 0 for u in range(N))
    for cells in itertools.product(pv, repeat=G):
        yield U.Member(N, G, tuple(range(N)), cells, flags)


def check_rank_member(m, tree, parent, acc):
    """Tree.rank on an arbitrary single tree: multi-root and unary trees are rejected, otherwise
    the rank is that of the order-preserving relabelling of the leaves."""
    case = {"kind": "rank_univ", "member": m.desc()}
    rts = RefTS(m.times, m.flags, m.edges(), m.L)
    roots = rts.tree_at(0.0).roots(1)
    got = expect_valueerror(lambda: tuple(tree.rank()))
    if got[0] == "other":
        acc.fail("rank_univ:exception", f"rank() -> {got[1]}; parent={parent} flags={list(m.flags)}", case)
        return
    if len(roots) == 0:
        acc.ev(1, False)
        return
    if len(roots) > 1:
        acc.ev(1, True)
        if got[0] != "ValueError":
            acc.fail("rank_univ:multiroot_accepted", f"rank() = {got[1]} for roots {roots}; parent={parent}", case)
        return
    form, unary = R.tree_form(parent, roots[0])
    if unary:
        acc.ev(1, True)
        if got[0] != "ValueError":
            acc.fail("rank_univ:unary_accepted", f"rank() = {got[1]} for a tree with a unary node; parent={parent}", case)
        return
    rel, n = R.order_relabel(form)
    acc.ev(1, n >= 2)
    want = rankmap(n).get(rel)
    if got != ("ok", want):
        acc.fail("rank_univ:value", f"rank() -> {got}, expected {want} for {R.form_str(rel)}; parent={parent}", case)


def check_ct_member(m, kmax, acc, only_sets=None):
    ts = m.ts()
    tree = ts.first()
    N = m.N
    parent = tree.parent_array.tolist()[:-1]
    rts = RefTS(m.times, m.flags, m.edges(), m.L)
    if parent != rts.parent_map(0.0):
        raise RuntimeError("harness: tskit tree differs from the tables (C01 territory)")
    flags = list(m.flags)
    samples = m.samples
    oracle = TreeOracle(parent)
    base = {"kind": "ct_member", "member": m.desc(), "kmax": kmax}
    acc.enter(base)
    if only_sets is None:
        check_rank_member(m, tree, parent, acc)
        if N > 0 and samples:
            check_invalid_nodes(tree, N, flags, samples, acc, base, "tree")
    for a, sets in families(samples, kmax, "all"):
        if only_sets is not None and sets != only_sets:
            continue
        case = dict(base, sets=sets)
        nt = check_tree_call(tree, parent, flags, sets, oracle, acc, case, "tree_count")
        acc.ev(1, nt)


def check_cts_member(m, fams, pops, acc, invalid=True):
    """TreeSequence.count_topologies against the per-tree oracle for each family."""
    import tskit

    tc = m.tables()
    ts = tc.tree_sequence()
    rts = RefTS(m.times, m.flags, m.edges(), m.L)
    ivs = rts.intervals()
    parents = [rts.parent_map(l) for l, _ in ivs]
    oracles = [TreeOracle(p) for p in parents]
    flags = list(m.flags)
    base = {"kind": "cts", "member": m.desc()}
    acc.enter(base)
    if ts.num_trees != len(ivs):
        raise RuntimeError("harness: number of trees differs from the tables (C01 territory)")
    if invalid and m.N > 0 and m.samples:
        check_invalid_nodes(ts, m.N, flags, m.samples, acc, base, "ts")
    for sets in fams:
        for default in ((False, True) if pops else (False,)):
            case = dict(base, sets=sets, pops=default)
            if default:
                ts2 = pop_tables(tc, sets, len(sets)).tree_sequence()
                use = [sorted(s) for s in sets]
                gen = ts2.count_topologies()
            else:
                use = sets
                gen = ts.count_topologies(sets)
            nontrivial = False
            site = "ts_count_default" if default else "ts_count"
            for i in range(len(ivs) + 1):
                try:
                    tcnt = next(gen)
                    got = ("ok", tcnt)
                except StopIteration:
                    got = ("stop", None)
                except ValueError as e:
                    got = ("ValueError", str(e))
                except Exception as e:  # noqa
                    got = ("other", repr(e))
                if i == len(ivs):
                    if got[0] != "stop":
                        acc.fail(f"{site}:length", f"more than {len(ivs)} counters yielded; sets={use}", case)
                    break
                if got[0] == "stop":
                    acc.fail(f"{site}:length", f"only {i} counters for {len(ivs)} trees; sets={use}", case)
                    break
                if got[0] == "other":
                    acc.fail(f"{site}:exception", f"tree {i}: {got[1]}; sets={use}", case)
                    break
                bad, must = internal_flags(parents[i], flags, use)
                if got[0] == "ValueError":
                    nontrivial = nontrivial or must
                    if not bad:
                        acc.fail(f"{site}:raised", f"tree {i}: ValueError({got[1]}) without an internal sample; "
                                                   f"parent={parents[i]} sets={use}", case)
                    break
                if must:
                    acc.fail(f"{site}:internal_sample_accepted",
                             f"tree {i}: a counter was returned although a node of {use} is internal; parent={parents[i]}", case)
                    break
                exp = oracles[i].expected(use)
                nontrivial = nontrivial or any(len(K) >= 2 for K in exp)
                d = compare_counter(got[1], exp, len(use))
                if d:
                    acc.fail(f"{site}:counts", f"tree {i} of {len(ivs)} (parents per tree {parents}) "
                                               f"sample_sets={use}: {d}", case)
                    break
            acc.ev(1, nontrivial)
        # the per-tree method on every tree of the sequence (trees reached by iteration)
        case = dict(base, sets=sets, pops=False)
        for i, tree in enumerate(ts.trees()):
            check_tree_call(tree, parents[i], flags, sets, oracles[i], acc, case, "tree_count_in_ts")


# --------------------------------------------------------------------------------------
# shard runner / replay
# --------------------------------------------------------------------------------------


def run_shard(spec):
    acc = Acc()
    kind = spec["kind"]
    part, nparts = spec.get("part", 0), spec.get("nparts", 1)
    if kind == "enum":
        check_enum(spec["n"], part, nparts, acc)
    elif kind == "shapes":
        check_shapes(spec["n"], part, nparts, acc)
    elif kind == "inv":
        check_inv(spec["n"], spec["mode"], part, nparts, spec.get("stride", 1), acc)
    elif kind == "big":
        check_big(spec["n"], spec["s"], acc)
    elif kind == "ct_forms":
        n = spec["n"]
        forms = R.all_forms(n)
        for i in range(part, len(forms), nparts):
            base = check_ct_form(forms[i], n, ct_form_variant(i, forms[i], n), spec["kmax"], spec["fam"],
                                 spec["pops"], acc)
            if i == part:
                acc.sample({"kind": "ct_forms", "kmax": spec["kmax"], "tree": R.form_str(forms[i]), "var": base["var"]})
    elif kind == "ct_univ":
        first = True
        for m in U.shard(members_of(spec), part, nparts):
            check_ct_member(m, spec["kmax"], acc)
            if first and m.edges():
                acc.sample({"kind": "ct_univ", "member": m.desc()})
                first = False
    elif kind == "cts":
        stride = spec.get("stride", 1)
        first = True
        for m in U.shard(members_of(spec), part * stride, nparts * stride):
            fams = []
            if "kmax" in spec:
                fams += [s for _, s in families(m.samples, spec["kmax"], spec.get("fam", "all"))]
            if spec.get("fixed"):
                ff = fixed_families(m.samples)
                if spec["fixed"] is not True:
                    ff = ff[:spec["fixed"]]
                fams += [f for f in ff if f not in fams]
            check_cts_member(m, fams, spec.get("pops", False), acc)
            if first and m.edges():
                acc.sample({"kind": "cts", "member": m.desc(), "families": len(fams)})
                first = False
    else:
        raise ValueError(kind)
    return acc.result()


def replay(case):
    acc = Acc()
    kind = case["kind"]
    if kind == "enum":
        check_enum(case["n"], case["part"], case["nparts"], acc)
    elif kind == "shapes":
        check_shapes(case["n"], case["part"], case["nparts"], acc)
    elif kind == "inv":
        form = R.nested_to_form(case["form"])
        if case["var"]:
            check_inv_one(form, case["n"], case["var"], acc)
        else:
            check_inv_form(form, case["n"], case.get("mode", "rot"), acc)
    elif kind == "big":
        check_big(case["n"], case["s"], acc)
    elif kind == "ct_form":
        form = R.nested_to_form(case["form"])
        n, var, sets = case["n"], case["var"], case["sets"]
        tree, ts, leaf_id = build_tree(form, n, var)
        parent = tree.parent_array.tolist()[:-1]
        flags = [1 if ts.node(u).is_sample() else 0 for u in range(ts.num_nodes)]
        oracle = TreeOracle(parent)
        if case.get("pops"):
            pd = {}
            for j, s in enumerate(sets):
                for u in s:
                    pd[[leaf_id(lab) for lab in range(n)].index(u)] = j
            t2 = build_tree(form, n, var, pops=pd, npop=len(sets))[0]
            check_tree_call(t2, parent, flags, [sorted(s) for s in sets], oracle, acc, case,
                            "tree_count_default", default=True)
        else:
            check_tree_call(tree, parent, flags, sets, oracle, acc, case, "tree_count")
    elif kind == "ct_member":
        m = U.Member.from_desc(case["member"])
        if "sets" in case:
            ts = m.ts()
            tree = ts.first()
            parent = tree.parent_array.tolist()[:-1]
            flags = list(m.flags)
            sets = case["sets"]
            if any(u < 0 or u >= m.N or not flags[u] for s in sets for u in s):
                check_invalid_nodes(tree, m.N, flags, m.samples, acc, case, "tree")
            else:
                check_tree_call(tree, parent, flags, sets, TreeOracle(parent), acc, case, "tree_count")
        else:
            check_ct_member(m, case.get("kmax", 2), acc)
    elif kind == "rank_univ":
        m = U.Member.from_desc(case["member"])
        tree = m.ts().first()
        check_rank_member(m, tree, tree.parent_array.tolist()[:-1], acc)
    elif kind == "cts":
        m = U.Member.from_desc(case["member"])
        if "sets" in case:
            sets = case["sets"]
            flags = list(m.flags)
            if any(u < 0 or u >= m.N or not flags[u] for s in sets for u in s):
                check_cts_member(m, [], False, acc, invalid=True)
            else:
                check_cts_member(m, [sets], bool(case.get("pops")), acc, invalid=False)
        else:
            check_cts_member(m, [], False, acc, invalid=True)
    else:
        raise ValueError(kind)
    return acc.failures
