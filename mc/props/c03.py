"""C03  Decoded genotypes follow nearest-mutation inheritance and missing-data rules.

Exhaustive input-space exploration (members x mutation placements x samples x
isolated_as_missing x alleles x intervals) plus exhaustive Variant.decode() call
histories of length <= 3, all compared with mc/ref/geno.py."""
import itertools

from .. import muts as MU
from .. import universe as U
from ..acc import Acc
from .. import argforms as AF
from ..ref import geno as G
from ..ref.trees import NULL, RefTS

ID = "C03"
LEVEL = "exploration"
RULE = ("universe member x placement of <=2 sites / <=2-3 mutations per site over states "
        "{0,1,2} (plus '' and 'AA' variants, known and unknown times) x samples argument (None, every "
        "ordered list of <=2 distinct nodes, all nodes reversed, a duplicate) x isolated_as_missing x "
        "alleles argument (6 forms) x every grid sub-interval; decode histories: every sequence of <=3 "
        "decode() calls over 4 sites; non-trivial = placement has >=1 mutation and member has >=1 edge")
ASSUMPTIONS = [
    "mutation parents are set by the reference nearest-mutation rule (valid tables)",
    "allele order beyond alleles[0] is unspecified and compared through the mapping",
]
ALLELE_ARGS = [None, ("0", "1", "2"), ("2", "1", "0"), ("0", "0", "1"), ("0",),
               ("", "0", "1", "2", "AA")]


def bounds(tier):
    return {"quick": "N=3 G<=2 all flags, 1 site <=2 muts 3 states; N=4 G=1 2 states; N=4 G=2 1 mut; "
                     "2-site N=3; special alleles; decode histories N=3 G=2 depth<=3",
            "thorough": "adds N=3 G<=2 weak orders, <=3 muts, N=4 G=2 <=2 muts, 3-lists of samples"}[tier]


def shards(tier, seed):
    specs = []

    def add(name, b, per, **kw):
        cnt = U.count_members(b["N"], b["G"], b.get("times", "id"))
        n = max(1, -(-cnt // per))
        for k in range(n):
            specs.append(dict(name=name, b=b, k=k, n=n, **kw))

    if tier == "quick":
        add("A", dict(N=2, G=2), 8, max_sites=1, max_muts=3, states=("0", "1", "2"), cfg="full")
        add("A", dict(N=3, G=1), 4, max_sites=1, max_muts=2, states=("0", "1", "2"), cfg="full")
        add("A", dict(N=3, G=2), 4, max_sites=1, max_muts=2, states=("0", "1"), cfg="full", flagmode="some")
        add("A", dict(N=4, G=1), 8, max_sites=1, max_muts=2, states=("1",), cfg="lite")
        add("A", dict(N=4, G=2), 60, max_sites=1, max_muts=1, states=("1",), cfg="lite", flagmode="some")
        add("A", dict(N=3, G=2), 8, max_sites=2, max_muts=1, states=("1",), cfg="lite", only_two=True, flagmode="some")
        add("A", dict(N=3, G=1), 8, max_sites=1, max_muts=2, states=("", "AA", "1"), cfg="full", anc="AA")
        add("A", dict(N=3, G=1), 8, max_sites=1, max_muts=2, states=("", "AA", "1"), cfg="full", anc="")
        add("A", dict(N=3, G=2), 8, max_sites=1, max_muts=2, states=("0", "1"), cfg="lite", times_mode="known", flagmode="some")
        # a site with 127..257 distinct alleles (genotype values beyond one signed / unsigned byte)
        add("M", dict(N=3, G=1), 12, counts=(127, 128, 129, 130, 256, 257))
        add("B", dict(N=3, G=2), 6)
        add("B", dict(N=4, G=2, ), 120, flagmode="allsamples")
        # three trees: a site on an internal breakpoint can be decoded after a site in a strictly later tree
        add("B", dict(N=3, G=3), 24, flagmode="some")
    else:
        add("A", dict(N=2, G=2, times="weak"), 4, max_sites=1, max_muts=3, states=("0", "1", "2"), cfg="full")
        add("A", dict(N=3, G=1, times="weak"), 4, max_sites=1, max_muts=3, states=("0", "1", "2"), cfg="full")
        add("A", dict(N=3, G=2, times="weak"), 4, max_sites=1, max_muts=2, states=("0", "1", "2"), cfg="full3")
        add("A", dict(N=4, G=1), 4, max_sites=1, max_muts=2, states=("0", "1", "2"), cfg="full")
        add("A", dict(N=4, G=2), 12, max_sites=1, max_muts=2, states=("0", "1"), cfg="lite")
        add("A", dict(N=3, G=2), 4, max_sites=2, max_muts=2, states=("0", "1"), cfg="lite", only_two=True)
        add("A", dict(N=3, G=2), 8, max_sites=1, max_muts=2, states=("", "AA", "1"), cfg="full", anc="AA")
        add("A", dict(N=3, G=2), 8, max_sites=1, max_muts=2, states=("", "AA", "1"), cfg="full", anc="")
        add("A", dict(N=3, G=2, times="weak"), 8, max_sites=1, max_muts=3, states=("0", "1"), cfg="lite", times_mode="known")
        add("A", dict(N=3, G=3), 40, max_sites=1, max_muts=2, states=("0", "1"), cfg="lite")
        add("M", dict(N=3, G=2), 12, counts=(127, 128, 129, 130, 255, 256, 257, 300))
        add("B", dict(N=3, G=2, times="weak"), 6)
        add("B", dict(N=3, G=3), 20)
        add("B", dict(N=4, G=2), 40)
    return specs


def sample_args(m, cfg):
    N = m.N
    out = [None]
    maxlen = 3 if cfg == "full3" else (2 if cfg in ("full",) else 1)
    for k in range(1, maxlen + 1):
        out.extend(list(p) for p in itertools.permutations(range(N), k))
    if N >= 2:
        out.append(list(range(N - 1, -1, -1)))
        out.append([0, 0])
    return out


def expected_for(rts, sid, nodes, iam, alleles_arg):
    """Returns ("error",) | ("maybe-error", states) | ("ok", states)."""
    states = G.site_alleles(rts, sid, nodes, iam)
    if alleles_arg is None:
        return ("ok", states)
    site_states = set(G.site_allele_list(rts, sid))
    needed = {s for s in states if s is not None}
    needed.add(rts.sites[sid][1])
    if not needed <= set(alleles_arg):
        # the ancestral state or an allele carried by a requested node is not in the map
        return ("error", states)
    if not site_states <= set(alleles_arg):
        return ("maybe-error", states)
    return ("ok", states)


def check_variant(v, rts, sid, nodes, iam, alleles_arg, fail):
    kind, states = expected_for(rts, sid, nodes, iam, alleles_arg)
    if v.site.id != sid or v.site.position != rts.sites[sid][0]:
        fail("variant:site", f"site id {v.site.id} expected {sid}")
        return
    al = v.alleles
    gt = v.genotypes.tolist()
    if list(v.samples.tolist()) != list(nodes):
        fail("variant:samples", f"samples {v.samples.tolist()} expected {list(nodes)}")
    if len(gt) != len(nodes):
        fail("variant:length", f"{len(gt)} genotypes for {len(nodes)} nodes")
        return
    got = []
    for g in gt:
        if g == -1:
            got.append(None)
        elif 0 <= g < len(al) and al[g] is not None:
            got.append(al[g])
        else:
            got.append(("BAD-INDEX", g))
    if got != states:
        fail("variant:genotypes", f"site {sid} nodes {list(nodes)} iam={iam} alleles={alleles_arg}: "
             f"decoded {got} (alleles {al}, genotypes {gt}) expected {states}")
        return
    missing = any(s is None for s in states)
    if (len(al) > 0 and al[-1] is None) != missing or v.has_missing_data != missing:
        fail("variant:missing-marker", f"alleles {al} has_missing_data={v.has_missing_data} but missing={missing}")
    if v.num_missing != sum(1 for s in states if s is None):
        fail("variant:num_missing", f"{v.num_missing}")
    real = [a for a in al if a is not None]
    if None in al[:-1]:
        fail("variant:alleles", f"None not last in {al}")
    if alleles_arg is None:
        if not real or real[0] != rts.sites[sid][1]:
            fail("variant:alleles0", f"alleles {al} but ancestral state {rts.sites[sid][1]!r}")
        if len(set(real)) != len(real):
            fail("variant:alleles-dup", f"{al}")
        if not set(real) <= set(G.site_allele_list(rts, sid)):
            fail("variant:alleles-extra", f"{al} not within site states {G.site_allele_list(rts, sid)}")
    else:
        if tuple(real) != tuple(alleles_arg):
            fail("variant:user-alleles", f"alleles {al} expected {alleles_arg}")
        for g, s in zip(gt, states):
            if s is not None and g != list(alleles_arg).index(s):
                fail("variant:first-occurrence", f"genotype {g} for allele {s!r} in {alleles_arg}")
    if v.num_alleles != len(real):
        fail("variant:num_alleles", f"{v.num_alleles} vs {al}")
    if len(set(real)) == len(real):
        cnt = v.counts()
        exp = {a: 0 for a in real}
        for s in states:
            if s is None:
                exp[None] = exp.get(None, 0) + 1
            else:
                exp[s] += 1
        if {k: int(c) for k, c in cnt.items()} != exp:
            fail("variant:counts", f"{dict(cnt)} expected {exp}")
        tot = len(nodes)
        fr = v.frequencies()
        if tot > 0 and any(abs(fr[k] - exp[k] / tot) > 1e-12 for k in exp):
            fail("variant:frequencies", f"{fr}")
        if "N" not in real:
            st = v.states().tolist()
            if st != ["N" if s is None else s for s in states]:
                fail("variant:states", f"{st} expected {states}")
            # a missing-data string longer than every allele at the site, and an empty one
            for mds in ("<missing>", "", "0?"):
                if mds not in real:
                    st = v.states(missing_data_string=mds).tolist()
                    if st != [mds if s is None else s for s in states]:
                        fail("variant:states:missing_data_string", f"states(missing_data_string={mds!r}) = {st} expected "
                             f"{[mds if s is None else s for s in states]}")


def variants_call(ts, kw):
    try:
        return list(ts.variants(**kw)), None
    except Exception as e:  # noqa
        return None, e


def check_A(m, placement, times_mode, cfg, acc, anc="0"):
    import tskit

    tc = m.tables()
    MU.add_sites(tc, m, placement, times_mode)
    case0 = {"kind": "A", "member": m.desc(), "placement": placement, "times_mode": times_mode, "cfg": cfg}
    acc.enter(case0)
    ts = tc.tree_sequence()
    rts = RefTS.from_tables(tc)
    S = rts.samples
    nsites = len(rts.sites)
    positions = [s[0] for s in rts.sites]
    coords = m.coords
    intervals = [(None, None)] + [(a, b) for a, b in itertools.combinations(coords, 2)]
    nt = bool(m.edges()) and any(len(s[2]) for s in placement)

    def run(samples, iam, alleles_arg, left, right, copy):
        nodes = S if samples is None else samples
        kw = dict(samples=samples, isolated_as_missing=iam, alleles=alleles_arg, copy=copy)
        if left is not None:
            kw.update(left=left, right=right)
        case = dict(case0, kw={k: (list(v) if isinstance(v, tuple) else v) for k, v in kw.items()})
        acc.ev(1, nt)

        def fail(key, what):
            acc.fail(key, what, case)

        sids = [j for j in range(nsites)
                if (left is None or left <= positions[j]) and (right is None or positions[j] < right)]
        dup = samples is not None and len(set(samples)) != len(samples)
        nonsample = samples is not None and any(not rts.flags[u] for u in samples)
        must_fail = dup or (nonsample and iam)
        kinds = [expected_for(rts, j, nodes, iam, alleles_arg)[0] for j in sids]
        # arguments equal to their documented default are sometimes omitted, sometimes None
        kwc = AF.omit_defaults(kw, dict(samples=None, isolated_as_missing=True, alleles=None, copy=True, left=None, right=None),
                               salt=len(sids) + int(copy), none_ok=("isolated_as_missing",))
        if samples is not None:
            # the sample list in one of the forms a caller may pass (deterministic in the list)
            form, kwc["samples"] = AF.pick(samples, salt=int(iam))
            acc.count("argform_" + form)
        try:
            got = []
            for v in ts.variants(**kwc):
                if not copy:
                    v = v.copy()
                got.append(v)
            err = None
        except Exception as e:  # noqa
            got, err = None, e
        if must_fail:
            if err is None:
                fail("variants:no-error", f"expected an error for samples={samples} iam={iam}")
            return
        if err is not None:
            if "error" in kinds or "maybe-error" in kinds:
                if not isinstance(err, (tskit.LibraryError, ValueError)):
                    fail("variants:wrong-error", repr(err))
                return
            fail("variants:unexpected-error", repr(err))
            return
        if "error" in kinds:
            fail("variants:allele-not-found-accepted", f"alleles={alleles_arg} lacks a needed allele but no error")
            return
        if [v.site.id for v in got] != sids:
            fail("variants:sites", f"sites {[v.site.id for v in got]} expected {sids} for [{left},{right})")
            return
        for v, j in zip(got, sids):
            check_variant(v, rts, j, nodes, iam, alleles_arg, fail)

    sargs = sample_args(m, cfg)
    for samples in sargs:
        for iam in (True, False):
            run(samples, iam, None, None, None, True)
    for al in ALLELE_ARGS[1:]:
        for iam in (True, False):
            run(None, iam, al, None, None, True)
        if m.N:
            run([m.N - 1], False, al, None, None, False)
    for (l, r) in intervals[1:]:
        run(None, True, None, l, r, False)
    # genotype_matrix / haplotypes agree with the same rule
    acc.ev(1, nt)
    for iam in (True, False):
        for samples in (None, sargs[-2] if len(sargs) > 2 else None):
            nodes = S if samples is None else samples
            if samples is not None and iam and any(not rts.flags[u] for u in samples):
                continue
            case = dict(case0, matrix={"samples": samples, "iam": iam})
            try:
                Gm = ts.genotype_matrix(samples=samples, isolated_as_missing=iam)
            except Exception as e:  # noqa
                acc.fail("genotype_matrix:error", repr(e), case)
                continue
            if Gm.shape != (nsites, len(nodes)):
                acc.fail("genotype_matrix:shape", str(Gm.shape), case)
                continue
            for j in range(nsites):
                al = G.site_allele_list(rts, j)
                states = G.site_alleles(rts, j, nodes, iam)
                # default allele order is unspecified beyond [0]; use the variant's mapping
                v = next(ts.variants(samples=samples, isolated_as_missing=iam, left=positions[j],
                                     right=None if j == nsites - 1 else positions[j + 1]))
                row = [None if g == -1 else v.alleles[g] for g in Gm[j].tolist()]
                if row != states:
                    acc.fail("genotype_matrix:row", f"site {j}: {row} expected {states}", case)
            single = all(len(x) == 1 for j in range(nsites) for x in G.site_allele_list(rts, j))
            try:
                H = list(ts.haplotypes(samples=samples, isolated_as_missing=iam))
                herr = None
            except Exception as e:  # noqa
                H, herr = None, e
            if not single:
                if herr is None and nsites and len(nodes):
                    acc.fail("haplotypes:multichar-accepted", "no TypeError", case)
            elif herr is not None:
                acc.fail("haplotypes:error", repr(herr), case)
            else:
                exp = ["".join("N" if s is None else s
                               for s in (G.site_alleles(rts, j, [u], iam)[0] for j in range(nsites)))
                       for u in nodes]
                if H != exp:
                    acc.fail("haplotypes:value", f"{H} expected {exp}", case)
    # genotype_matrix with a user allele mapping follows the same rule as variants(alleles=...)
    for al in ALLELE_ARGS[1:]:
        for iam in (True, False):
            case = dict(case0, matrix={"samples": None, "iam": iam, "alleles": list(al)})
            acc.ev(1, nt or nsites > 0)
            kinds = [expected_for(rts, j, S, iam, al) for j in range(nsites)]
            try:
                Gm = ts.genotype_matrix(isolated_as_missing=iam, alleles=al)
                gerr = None
            except Exception as e:  # noqa
                Gm, gerr = None, e
            if any(k[0] == "error" for k in kinds):
                if gerr is None:
                    acc.fail("genotype_matrix:allele-not-found-accepted",
                             f"alleles={al} lacks a needed allele but genotype_matrix succeeded", case)
                continue
            if gerr is not None:
                if not any(k[0] == "maybe-error" for k in kinds):
                    acc.fail("genotype_matrix:alleles-error", repr(gerr), case)
                continue
            if Gm.shape != (nsites, len(S)):
                acc.fail("genotype_matrix:shape", str(Gm.shape), case)
                continue
            for j in range(nsites):
                row = [None if g == -1 else (al[g] if 0 <= g < len(al) else ("BAD-INDEX", g)) for g in Gm[j].tolist()]
                if row != kinds[j][1]:
                    acc.fail("genotype_matrix:alleles-row", f"site {j} alleles={al} iam={iam}: {Gm[j].tolist()} -> {row} "
                             f"expected {kinds[j][1]}", case)
    acc.sample({"member": m.desc(), "placement": placement})


def many_alleles(m, K):
    """One site (at the last grid point below L) with K distinct alleles: K-2 stacked mutations on node 0
    and one on the last node, so that requested nodes carry the allele indexes K-2 and K-1."""
    muts = [(0, f"s{i}") for i in range(1, K - 1)] + [(m.N - 1, f"s{K - 1}")]
    return [(m.coords[m.G - 1], "s0", muts)]


def fixed_multisite(m, variant=0):
    """One site on every half-grid position (so every internal breakpoint carries a site).
    variant 0: mutation on node j%N, a back mutation at site 1, a double hit at site 2;
    variant 1: every site has a mutation on the oldest node; variant 2: on the second oldest
    node (state 1) and on node 0 (state 2)."""
    pos = MU.site_positions(m)
    if variant == 1:
        return [(x, "0", [(m.N - 1, "1")]) for x in pos]
    if variant == 2:
        return [(x, "0", [(max(m.N - 2, 0), "1"), (0, "2")] if m.N > 1 else [(0, "1")]) for x in pos]
    out = []
    for j, x in enumerate(pos):
        ml = [(j % m.N, "1")]
        if j == 1:
            ml = [(m.N - 1, "1"), (0, "0")]
        if j == 2:
            ml = [(0, "2"), (0, "1")]
        out.append((x, "0", ml))
    return out


def check_B(m, acc, variant=0):
    """Decode-order histories and whole-matrix views on a multi-site member."""
    import tskit

    placement = fixed_multisite(m, variant)
    tc = m.tables()
    MU.add_sites(tc, m, placement)
    case0 = {"kind": "B", "member": m.desc(), "variant": variant}
    acc.enter(case0)
    ts = tc.tree_sequence()
    rts = RefTS.from_tables(tc)
    S = rts.samples
    ns = len(rts.sites)
    nt = bool(m.edges()) and bool(S)
    configs = [(None, True), (None, False), (list(range(m.N - 1, -1, -1)), False)]
    for samples, iam in configs:
        nodes = S if samples is None else samples
        exp = [G.site_alleles(rts, j, nodes, iam) for j in range(ns)]
        for k in (1, 2, 3):
            for hist in itertools.product(range(ns), repeat=k):
                acc.ev(1, nt)
                acc.count("transitions", k)
                v = tskit.Variant(ts, samples=samples, isolated_as_missing=iam)
                for step, j in enumerate(hist):
                    v.decode(j)
                    got = [None if g == -1 else v.alleles[g] for g in v.genotypes.tolist()]
                    if got != exp[j] or v.site.id != j:
                        acc.fail("decode-history:genotypes",
                                 f"decode order {list(hist[:step + 1])}: site {j} gives {got} expected {exp[j]}",
                                 dict(case0, samples=samples, iam=iam, history=list(hist)))
                        break
                    c = v.copy()
                    if [None if g == -1 else c.alleles[g] for g in c.genotypes.tolist()] != got or c.site.id != j:
                        acc.fail("decode-history:copy", f"copy differs after {list(hist[:step + 1])}",
                                 dict(case0, samples=samples, iam=iam, history=list(hist)))
                        break
    # alignments on discrete genomes without isolated samples
    if all(float(x).is_integer() for x in m.coords):
        acc.ev(1, nt)
        tc2 = m.tables()
        placement2 = [p for p in placement if float(p[0]).is_integer()]
        MU.add_sites(tc2, m, placement2)
        ts2 = tc2.tree_sequence()
        r2 = RefTS.from_tables(tc2)
        L = int(m.L)
        isolated = any(
            r2.flags[u] and par[u] == NULL and u not in par
            for x in range(L) for par in [r2.parent_map(x)] for u in range(m.N))
        for refseq in (None, "ACGTACGT"[:L]):
            for left, right in [(None, None)] + [(a, b) for a in range(L) for b in range(a + 1, L + 1)]:
                case = dict(case0, alignments={"ref": refseq, "left": left, "right": right})
                try:
                    A = list(ts2.alignments(reference_sequence=None if refseq is None else
                                            refseq[(left or 0):(L if right is None else right)],
                                            left=left, right=right))
                    err = None
                except Exception as e:  # noqa
                    A, err = None, e
                if isolated:
                    if err is None:
                        acc.fail("alignments:isolated-accepted", "isolated samples but no error", case)
                    continue
                if err is not None:
                    acc.fail("alignments:error", repr(err), case)
                    continue
                lo, hi = (left or 0), (L if right is None else right)
                base = list(("N" * L) if refseq is None else refseq)
                exp = []
                for u in r2.samples:
                    row = list(base)
                    for j, (x, _) in enumerate(r2.sites):
                        s = G.site_alleles(r2, j, [u], False)[0]
                        row[int(x)] = s
                    exp.append("".join(row[lo:hi]))
                if A != exp:
                    acc.fail("alignments:value", f"{A} expected {exp}", case)
    acc.sample({"member": m.desc(), "decode_sites": ns})


def c06_flags(N, ranks, cells):
    from .c06 import _flags_some

    return _flags_some(N, ranks, cells)


def run_shard(spec):
    acc = Acc()
    b = spec["b"]
    import logging

    logging.disable(logging.WARNING)
    if spec["name"] == "A":
        fm = c06_flags if spec.get("flagmode") == "some" else "all"
        for m in U.shard(U.enumerate_members(flags=fm, **b), spec["k"], spec["n"]):
            positions = None
            for pl in MU.enumerate_placements(m, spec["max_sites"], spec["max_muts"], spec["states"],
                                              positions=positions, ancestral=spec.get("anc", "0")):
                if spec.get("only_two") and len(pl) != 2:
                    continue
                check_A(m, pl, spec.get("times_mode", "unknown"), spec["cfg"], acc)
    elif spec["name"] == "M":
        for m in U.shard(U.enumerate_members(flags="all", **b), spec["k"], spec["n"]):
            for K in spec["counts"]:
                check_A(m, many_alleles(m, K), "unknown", "lite", acc)
    else:
        fm = spec.get("flagmode", "all")
        fm = c06_flags if fm == "some" else fm
        for m in U.shard(U.enumerate_members(flags=fm, **b), spec["k"], spec["n"]):
            if m.N:
                for variant in (0, 1, 2):
                    check_B(m, acc, variant)
    return acc.result()


def replay(case):
    acc = Acc()
    m = U.Member.from_desc(case["member"])
    if case["kind"] == "A":
        pl = [(p[0], p[1], [tuple(x) for x in p[2]]) for p in case["placement"]]
        check_A(m, pl, case["times_mode"], case["cfg"], acc)
    else:
        check_B(m, acc, case.get("variant", 0))
    return acc.failures
