"""C14  subset and union retain exactly the referenced data and invert each other.

Exhaustive input-space exploration.  Every member of a small-scope universe, decorated with
individuals (with parents), populations, sites, mutations and unique metadata on every row, is
(1) subset to every ordered list of distinct nodes under all four option combinations and
compared with a reference subset written from the documentation; (2) split along every
assignment of its nodes to {self only, other only, both} with subset, re-joined with union under
all option combinations and compared with a reference union, and, whenever nothing straddles the
two exclusive parts, with the original (inverse law, also via tskit's own canonicalise/equals);
(3) every single-field perturbation of every row of the `other` part is tried and union must
refuse exactly when the reference says the shared portions differ."""
import itertools

from .. import muts as MU
from .. import universe as U
from ..acc import Acc
from .. import argforms as AF
from ..ref import subun as R

ID = "C14"
LEVEL = "exploration"
RULE = ("subset: universe member x decoration (individuals+parents, populations, sites, mutations, "
        "unique metadata) x every ordered list of distinct nodes x reorder_populations x "
        "remove_unreferenced (entry point TreeSequence/TableCollection alternating), plus canonicalise of "
        "every full permutation; non-trivial = the list is not the identity and the member has >=1 edge. "
        "union: member x decoration x every assignment of nodes to {self only, other only, both} x node "
        "orders x (reorder_populations, add_populations) x check_shared_equality; non-trivial = other "
        "contributes >=1 new node and the member has >=1 edge. perturbation: member x cover x every "
        "single-field change of every row of other; non-trivial = the change alters the shared portion "
        "(refusal expected). Every (member, decoration, configuration) tuple is a distinct code.")
ASSUMPTIONS = [
    "order of retained individuals after subset: either of the two documented orders is accepted "
    "(table order per the C API doc, first-reference order per the Python docstring)",
    "a parent reference to an individual that is not retained may be omitted or set to NULL",
    "edge and mutation row order in results is not compared; instead the result must load as a tree sequence",
    "order of individuals/populations in a union result is not compared (bijection induced by the node rows)",
    "node lists with repeated or out-of-range ids are outside the quantifier",
    "union(add_populations=False) is only exercised when the population ids of new nodes exist in self",
]

NULL = -1
IND_ROWS = [
    (0, (), ()),
    (1, (1.5,), (0,)),
    (2, (0.0, 2.0), (1, -1, 0)),
    (3, (), (2, 0)),
]
DER = {-1: 1, 0: 2, 1: -1, 2: 0}
OPTS4 = [(True, True), (True, False), (False, True), (False, False)]
MODES3 = [(True, True), (False, False), (True, False)]  # (reorder_populations, add_populations)


# ---------------------------------------------------------------------------------------
# decorations
# ---------------------------------------------------------------------------------------
def alt2(N, ranks, cells):
    if N == 0:
        return [()]
    return [tuple((u + 1) % 2 for u in range(N)), tuple(u % 2 for u in range(N))]


def one_flag(N, ranks, cells):
    return [tuple((u + 1) % 2 for u in range(N))]


FLAGS = {"alt2": alt2, "one": one_flag, "allsamples": "allsamples"}
NFLAGS = {"alt2": lambda N: 1 if N == 0 else 2, "one": lambda N: 1, "allsamples": lambda N: 1}


def deco_rich(m, v, tm):
    N = m.N
    if v == 0:
        ind = [0, 2, 0, 1, 3][:N]
        pop = [1, 0, 1, -1, 2][:N]
    else:
        ind = [-1, 1, 3, 1, 0][:N]
        pop = [2, 2, -1, 0, 3][:N]
    placement = []
    for j, x in enumerate(MU.site_positions(m)):
        ml = []
        for u in range(N):
            if v == 0 or (u + j) % 2 == 0:
                ml.append([u, str((u + j) % 3)])
        if N and v == 0:
            ml.append([j % N, "2"])
        placement.append([x, "0", ml])
    if v == 0:
        c = m.coords
        placement.append([c[0] + (c[1] - c[0]) / 4, "A", []])
    return {"ind": ind, "pop": pop, "nind": 4, "npop": 4, "placement": placement, "tm": tm}


def deco_refs(m, assign):
    N = m.N
    x = m.coords[0] + (m.coords[1] - m.coords[0]) / 2
    return {"ind": list(assign), "pop": [DER[a] for a in assign], "nind": 4, "npop": 4,
            "placement": [[x, "0", [[u, "1"] for u in range(N)]]], "tm": "unknown"}


def deco_muts(m, placement, tm):
    N = m.N
    return {"ind": [NULL] * N, "pop": [NULL] * N, "nind": 0, "npop": 0,
            "placement": [[x, a, [list(z) for z in ml]] for x, a, ml in placement], "tm": tm}


def build_tables(m, deco):
    import tskit

    tc = tskit.TableCollection(m.L)
    tc.time_units = "ticks"
    tc.metadata = b"top"
    for j in range(deco["npop"]):
        tc.populations.add_row(metadata=b"p%d" % j)
    for j in range(deco["nind"]):
        fl, loc, par = IND_ROWS[j]
        tc.individuals.add_row(flags=fl, location=loc, parents=par, metadata=b"i%d" % j)
    t = m.times
    for u in range(m.N):
        tc.nodes.add_row(flags=(1 if m.flags[u] else 0) | ((u % 2) << 4), time=t[u],
                         population=deco["pop"][u], individual=deco["ind"][u],
                         metadata=b"n%d" % u)
    for j, (l, r, p, c) in enumerate(m.edges()):
        tc.edges.add_row(l, r, p, c, metadata=b"e%d" % j)
    placement = [(x, a, [tuple(z) for z in ml]) for x, a, ml in deco["placement"]]
    MU.add_sites(tc, m, placement, times_mode=deco["tm"], metadata=True)
    return tc


def to_tables(T):
    import tskit

    tc = tskit.TableCollection(T.L)
    tc.time_units = T.time_units
    tc.metadata = T.metadata
    for (md,) in T.pops:
        tc.populations.add_row(metadata=md)
    for fl, loc, par, md in T.inds:
        tc.individuals.add_row(flags=fl, location=loc, parents=par, metadata=md)
    for fl, tm, p, i, md in T.nodes:
        tc.nodes.add_row(flags=fl, time=tm, population=p, individual=i, metadata=md)
    for l, r, p, c, md in T.edges:
        tc.edges.add_row(l, r, p, c, metadata=md)
    for x, a, md in T.sites:
        tc.sites.add_row(x, a.decode(), metadata=md)
    for s, u, par, tm, der, md in T.muts:
        tc.mutations.add_row(site=s, node=u, parent=par, derived_state=der.decode(),
                             time=tskit.UNKNOWN_TIME if tm is None else tm, metadata=md)
    return tc


class Ctx:
    def __init__(self, m, deco):
        self.m = m
        self.deco = deco
        self.tc = build_tables(m, deco)
        self.ts = self.tc.tree_sequence()
        self.T = R.from_tables(self.tc)
        self.base = {"member": m.desc(), "deco": deco}
        self.cache = {}
        self.has_edges = bool(self.T.edges)


def ordered_lists(N):
    out = []
    for k in range(N + 1):
        out.extend(itertools.permutations(range(N), k))
    return out


# ---------------------------------------------------------------------------------------
# subset
# ---------------------------------------------------------------------------------------
TABLE_ATTRS = ("individuals", "nodes", "edges", "migrations", "sites", "mutations", "populations", "provenances")


def held_views(tc):
    """The table objects a caller may have taken from the collection before an in-place operation."""
    return {name: getattr(tc, name) for name in TABLE_ATTRS}


def stale_views(tc, held):
    return [name for name, t in held.items() if not t.equals(getattr(tc, name))]


def do_subset(ctx, nodes, ro, ru, via, acc, record=False):
    nodes = list(nodes)
    case = dict(ctx.base, op="subset", nodes=nodes, ro=ro, ru=ru, via=via, record=record)
    nontrivial = ctx.has_edges and nodes != list(range(ctx.m.N))
    acc.ev(1, nontrivial)
    # the node list is passed in one of the forms a caller may use (list, tuple, strided /
    # reversed numpy views, int64 ...), chosen deterministically from the list itself
    form, arg = AF.pick(nodes, salt=2 * ro + ru)
    acc.count("argform_" + form)
    # options that equal their documented default are spelled out in some calls and left out in others
    okw = AF.omit_defaults(dict(record_provenance=record, reorder_populations=ro, remove_unreferenced=ru),
                           dict(record_provenance=True, reorder_populations=True, remove_unreferenced=True),
                           salt=len(nodes) + sum(nodes))
    try:
        if via == "ts":
            out = ctx.ts.subset(arg, **okw).dump_tables()
        else:
            out = ctx.tc.copy()
            held = held_views(out)
            out.subset(arg, **okw)
            stale = stale_views(out, held)
            if stale:
                acc.fail("subset:held_table_not_updated", f"subset({nodes}) is documented as in place, but the table "
                         f"objects obtained before the call ({stale}) do not show the result", case)
    except Exception as e:  # noqa
        acc.fail("subset:raises", f"subset({nodes} as {form}, ro={ro}, ru={ru}) via {via} raised {e!r}", case)
        return
    if via != "ts":
        try:
            out.tree_sequence()
        except Exception as e:  # noqa
            acc.fail("subset:invalid_result", f"result of subset({nodes}) does not load: {e!r}", case)
    G = R.from_tables(out)
    E, orders = R.ref_subset(ctx.T, nodes, ro, ru)
    diffs = R.compare(G, E, ind_orders=orders, pops_ordered=True)
    for key, msg in diffs:
        acc.fail("subset:" + key, f"subset({nodes}, reorder_populations={ro}, remove_unreferenced={ru}): {msg}", case)
    if G.nprov != ctx.T.nprov + (1 if record else 0):
        acc.fail("subset:provenance", f"{G.nprov} provenance rows with record_provenance={record}", case)
    if not diffs and orders[0] != orders[1]:
        if [r[3] for r in G.inds] == [r[3] for r in E.inds]:
            acc.count("individual_order_is_table_order_not_first_reference")
        else:
            acc.count("individual_order_is_first_reference")


def via_for(i, j):
    """Both entry points (TreeSequence.x and TableCollection.x) see every option combination:
    the entry point alternates with the position in the enumeration."""
    return "ts" if (i + j) % 2 == 0 else "tc"


def subset_member(ctx, optlist, acc):
    acc.enter(dict(ctx.base, op="subset_all"))
    N = ctx.m.N
    for i, nodes in enumerate(ordered_lists(N)):
        for j, (ro, ru) in enumerate(optlist):
            do_subset(ctx, nodes, ro, ru, via_for(i, j), acc)
        if len(nodes) == N:
            do_canon(ctx, nodes, True, acc)
    do_subset(ctx, list(range(N - 1, -1, -1)), True, True, "tc", acc, record=True)
    do_canon(ctx, list(range(N)), False, acc)
    check_unmodified(ctx, acc, "subset")


def canonical_mutation_order_ok(G):
    """TableCollection.canonicalise docstring: mutations are sorted by site, then time, then number
    of descendant mutations (parents before children), then node, then original order."""
    nd = [0] * len(G.muts)
    for j, mu in enumerate(G.muts):
        p = mu[2]
        guard = 0
        while p != NULL and guard <= len(G.muts):
            nd[p] += 1
            p = G.muts[p][2]
            guard += 1
    keys = [(mu[0], 0.0 if mu[3] is None else -mu[3], -nd[j], mu[1]) for j, mu in enumerate(G.muts)]
    return all(a <= b for a, b in zip(keys, keys[1:]))


def do_canon(ctx, nodes, ru, acc):
    """canonicalise(subset(ts, permutation)) against the documented canonical form: populations
    (and individuals without pedigree) in first-reference order, unreferenced ones last in original
    order when kept, all content as after subset, edges in sort() order, mutations in the
    documented canonical order."""
    nodes = list(nodes)
    case = dict(ctx.base, op="canon", nodes=nodes, ru=ru)
    acc.ev(1, ctx.has_edges)
    try:
        out = ctx.tc.copy()
        if nodes != list(range(ctx.m.N)):
            out.subset(nodes, record_provenance=False, remove_unreferenced=ru)
        out.canonicalise(remove_unreferenced=ru)
        out.tree_sequence()
    except Exception as e:  # noqa
        acc.fail("canonicalise:raises", f"canonicalise(subset({nodes}), remove_unreferenced={ru}) raised {e!r}", case)
        return
    G = R.from_tables(out)
    E, orders = R.ref_subset(ctx.T, nodes, True, ru)
    # first-reference order of individuals is only asserted when no retained individual has parents:
    # with a pedigree the implementation orders by number of descendants first (parents before children)
    io = orders[1:] if all(not r[2] for r in E.inds) else None
    for key, msg in R.compare(G, E, ind_orders=io, pops_ordered=True):
        acc.fail("canonicalise:" + key, f"canonicalise(subset({nodes}), remove_unreferenced={ru}): {msg}", case)
    if not canonical_mutation_order_ok(G):
        acc.fail("canonicalise:mutation_order", f"canonicalise(subset({nodes})): mutations {G.muts}", case)
    want = sorted(G.edges, key=lambda e: (G.nodes[e[2]][1], e[2], e[3], e[0]))
    if G.edges != want:
        acc.fail("canonicalise:edge_order", f"canonicalise(subset({nodes})): edges {G.edges}", case)


def _rt_tuple(T):
    return (T.L, T.nodes, T.inds, T.pops, T.edges, T.sites, T.muts, T.time_units, T.metadata, T.nprov)


def check_unmodified(ctx, acc, op):
    if _rt_tuple(R.from_tables(ctx.tc)) != _rt_tuple(ctx.T) or \
            _rt_tuple(R.from_tables(ctx.ts.dump_tables())) != _rt_tuple(ctx.T):
        acc.fail(op + ":input_modified", "the input tables changed", dict(ctx.base, op=op + "_all"))


# ---------------------------------------------------------------------------------------
# union
# ---------------------------------------------------------------------------------------
def split(ctx, nodes, ro, acc):
    key = (tuple(nodes), ro)
    if key in ctx.cache:
        return ctx.cache[key]
    res = None
    case = dict(ctx.base, op="split", nodes=list(nodes), ro=ro)
    try:
        out = ctx.tc.copy()
        out.subset(list(nodes), record_provenance=False, reorder_populations=ro)
        ts = out.tree_sequence()
        G = R.from_tables(out)
        E, orders = R.ref_subset(ctx.T, list(nodes), ro, True)
        diffs = R.compare(G, E, ind_orders=orders, pops_ordered=True)
        if diffs:
            for k, msg in diffs:
                acc.fail("split:" + k, f"subset({list(nodes)}, reorder_populations={ro}): {msg}", case)
        else:
            res = (out, ts, G)
    except Exception as e:  # noqa
        acc.fail("split:raises", f"subset({list(nodes)}) raised {e!r}", case)
    ctx.cache[key] = res
    return res


def cover_lists(N, cover, xo, yo):
    X = [u for u in range(N) if cover[u] in (0, 2)]
    Y = [u for u in range(N) if cover[u] in (1, 2)]
    if xo == "desc":
        X.reverse()
    if yo == "desc":
        Y.reverse()
    mapping = [X.index(u) if cover[u] == 2 else NULL for u in Y]
    return X, Y, mapping


def inverse_applicable(T, cover, ro, add_pop):
    """Nothing straddles the two exclusive parts (conservative structural conditions)."""
    N = len(T.nodes)
    XO = {u for u in range(N) if cover[u] == 0}
    YO = {u for u in range(N) if cover[u] == 1}
    S = {u for u in range(N) if cover[u] == 2}
    for l, r, p, c, _ in T.edges:
        if (p in XO and c in YO) or (p in YO and c in XO):
            return False
    ind = lambda us: {T.nodes[u][3] for u in us if T.nodes[u][3] != NULL}  # noqa
    pop = lambda us: {T.nodes[u][2] for u in us if T.nodes[u][2] != NULL}  # noqa
    RX, RYO, RS = ind(XO | S), ind(YO), ind(S)
    RY = RYO | RS
    if (RYO & RX) - RS:
        return False
    allref = RX | RY
    for i in RX:
        if any(q in allref and q not in RX for q in T.inds[i][2] if q != NULL):
            return False
    for i in RYO - RS:
        if any(q in allref and q not in RY for q in T.inds[i][2] if q != NULL):
            return False
    if add_pop:
        if pop(YO) & pop(XO | S):
            return False
    elif ro:
        return False
    return True


def do_union(ctx, cover, xo, yo, ro, add_pop, check, via, acc, record=False):
    import tskit

    N = ctx.m.N
    cover = list(cover)
    X, Y, mapping = cover_lists(N, cover, xo, yo)
    case = dict(ctx.base, op="union", cover=cover, xo=xo, yo=yo, ro=ro, add_pop=add_pop,
                check=check, via=via, record=record)
    a = split(ctx, X, ro, acc)
    b = split(ctx, Y, ro, acc)
    if a is None or b is None:
        acc.count("union_skipped_bad_split")
        return
    tA, tsA, A = a
    tB, tsB, B = b
    if not add_pop:
        for k, u in enumerate(mapping):
            if u == NULL and B.nodes[k][2] >= len(A.pops):
                acc.count("union_skipped_population_id_not_in_self")
                return
    nontrivial = ctx.has_edges and any(c == 1 for c in cover)
    acc.ev(1, nontrivial)
    E = R.ref_union(A, B, mapping, add_pop)
    assert E is not None
    what = (f"subset({X}).union(subset({Y}), {mapping}, check_shared_equality={check}, "
            f"add_populations={add_pop}) [parts made with reorder_populations={ro}]")

    def classify(e, stage):
        s = str(e)
        if "MUTATION_PARENT_AFTER_CHILD" in s and R.new_mutation_above_old(A, E) \
                and any(mu[3] is None for mu in E.muts):
            return "union:raises_mutation_parent_after_child"
        if "UNSORTED_INDIVIDUALS" in s and R.new_ind_parent_after_child(A, E):
            return "union:unsorted_individuals"
        if "UNION_DIFF_HISTORIES" in s:
            return "union:refused_equal_shared"
        return "union:raises" if stage == "union" else "union:invalid_result"

    form, marg = AF.pick(mapping, salt=2 * check + add_pop)
    acc.count("argform_" + form)
    ukw = AF.omit_defaults(dict(check_shared_equality=check, add_populations=add_pop, record_provenance=record),
                           dict(check_shared_equality=True, add_populations=True, record_provenance=True),
                           salt=sum(cover) + len(mapping))
    try:
        if via == "ts":
            out = tsA.union(tsB, marg, **ukw).dump_tables()
        else:
            out = tA.copy()
            held = held_views(out)
            out.union(tB, marg, **ukw)
            stale = stale_views(out, held)
            if stale:
                acc.fail("union:held_table_not_updated", f"{what}: union works in place, but the table objects "
                         f"obtained before the call ({stale}) do not show the result", case)
    except Exception as e:  # noqa
        key = classify(e, "union")
        if key == "union:raises_mutation_parent_after_child":
            # The covers in the property share an *ancestral* portion.  Here the new (other-only)
            # node is an ancestor of an already present mutated node and mutation times are unknown,
            # so the appended mutation can only be ordered by time, which is absent: out of scope,
            # counted as don't-care.
            acc.count("dontcare_union_new_mutation_above_shared_unknown_times")
            return
        acc.fail(key, f"{what} raised {e!r}", case)
        return
    if via != "ts":
        try:
            out.tree_sequence()
        except Exception as e:  # noqa
            acc.fail(classify(e, "load"), f"result of {what} does not load: {e!r}", case)
            return
    G = R.from_tables(out)
    diffs = R.compare(G, E)
    for key, msg in diffs:
        acc.fail("union:" + key, f"{what}: {msg}", case)
    if G.nprov != A.nprov + (1 if record else 0):
        acc.fail("union:provenance", f"{what}: {G.nprov} provenance rows with record_provenance={record}", case)
    if _rt_tuple(R.from_tables(tB)) != _rt_tuple(B):
        acc.fail("union:other_modified", f"{what}: other was modified", case)
    # inverse law
    if inverse_applicable(ctx.T, cover, ro, add_pop):
        acc.count("inverse_law_cases")
        order = X + [u for u in Y if cover[u] == 1]
        W, _ = R.ref_subset(ctx.T, order, ro, True)
        md = R.compare(R.materialise(E), W)
        if md:
            acc.fail("harness:model_inverse", f"{what}: reference union != reference original: {md}", case)
        if not diffs and check:
            w = ctx.tc.copy()
            w.subset(order, record_provenance=False, reorder_populations=ro)
            w.canonicalise()
            o2 = out.copy()
            o2.canonicalise()
            if not o2.equals(w, ignore_provenance=True):
                acc.fail("union:inverse", f"canonicalise({what}) != canonicalise(subset({order}))", case)


def covers(N):
    return list(itertools.product((0, 1, 2), repeat=N))


def union_member(ctx, cfg, acc):
    acc.enter(dict(ctx.base, op="union_all"))
    N = ctx.m.N
    for ci, cover in enumerate(covers(N)):
        for oi, (xo, yo) in enumerate(cfg["orders"]):
            for mi, (ro, add_pop) in enumerate(cfg["modes"]):
                for check in cfg["checks"]:
                    via = via_for(ci + oi, mi + int(check))
                    do_union(ctx, cover, xo, yo, ro, add_pop, check, via, acc)
    if N:
        for via in ("ts", "tc"):
            do_union(ctx, [1] + [2] * (N - 1), "asc", "asc", True, True, True, via, acc, record=True)
        bad_mappings(ctx, acc)
    check_unmodified(ctx, acc, "union")


def bad_mappings(ctx, acc):
    """A node mapping that names a node self does not have (id == number of nodes, beyond, below NULL) or has the
    wrong length is refused, with the shared-part check on and off, and leaves the tables alone."""
    N = ctx.m.N
    for check in (True, False):
        for pos in (0, N - 1):
            for bad in (N, N + 1, -2, 2 ** 31 - 1):
                mapping = [-1] * N
                mapping[pos] = bad
                _refused(ctx, acc, mapping, check)
        _refused(ctx, acc, [-1] * (N + 1), check)
        if N > 1:
            _refused(ctx, acc, [-1] * (N - 1), check)


def _refused(ctx, acc, mapping, check):
    case = dict(ctx.base, op="union_bad_mapping", mapping=mapping, check=check)
    acc.ev(1, ctx.has_edges)
    out = ctx.tc.copy()
    before = _rt_tuple(R.from_tables(out))
    try:
        out.union(ctx.tc, mapping, check_shared_equality=check, record_provenance=False)
    except Exception:  # noqa
        if _rt_tuple(R.from_tables(out)) != before:
            acc.fail("union:refused_but_modified", f"union(self, {mapping}, check_shared_equality={check}) raised but "
                     f"changed the tables", case)
        return
    acc.fail("union:bad_mapping_accepted", f"union(self, {mapping}, check_shared_equality={check}) with {ctx.m.N} nodes "
             f"was accepted", case)


# ---------------------------------------------------------------------------------------
# perturbation of `other`
# ---------------------------------------------------------------------------------------
def perturbations(B):
    """Every single-field change of every row of B (keeping B structurally well-formed):
    list of (name, table, row, new_row or None for deletion)."""
    out = [("none", None, None, None)]
    for k, (fl, tm, p, i, md) in enumerate(B.nodes):
        out.append(("node_time", "nodes", k, (fl, tm + 0.125, p, i, md)))
        out.append(("node_flags", "nodes", k, (fl ^ 1, tm, p, i, md)))
        out.append(("node_metadata", "nodes", k, (fl, tm, p, i, md + b"x")))
        alt = [q for q in [NULL] + list(range(len(B.pops))) if q != p][:2]
        for q in alt:
            out.append(("node_population", "nodes", k, (fl, tm, q, i, md)))
        alt = [q for q in [NULL] + list(range(len(B.inds))) if q != i][:2]
        for q in alt:
            out.append(("node_individual", "nodes", k, (fl, tm, p, q, md)))
    for k, (fl, loc, par, md) in enumerate(B.inds):
        out.append(("individual_flags", "inds", k, (fl ^ 4, loc, par, md)))
        out.append(("individual_location", "inds", k, (fl, loc + (7.0,), par, md)))
        out.append(("individual_metadata", "inds", k, (fl, loc, par, md + b"x")))
        out.append(("individual_parents_add", "inds", k, (fl, loc, par + (NULL,), md)))
        if par:
            out.append(("individual_parents_drop", "inds", k, (fl, loc, par[1:], md)))
        for q in range(k):
            if q not in par:
                out.append(("individual_parents_new", "inds", k, (fl, loc, par + (q,), md)))
                break
    for k, (md,) in enumerate(B.pops):
        out.append(("population_metadata", "pops", k, (md + b"x",)))
    for k, (l, r, p, c, md) in enumerate(B.edges):
        out.append(("edge_right", "edges", k, (l, r - (r - l) / 4, p, c, md)))
        out.append(("edge_left", "edges", k, (l + (r - l) / 4, r, p, c, md)))
        out.append(("edge_metadata", "edges", k, (l, r, p, c, md + b"x")))
        out.append(("edge_delete", "edges", k, None))
    for k, (x, a, md) in enumerate(B.sites):
        out.append(("site_ancestral_state", "sites", k, (x, a + b"G", md)))
        out.append(("site_metadata", "sites", k, (x, a, md + b"x")))
    for k, (s, u, par, tm, der, md) in enumerate(B.muts):
        out.append(("mutation_derived_state", "muts", k, (s, u, par, tm, der + b"T", md)))
        out.append(("mutation_metadata", "muts", k, (s, u, par, tm, der, md + b"x")))
        if tm is not None:
            out.append(("mutation_time", "muts", k, (s, u, par, tm + 0.015625, der, md)))
        # known <-> unknown (only where the site has this one mutation: a site may not mix the two)
        if sum(1 for row in B.muts if row[0] == s) == 1:
            if tm is not None:
                out.append(("mutation_time_to_unknown", "muts", k, (s, u, par, None, der, md)))
            else:
                out.append(("mutation_time_to_known", "muts", k, (s, u, par, B.nodes[u][1], der, md)))
    return out


def apply_perturbation(B, pert):
    name, table, row, new = pert
    P = B.shallow()
    if table is not None:
        rows = list(getattr(P, table))
        if new is None:
            del rows[row]
        else:
            rows[row] = new
        setattr(P, table, rows)
    return P


def shared_equal(A, P, mapping):
    """Reference for check_shared_equality: subset both sides to the equivalent nodes and
    compare up to canonical ordering."""
    sa = [u for u in mapping if u != NULL]
    sb = [k for k, u in enumerate(mapping) if u != NULL]
    EA, _ = R.ref_subset(A, sa, True, True)
    EB, _ = R.ref_subset(P, sb, True, True)
    return not R.compare(R.materialise(EB), R.materialise(EA), pops_ordered=True)


def do_pert(ctx, cover, yo, pidx, acc, with_unchecked=True):
    import tskit

    N = ctx.m.N
    cover = list(cover)
    X, Y, mapping = cover_lists(N, cover, "asc", yo)
    a = split(ctx, X, True, acc)
    b = split(ctx, Y, True, acc)
    if a is None or b is None:
        return
    tA, _, A = a
    tB, _, B = b
    key = ("perts", tuple(Y))
    if key not in ctx.cache:
        ctx.cache[key] = perturbations(B)
    perts = ctx.cache[key]
    idxs = range(len(perts)) if pidx is None else [pidx]
    for j in idxs:
        pert = perts[j]
        name = pert[0]
        case = dict(ctx.base, op="pert", cover=cover, yo=yo, pidx=j, pert=name)
        P = apply_perturbation(B, pert)
        tP = to_tables(P)
        eq = shared_equal(A, P, mapping)
        acc.ev(1, ctx.has_edges and not eq)
        what = (f"subset({X}).union(other=subset({Y}) with {name} of row {pert[2]} changed to {pert[3]}, "
                f"{mapping})")
        for check in ((True, False) if (with_unchecked and not eq) else (True,)):
            out = tA.copy()
            err = None
            try:
                out.union(tP, mapping, check_shared_equality=check, record_provenance=False)
            except tskit.LibraryError as e:
                err = str(e)
            except Exception as e:  # noqa
                acc.fail("pert:raises:" + name, f"{what} raised {e!r}", case)
                continue
            refused = err is not None and "UNION_DIFF_HISTORIES" in err
            if check and not eq and err is None:
                acc.fail("pert:not_refused:" + name,
                         f"{what}, check_shared_equality=True: accepted although the shared portions differ", case)
            elif check and eq and refused:
                acc.fail("pert:refused_equal:" + name,
                         f"{what}, check_shared_equality=True: refused although the shared portions are equal: {err}", case)
            elif not check and refused:
                acc.fail("pert:unchecked_refused:" + name,
                         f"{what}, check_shared_equality=False: still refused: {err}", case)
            if name == "none" and err is not None and "MUTATION_PARENT_AFTER_CHILD" not in err:
                acc.fail("pert:control_raises", f"{what}: {err}", case)
            if err is None:
                acc.count("pert_accepted")
            elif refused:
                acc.count("pert_refused")
            else:
                acc.count("pert_other_error")


def pert_member(ctx, cfg, acc):
    acc.enter(dict(ctx.base, op="pert_all"))
    for cover in covers(ctx.m.N):
        if not any(c == 2 for c in cover) and any(c == 1 for c in cover) and any(c == 0 for c in cover):
            # no shared node: nothing of `other` is in the shared portion; keep one representative
            if cover != tuple(sorted(cover)):
                continue
        for yo in cfg["yorders"]:
            do_pert(ctx, cover, yo, None, acc, cfg.get("unchecked", True))


# ---------------------------------------------------------------------------------------
# spaces and shards
# ---------------------------------------------------------------------------------------
def fixed_members():
    """Topologies used where the enumerated dimension is the reference assignment."""
    return {
        "chain4": U.Member(4, 1, (0, 1, 2, 3), [(1, 2, 3, -1)], (1, 0, 1, 0)),
        "cherries4": U.Member(4, 2, (0, 1, 2, 3), [(2, 2, 3, -1), (3, 2, 3, -1)], (1, 1, 0, 0)),
        "fork3": U.Member(3, 1, (0, 1, 2), [(2, 2, -1)], (1, 1, 0)),
        "chain3": U.Member(3, 2, (0, 1, 2), [(1, 2, -1), (2, -1, -1)], (1, 0, 1)),
    }


RICH_SUB = [(0, "unknown"), (1, "known")]
RICH_UNI = [(0, "known"), (1, "unknown")]
RICH_UNI3 = [(0, "known"), (1, "unknown"), (0, "unknown")]
ORD1 = [("asc", "asc")]
ORD2 = [("asc", "asc"), ("asc", "desc")]
ORD3 = [("asc", "asc"), ("asc", "desc"), ("desc", "asc")]
OPTS2 = [(True, True), (False, False)]
OPTS_RU = [(True, True), (True, False)]

# rough CPU cost per evaluation (seconds), only used to size shards
COST = {"sub": 0.0004, "uni": 0.001, "pert": 0.0012}


def nlists(N):
    tot, f = 0, 1
    for k in range(N + 1):
        tot += f
        f *= (N - k)
    return tot


def evals_per_ctx(kind, N, G, cfg):
    if kind.startswith("sub"):
        f = 1
        for k in range(2, N + 1):
            f *= k
        return nlists(N) * len(cfg["opts"]) + 2 + f
    if kind.startswith("uni"):
        return 3 ** N * len(cfg["orders"]) * len(cfg["modes"]) * len(cfg["checks"]) + 2
    # perturbation: changes per node row + individuals/populations + edges/sites/mutations (calibrated)
    return 3 ** N * len(cfg["yorders"]) * (12 + 7 * N + 4 * N * G)


def _split(specs, target, kind, b, flags, **cfg):
    """Shard a universe slice by members."""
    N, G = b["N"], b["G"]
    cnt = U.count_members(N, G, b.get("times", "id"), flags="x") * NFLAGS[flags](N)
    cost = max(1e-4, evals_per_ctx(kind, N, G, cfg) * len(cfg["decos"]) * COST[kind[:3] if kind != "pert" else "pert"])
    per = max(1, int(target / cost))
    n = max(1, -(-cnt // per))
    for k in range(n):
        specs.append(dict(kind=kind, b=b, flags=flags, k=k, n=n, cfg=cfg))


def _split_refs(specs, target, kind, name, **cfg):
    m = fixed_members()[name]
    total = 4 ** m.N
    cost = evals_per_ctx(kind, m.N, m.G, cfg) * COST[kind[:3]]
    per = max(1, int(target / cost))
    n = max(1, -(-total // per))
    for k in range(n):
        specs.append(dict(kind=kind, k=k, n=n, cfg=dict(cfg, member=name)))


def placement_stream(b, flags, cfg):
    bb = dict(b)
    bb["flags"] = FLAGS[flags]
    for m in U.enumerate_members(**bb):
        for pl in MU.enumerate_placements(m, max_sites=cfg["max_sites"], max_muts=cfg["max_muts"],
                                          states=tuple(cfg["states"])):
            yield m, pl


def _split_muts(specs, target, kind, b, flags, **cfg):
    """Shard a universe slice by (member, mutation placement) pairs."""
    total = sum(1 for _ in placement_stream(b, flags, cfg))
    cost = evals_per_ctx(kind, b["N"], b["G"], cfg) * len(cfg["tms"]) * COST[kind[:3]]
    per = max(1, int(target / cost))
    n = max(1, -(-total // per))
    for k in range(n):
        specs.append(dict(kind=kind, b=b, flags=flags, k=k, n=n, cfg=cfg))


def bounds(tier):
    q = tier == "quick"
    return {
        "subset_topology": ("N<=3,G<=2 (2 flag patterns, 2 decorations) + N=3,G=2 all weak time orders + N=4,G=1 + "
                            "N=4,G=2 (1 flag pattern, 1 decoration), times=id; all ordered node lists; 4 option pairs"
                            if q else
                            "N<=3,G<=2 and N=4,G=1 all weak time orders; N=4,G=2 id (2 flag patterns, 2 decorations); "
                            "N=4,G=2 all weak orders (2 option pairs); N=3,G=3 weak on a fractional grid; N=5,G=1 id; "
                            "all ordered node lists; 4 option pairs"),
        "subset_references": "fixed topologies (3 quick, 4 thorough) x all 4^N joint (individual, population) "
                             "assignments x all lists x 4 option pairs",
        "subset_mutations": ("N=3,G=1: <=2 sites x <=1 mutation and 1 site x <=2 mutations, states {0,1}, both time "
                             "modes; N=3,G=2: 1 site x <=2 mutations, state {1}" if q else
                             "N=3,G=1: <=2 sites x <=2 mutations; N=3,G=2: 1 site x <=3 mutations; N=4,G=1: 1 site x "
                             "<=2 mutations; states {0,1}") + "; all lists x remove_unreferenced",
        "union_topology": ("N<=2 full; N=3,G<=2 and N=4,G=1 (1 flag pattern) full config with 2 node orders; N=4,G=2 "
                           "and N=3,G=2 weak: 1 decoration, 1 order, default mode" if q else
                           "N<=3,G<=2 weak (2 orders) ; N=4,G=1 id full (3 orders), N=4,G=1 weak (1 order, checked); "
                           "N=4,G=2 id (2 orders, checked); N=4,G=2 weak (1 decoration, default mode)") +
                          "; all 3^N covers x 3 (reorder_populations, add_populations) modes x check_shared_equality on/off",
        "union_references": "fixed topologies x all 4^N assignments x all covers x 3 modes",
        "union_mutations": ("N=3,G=1: 1 site x <=2 mutations, both time modes; N=3,G=2: 1 site x <=2 mutations, state {1}, "
                            "known times" if q else
                            "N=3,G=1: 1 site x <=3 mutations; N=3,G=2 and N=4,G=1: 1 site x <=2 mutations; both time modes")
                           + " x all covers",
        "perturbation": ("N<=3,G<=2 id" if q else "N<=3,G<=2 all weak time orders + N=4,G=1 id, both orders of other") +
                        " x all covers x every single-field change of every row of other x check on (and off when "
                        "refusal is expected)",
    }


def shards(tier, seed):
    specs = []
    quick = tier == "quick"
    T = 2.0 if quick else 20.0
    full = dict(modes=MODES3, checks=[True, False])
    dflt = dict(orders=ORD1, modes=MODES3[:1], checks=[True])
    if quick:
        for n in (0, 1, 2, 3):
            for g in (1, 2):
                b = dict(N=n, G=g, times="id")
                _split(specs, T, "sub", b, "alt2", decos=RICH_SUB, opts=OPTS4)
                _split(specs, T, "uni", b, "alt2" if n < 3 else "one", decos=RICH_UNI3, orders=ORD2, **full)
                if n:
                    _split(specs, T, "pert", b, "one", decos=[(0, "known")], yorders=["asc"])
        _split(specs, T, "sub", dict(N=3, G=2, times="weak", timescale="quarter"), "one", decos=RICH_SUB[:1], opts=OPTS4)
        _split(specs, T, "sub", dict(N=4, G=1, times="id"), "alt2", decos=RICH_SUB, opts=OPTS4)
        # node times that are consecutive doubles (equal in single precision): the sort inside subset / union
        # must still order edges by the exact parent time
        _split(specs, T, "sub", dict(N=3, G=2, times="id", timescale="ulp"), "one", decos=[(0, "unknown")], opts=OPTS4)
        _split(specs, T, "uni", dict(N=3, G=2, times="id", timescale="ulp"), "one", decos=[(0, "unknown")], **dflt)
        _split(specs, T, "sub", dict(N=4, G=2, times="id"), "one", decos=RICH_SUB[:1], opts=OPTS4)
        _split(specs, T, "uni", dict(N=3, G=2, times="weak", timescale="quarter"), "one", decos=RICH_UNI[:1], **dflt)
        _split(specs, T, "uni", dict(N=4, G=1, times="id"), "one", decos=RICH_UNI, orders=ORD2, **full)
        _split(specs, T, "uni", dict(N=4, G=2, times="id"), "one", decos=RICH_UNI[:1], **dflt)
        for name in ("fork3", "chain3", "chain4"):
            _split_refs(specs, T, "subrefs", name, opts=OPTS4)
            _split_refs(specs, T, "unirefs", name, orders=ORD2 if name != "chain4" else ORD1, modes=MODES3,
                        checks=[True, False] if name != "chain4" else [True])
        b31, b32 = dict(N=3, G=1, times="id"), dict(N=3, G=2, times="id")
        two = ["unknown", "known"]
        _split_muts(specs, T, "submuts", b31, "allsamples", max_sites=2, max_muts=1, states=["0", "1"], tms=two, opts=OPTS_RU)
        _split_muts(specs, T, "submuts", b31, "allsamples", max_sites=1, max_muts=2, states=["0", "1"], tms=two, opts=OPTS_RU)
        _split_muts(specs, T, "submuts", b32, "allsamples", max_sites=1, max_muts=2, states=["1"], tms=["unknown"], opts=OPTS_RU)
        _split_muts(specs, T, "unimuts", b31, "allsamples", max_sites=1, max_muts=2, states=["0", "1"], tms=two, **dflt)
        _split_muts(specs, T, "unimuts", b32, "allsamples", max_sites=1, max_muts=2, states=["1"], tms=["known"], **dflt)
        # two sites whose positions are adjacent doubles (and other pairs on the one-ulp grid)
        bulp = dict(N=2, G=3, times="id", grid="ulp")
        _split_muts(specs, T, "unimuts", bulp, "allsamples", max_sites=2, max_muts=1, states=["1"], tms=["unknown"], **dflt)
        _split_muts(specs, T, "submuts", bulp, "allsamples", max_sites=2, max_muts=1, states=["1"], tms=["unknown"], opts=OPTS_RU)
        return specs
    # ---- thorough
    for n in (0, 1, 2, 3):
        for g in (1, 2):
            b = dict(N=n, G=g, times="weak")
            _split(specs, T, "sub", b, "alt2", decos=RICH_SUB, opts=OPTS4)
            _split(specs, T, "uni", b, "alt2" if n < 3 else "one", decos=RICH_UNI3, orders=ORD2, **full)
            if n:
                _split(specs, T, "pert", b, "one", decos=[(0, "known")], yorders=["asc"] if n == 3 and g == 2 else ["asc", "desc"])
    _split(specs, T, "sub", dict(N=3, G=3, times="weak", grid="frac", timescale="quarter"), "one", decos=RICH_SUB, opts=OPTS4)
    _split(specs, T, "sub", dict(N=4, G=1, times="weak"), "one", decos=RICH_SUB, opts=OPTS4)
    _split(specs, T, "sub", dict(N=4, G=2, times="id"), "alt2", decos=RICH_SUB, opts=OPTS4)
    _split(specs, T, "sub", dict(N=4, G=2, times="weak"), "one", decos=RICH_SUB[:1], opts=OPTS2)
    _split(specs, T, "sub", dict(N=5, G=1, times="id"), "one", decos=RICH_SUB[:1], opts=OPTS4)
    _split(specs, T, "uni", dict(N=4, G=1, times="id"), "alt2", decos=RICH_UNI, orders=ORD3, **full)
    _split(specs, T, "uni", dict(N=4, G=1, times="weak"), "one", decos=RICH_UNI, orders=ORD1, modes=MODES3, checks=[True])
    _split(specs, T, "uni", dict(N=4, G=2, times="id"), "one", decos=RICH_UNI, orders=ORD2, modes=MODES3, checks=[True])
    _split(specs, T, "uni", dict(N=4, G=2, times="weak"), "one", decos=RICH_UNI[:1], **dflt)
    _split(specs, T, "pert", dict(N=4, G=1, times="id"), "one", decos=[(0, "known")], yorders=["asc", "desc"])
    for name in ("fork3", "chain3", "chain4", "cherries4"):
        _split_refs(specs, T, "subrefs", name, opts=OPTS4)
        _split_refs(specs, T, "unirefs", name, orders=ORD2, modes=MODES3, checks=[True, False])
    b31, b32, b41 = dict(N=3, G=1, times="id"), dict(N=3, G=2, times="id"), dict(N=4, G=1, times="id")
    two = ["unknown", "known"]
    _split_muts(specs, T, "submuts", b31, "allsamples", max_sites=2, max_muts=2, states=["0", "1"], tms=two, opts=OPTS_RU)
    _split_muts(specs, T, "submuts", b32, "allsamples", max_sites=1, max_muts=3, states=["0", "1"], tms=["unknown"], opts=OPTS_RU)
    _split_muts(specs, T, "submuts", b41, "allsamples", max_sites=1, max_muts=2, states=["0", "1"], tms=["unknown"], opts=OPTS_RU)
    _split_muts(specs, T, "unimuts", b31, "allsamples", max_sites=1, max_muts=3, states=["0", "1"], tms=two, **dflt)
    _split_muts(specs, T, "unimuts", b32, "allsamples", max_sites=1, max_muts=2, states=["0", "1"], tms=two, **dflt)
    _split_muts(specs, T, "unimuts", b41, "allsamples", max_sites=1, max_muts=2, states=["0", "1"], tms=two, **dflt)
    bulp = dict(N=3, G=3, times="id", grid="ulp")
    _split_muts(specs, T, "unimuts", bulp, "allsamples", max_sites=2, max_muts=1, states=["1"], tms=["unknown"], **dflt)
    _split_muts(specs, T, "submuts", bulp, "allsamples", max_sites=2, max_muts=1, states=["1"], tms=["unknown"], opts=OPTS_RU)
    return specs


def members_of(spec):
    b = dict(spec["b"])
    b["flags"] = FLAGS[spec["flags"]]
    return U.shard(U.enumerate_members(**b), spec["k"], spec["n"])


def run_shard(spec):
    acc = Acc()
    kind = spec["kind"]
    cfg = spec["cfg"]
    if kind in ("sub", "uni", "pert"):
        for m in members_of(spec):
            for v, tm in cfg["decos"]:
                ctx = Ctx(m, deco_rich(m, v, tm))
                if kind == "sub":
                    subset_member(ctx, cfg["opts"], acc)
                elif kind == "uni":
                    union_member(ctx, cfg, acc)
                else:
                    pert_member(ctx, cfg, acc)
            acc.sample({"kind": kind, "member": m.desc()})
    elif kind in ("subrefs", "unirefs"):
        m = fixed_members()[cfg["member"]]
        allassign = itertools.product((-1, 0, 1, 2), repeat=m.N)
        for assign in U.shard(allassign, spec["k"], spec["n"]):
            ctx = Ctx(m, deco_refs(m, assign))
            if kind == "subrefs":
                subset_member(ctx, cfg["opts"], acc)
            else:
                union_member(ctx, cfg, acc)
        acc.sample({"kind": kind, "member": m.desc()})
    elif kind in ("submuts", "unimuts"):
        last = None
        for m, pl in U.shard(placement_stream(spec["b"], spec["flags"], cfg), spec["k"], spec["n"]):
            for tm in cfg["tms"]:
                ctx = Ctx(m, deco_muts(m, pl, tm))
                if kind == "submuts":
                    subset_member(ctx, [tuple(o) for o in cfg["opts"]], acc)
                else:
                    union_member(ctx, cfg, acc)
            last = m
        if last is not None:
            acc.sample({"kind": kind, "member": last.desc()})
    else:
        raise ValueError(kind)
    return acc.result()


def replay(case):
    acc = Acc()
    m = U.Member.from_desc(case["member"])
    ctx = Ctx(m, case["deco"])
    op = case["op"]
    if op == "subset":
        do_subset(ctx, case["nodes"], case["ro"], case["ru"], case["via"], acc, case.get("record", False))
    elif op == "split":
        split(ctx, case["nodes"], case["ro"], acc)
    elif op == "canon":
        do_canon(ctx, case["nodes"], case["ru"], acc)
    elif op == "union":
        do_union(ctx, case["cover"], case["xo"], case["yo"], case["ro"], case["add_pop"], case["check"],
                 case["via"], acc, case.get("record", False))
    elif op == "pert":
        do_pert(ctx, case["cover"], case["yo"], case["pidx"], acc)
    elif op == "subset_all":
        subset_member(ctx, OPTS4, acc)
    elif op == "union_all":
        union_member(ctx, dict(orders=ORD3, modes=MODES3, checks=[True, False]), acc)
    elif op == "pert_all":
        pert_member(ctx, dict(yorders=["asc", "desc"]), acc)
    else:
        raise ValueError(op)
    return acc.failures
