"""C11  Editing operations change only what they document and preserve everything else.

Exhaustive input-space exploration: every member of the small-scope universe, decorated with
metadata on every table (nodes, edges, sites, mutations, migrations, individuals, populations),
mutation parents, known / unknown mutation times, x the complete argument space of each editing
operation within the bound (all interval lists on the half grid, all site-id lists, all cutoff
times at / between / beyond node, mutation and migration times, simplify on/off, ...).  Every
call of the real implementation is compared with the reference model mc/ref/edit.py, which is
written from the method docstrings."""
import itertools

from .. import universe as U
from ..acc import Acc
from .. import argforms as AF
from ..muts import compute_parents, depth_in
from ..ref import edit as R
from ..ref.geno import site_alleles
from ..ref.trees import NULL, RefTS

ID = "C11"
LEVEL = "exploration"
RULE = (
    "every universe member (all parent choices per node per cell; all sample-flag subsets where the "
    "operation depends on flags, else one flag vector) decorated with metadata and schemas on all "
    "tables, a site at every half-grid position, rotating mutation patterns with mutation parents, "
    "unknown / known / boundary (== node time) mutation times and migration layouts, x "
    "[iv] every subset of half-cells kept, as keep_intervals of it and as delete_intervals of its "
    "complement, merged and unmerged (adjacent) interval lists, simplify=False, TableCollection and "
    "TreeSequence methods, plus six malformed lists; "
    "[ivs] the same subsets with simplify=True (and the TreeSequence default) against simplify() of "
    "the simplify=False result; "
    "[trim] ltrim/rtrim/trim x 6 migration layouts x TableCollection/TreeSequence; "
    "[ds] every site-id list: all sequences up to a length bound (2-4, duplicates, any order) and "
    "every larger subset, as list / int32 / int64 array, plus out-of-range ids; "
    "[time] split_edges/decapitate/delete_older x every cutoff in {below all, each node / mutation / "
    "migration time, midpoint between consecutive ones, above all} x default and non-default "
    "flags/population/metadata (and a JSON node schema variant); "
    "[ext] extend_haplotypes max_iter in {1, 10}, all sample-flag subsets.  "
    "One evaluation = one call of the real operation compared with the reference; non-trivial = the "
    "member has >= 1 edge and the reference says the call changes something (rows removed, shifted, "
    "split; for extend_haplotypes: the edge table actually changed) or must be refused; cases are "
    "distinct by construction (member, decoration variant, arguments)"
)
ASSUMPTIONS = [
    "reference model mc/ref/edit.py is written from the docstrings of the ten operations",
    "edge / migration rows after keep_intervals are compared position-wise (which parent, which "
    "metadata covers each half-cell) plus a row-count bound, because the docs do not fix how a row "
    "spanning several listed intervals is cut",
    "new nodes made by split_edges/decapitate are compared up to renaming (identified by the edge "
    "they split)",
    "simplify=True is checked differentially: equal to simplify() of the simplify=False result "
    "(simplify itself is C04); edge metadata is absent there because simplify refuses it",
    "ltrim/rtrim/trim with migrations reaching beyond the edges: either refused or a valid result",
    "extend_haplotypes: documented invariants (only edges and mutations.node change; per position "
    "only unary non-sample nodes are inserted into existing paths; mutations stay on their lineage "
    "at their time; sample genotypes by mc/ref/geno.py and simplify() output unchanged); which "
    "extensions are made is not prescribed; the docstring sentence 'edges whose child node is a "
    "sample are not modified' is not checked (the property does not state it)",
    "a mutation exactly as old as an inserted node may sit on either side of it",
]

MODES = ("unknown", "known", "known_eq")
ANC = ["0", "A", "", "AA"]
DER = ["1", "2", "0", "", "TT"]
MUTPAT = [[0, 1, 0], [2], [], [3, 2, 1], [1, 1], [0, 3]]
FRACS = {
    "known": {1: [0.75], 2: [0.75, 0.25], 3: [0.75, 0.5, 0.25]},
    "known_eq": {1: [0.0], 2: [0.5, 0.0], 3: [0.5, 0.25, 0.0]},
}
NMIG = 6  # migration layouts 0 (none) .. 5
ALL_COMBOS = [["keep", True], ["keep", False], ["delete", True], ["delete", False]]
TWO_COMBOS = [["keep", True], ["delete", False]]


# ======================================================================================
# decorated inputs
# ======================================================================================
_BAD_LISTS_DONE = set()


def half_points(m):
    c = m.coords
    out = []
    for i in range(m.G):
        out.append(c[i])
        out.append((c[i] + c[i + 1]) / 2)
    out.append(c[m.G])
    # (a one-ulp cell has no interior point: its "midpoint" is one of its ends)
    return sorted(set(out))


def migration_rows(m, layout):
    if layout == 0 or m.N == 0:
        return []
    hp = half_points(m)
    e = len(hp) - 1
    spans = {
        1: [(hp[0], hp[e])],
        2: [(hp[1], hp[e - 1])],
        3: [(hp[0], hp[1]), (hp[e - 1], hp[e])],
        4: [(hp[min(2, e - 1)], hp[e])],
        5: [(hp[0], hp[max(e - 2, 1)])],
    }[layout]
    spans = [(l, r) if l < r else (hp[0], hp[1]) for (l, r) in spans]
    ts = sorted(set(m.times))
    t_lo = ts[0]
    t_hi = ts[-1]
    rows = []
    for k, (l, r) in enumerate(spans):
        rows.append((l, r, 0, 0, 1, t_lo, b"g%d" % k))
    for k, (l, r) in enumerate(spans):
        rows.append((l, r, m.N - 1, 1, 0, t_lo + (t_hi - t_lo) / 2 + 0.125, b"" if k else b"gg"))
    for k, (l, r) in enumerate(spans[:1]):
        rows.append((l, r, m.N - 1, 1, 1, t_hi, b"top"))
    rows.sort(key=lambda g: g[5])  # the only ordering requirement on migrations
    return rows


def mutation_plan(m, mode, q):
    """Per site (in position order) the mutation rows in a valid table order:
    list of (position, ancestral, [(node, derived, local_parent, time|None)])."""
    rts = RefTS(m.times, m.flags, m.edges(), m.L)
    hp = half_points(m)[:-1]
    plan = []
    for j, x in enumerate(hp):
        nodes = [u % m.N for u in MUTPAT[(j + q) % len(MUTPAT)]] if m.N else []
        par = rts.parent_map(x)
        muts = [(u, DER[(j + r) % len(DER)]) for r, u in enumerate(nodes)]
        if mode == "unknown":
            order = sorted(range(len(muts)), key=lambda i: depth_in(par, muts[i][0]))
            muts = [muts[i] for i in order]
            tms = [None] * len(muts)
        else:
            per = {}
            for i, (u, _) in enumerate(muts):
                per.setdefault(u, []).append(i)
            tms = [None] * len(muts)
            for u, idxs in per.items():
                lo = m.times[u]
                hi = m.times[par[u]] if par[u] != NULL else lo + 2.0
                fr = FRACS[mode][len(idxs)]
                for r, i in enumerate(idxs):
                    tms[i] = lo + (hi - lo) * fr[r]
            # oldest first; on ties ancestors first (valid: parents precede children)
            order = sorted(range(len(muts)), key=lambda i: (-tms[i], depth_in(par, muts[i][0]), i))
            muts = [muts[i] for i in order]
            tms = [tms[i] for i in order]
        parents = compute_parents(par, muts)
        plan.append((x, ANC[j % len(ANC)],
                     [(u, st, parents[i], tms[i]) for i, (u, st) in enumerate(muts)]))
    return plan


def build(m, mode="unknown", q=0, mig=0, schemas=True, edge_md=True):
    """The decorated TableCollection of member m."""
    import tskit

    tc = tskit.TableCollection(m.L)
    tc.metadata = b"top-level"
    tc.time_units = "ticks"
    tc.populations.add_row(metadata=b"pop0")
    tc.populations.add_row(metadata=b"")
    tc.individuals.add_row(flags=3, location=[1.5, 2.5], parents=[-1, -1], metadata=b"i0")
    tc.individuals.add_row(flags=0, location=[], parents=[0], metadata=b"")
    t = m.times
    for u in range(m.N):
        tc.nodes.add_row(
            flags=(1 if m.flags[u] else 0) | ((1 << 20) if u == 1 else 0), time=t[u],
            population=[0, 1, -1][u % 3], individual=[-1, 0, 1, 0][u % 4],
            metadata=b"n%d" % u + b"#" * (u % 2) if u != 2 else b"")
    for j, (l, r, p, c) in enumerate(m.edges()):
        md = b"" if (j % 4 == 3 or not edge_md) else b"e%d" % j + b"+" * (j % 3)
        tc.edges.add_row(l, r, p, c, metadata=md)
    for (x, anc, muts) in mutation_plan(m, mode, q):
        j = tc.sites.num_rows
        s = tc.sites.add_row(x, anc, metadata=b"" if j % 3 == 2 else b"s%d" % j)
        base = tc.mutations.num_rows
        for (u, st, par, tm) in muts:
            k = tc.mutations.num_rows
            tc.mutations.add_row(
                site=s, node=u, derived_state=st, parent=(base + par) if par >= 0 else -1,
                time=tskit.UNKNOWN_TIME if tm is None else tm,
                metadata=b"" if k % 4 == 1 else b"m%d" % k)
    for (l, r, node, src, dst, tm, md) in migration_rows(m, mig):
        tc.migrations.add_row(l, r, node, src, dst, tm, metadata=md)
    tc.provenances.add_row(record='{"made":"c11"}', timestamp="2020-01-01T00:00:00")
    if schemas:
        # set after the rows so that the raw bytes above are stored untouched; the
        # operations never decode metadata, they must carry bytes and schema along
        js = tskit.MetadataSchema({"codec": "json"})
        tc.edges.metadata_schema = js
        tc.migrations.metadata_schema = js
        tc.sites.metadata_schema = js
        tc.mutations.metadata_schema = js
    return tc


def _rag(col, off):
    b = col.tobytes()
    o = off.tolist()
    return [b[o[i]:o[i + 1]] for i in range(len(o) - 1)]


def _ragl(col, off):
    b = col.tolist()
    o = off.tolist()
    return [tuple(b[o[i]:o[i + 1]]) for i in range(len(o) - 1)]


def snap(tc):
    """All the contents of a TableCollection as plain Python rows (the model of ref/edit.py)."""
    import tskit

    n, e, s, mu = tc.nodes, tc.edges, tc.sites, tc.mutations
    mg, ind, pop, pr = tc.migrations, tc.individuals, tc.populations, tc.provenances
    M = {"L": float(tc.sequence_length)}
    M["nodes"] = list(zip(n.flags.tolist(), n.time.tolist(), n.population.tolist(),
                          n.individual.tolist(), _rag(n.metadata, n.metadata_offset)))
    M["edges"] = list(zip(e.left.tolist(), e.right.tolist(), e.parent.tolist(), e.child.tolist(),
                          _rag(e.metadata, e.metadata_offset)))
    M["sites"] = list(zip(s.position.tolist(), _rag(s.ancestral_state, s.ancestral_state_offset),
                          _rag(s.metadata, s.metadata_offset)))
    tm = mu.time
    unk = tskit.is_unknown_time(tm).tolist()
    times = [None if k else x for x, k in zip(tm.tolist(), unk)]
    M["mutations"] = list(zip(mu.site.tolist(), mu.node.tolist(),
                              _rag(mu.derived_state, mu.derived_state_offset), mu.parent.tolist(),
                              times, _rag(mu.metadata, mu.metadata_offset)))
    M["migrations"] = list(zip(mg.left.tolist(), mg.right.tolist(), mg.node.tolist(),
                               mg.source.tolist(), mg.dest.tolist(), mg.time.tolist(),
                               _rag(mg.metadata, mg.metadata_offset)))
    M["individuals"] = list(zip(ind.flags.tolist(), _ragl(ind.location, ind.location_offset),
                                _ragl(ind.parents, ind.parents_offset),
                                _rag(ind.metadata, ind.metadata_offset)))
    M["populations"] = [(x,) for x in _rag(pop.metadata, pop.metadata_offset)]
    M["provenances"] = list(zip(_rag(pr.timestamp, pr.timestamp_offset),
                                _rag(pr.record, pr.record_offset)))
    M["top"] = (tc.metadata_bytes, repr(tc.metadata_schema), tc.time_units,
                tuple(t.ll_table.metadata_schema for t in (n, e, s, mu, mg, ind, pop)))
    return M


TABLES = ("nodes", "edges", "sites", "mutations", "migrations", "individuals", "populations",
          "provenances")


def diff_models(got, exp, skip=()):
    """List of (part, message) for every part of the model that differs."""
    out = []
    if got["L"] != exp["L"]:
        out.append(("sequence_length", f"sequence_length {got['L']} expected {exp['L']}"))
    if got["top"] != exp["top"]:
        out.append(("top_level", f"top-level metadata/schemas {got['top']} expected {exp['top']}"))
    for name in TABLES:
        if name in skip:
            continue
        a, b = got[name], exp[name]
        if a != b:
            if len(a) != len(b):
                msg = f"{name}: {len(a)} rows expected {len(b)}: got {a} expected {b}"
            else:
                j = next(i for i in range(len(a)) if a[i] != b[i])
                msg = f"{name}: row {j} is {a[j]} expected {b[j]}"
            out.append((name, msg))
    return out


def field_part(name, a, b):
    """Name the differing column(s) for a finer failure key (metadata loss is its own class)."""
    cols = {
        "edges": ("left", "right", "parent", "child", "metadata"),
        "migrations": ("left", "right", "node", "source", "dest", "time", "metadata"),
        "sites": ("position", "ancestral_state", "metadata"),
        "mutations": ("site", "node", "derived_state", "parent", "time", "metadata"),
        "nodes": ("flags", "time", "population", "individual", "metadata"),
    }.get(name)
    if cols is None or len(a) != len(b):
        return name
    bad = set()
    for ra, rb in zip(a, b):
        for k, (x, y) in enumerate(zip(ra, rb)):
            if x != y:
                bad.add(cols[k])
    if bad == {"metadata"}:
        lost = all(ra[-1] == b"" for ra, rb in zip(a, b) if ra != rb)
        return name[:-1] + ("_metadata_lost" if lost else "_metadata")
    if len(bad) == 1:
        return name + "_" + bad.pop()
    return name


def report(acc, prefix, got, exp, case, skip=()):
    """Compare two full models; one failure per differing part."""
    bad = diff_models(got, exp, skip)
    for part, msg in bad:
        if part in TABLES:
            part = field_part(part, got[part], exp[part])
        acc.fail(f"{prefix}:{part}", msg, case)
    return not bad


def check_provenance(acc, prefix, got, Min, recorded, case):
    exp = len(Min["provenances"]) + (1 if recorded else 0)
    pr = got["provenances"]
    if len(pr) != exp or pr[:len(Min["provenances"])] != Min["provenances"]:
        acc.fail(f"{prefix}:provenances", f"provenance rows {pr}, expected the {len(Min['provenances'])} "
                 f"old rows plus {exp - len(Min['provenances'])} new", case)


def valid_ts(acc, prefix, tc, case):
    try:
        return tc.tree_sequence()
    except Exception as e:  # noqa
        acc.fail(f"{prefix}:invalid_result", f"result is not a valid tree sequence: {e!r}", case)
        return None


# ======================================================================================
# [iv] keep_intervals / delete_intervals, simplify=False
# ======================================================================================
def pattern_intervals(hp, bits, merged):
    """Interval list covering the half-cells whose bit is set."""
    out = []
    for i in range(len(hp) - 1):
        if bits >> i & 1:
            if merged and out and out[-1][1] == hp[i]:
                out[-1][1] = hp[i + 1]
            else:
                out.append([hp[i], hp[i + 1]])
    return out


def check_iv_result(acc, prefix, Min, got, given_kept, merged_kept, hp, recorded, case):
    """Oracle for the simplify=False result.  given_kept: the retained intervals exactly as
    implied by the argument list (for the row count bound); merged_kept: the same set merged."""
    ok = True
    sites, muts = R.keep_intervals_sites(Min, merged_kept)
    exp = R.clone(Min)
    exp["sites"], exp["mutations"] = sites, muts
    ok &= report(acc, prefix, got, exp, case, skip=("edges", "migrations", "provenances"))
    check_provenance(acc, prefix, got, Min, recorded, case)
    allowed = set(hp)
    for name, cover in (("edges", R.edge_cover), ("migrations", R.migration_cover)):
        rows = got[name]
        for row in rows:
            if not row[0] < row[1] or row[0] not in allowed or row[1] not in allowed:
                acc.fail(f"{prefix}:{name}_bad_interval", f"{name} row {row}", case)
                ok = False
        for i in range(len(hp) - 1):
            for x in (hp[i], (hp[i] + hp[i + 1]) / 2):
                want = cover(Min[name], x) if R.in_intervals(merged_kept, x) else []
                have = cover(rows, x)
                if want != have:
                    ok = False
                    kept = R.in_intervals(merged_kept, x)
                    if kept and [w[:-1] for w in want] == [h[:-1] for h in have]:
                        part = f"{name[:-1]}_metadata"
                    elif kept:
                        part = f"{name}_retained_region_changed"
                    else:
                        part = f"{name}_in_removed_region"
                    acc.fail(f"{prefix}:{part}",
                             f"at x={x} ({'retained' if kept else 'removed'}) {name} cover {have} "
                             f"expected {want}", case)
                    break
            else:
                continue
            break
        lo, hi = R.edge_piece_bounds(Min[name], given_kept)
        if not lo <= len(rows) <= hi:
            acc.fail(f"{prefix}:{name}_row_count", f"{len(rows)} {name} rows, expected between {lo} "
                     f"and {hi} (rows truncated to the listed intervals): {rows}", case)
            ok = False
    return ok


def run_iv(m, var, acc):
    import tskit  # noqa

    mode, q, mig = var["mode"], var["q"], var["mig"]
    tc = build(m, mode, q, mig)
    Min = snap(tc)
    hp = half_points(m)
    H = len(hp) - 1
    full = (1 << H) - 1
    has_edges = bool(Min["edges"])
    base_case = {"fam": "iv", "member": m.desc(), "var": var}
    acc.enter(base_case)
    ts = None
    if mig == 0:
        ts = tc.tree_sequence()
    for bits in range(full + 1):
        merged_kept = [tuple(x) for x in pattern_intervals(hp, bits, True)]
        nontrivial = has_edges and bits not in (0, full)
        seen = set()
        for op, merged in var.get("combos", ALL_COMBOS):
            arg_bits = bits if op == "keep" else full & ~bits
            ivs = pattern_intervals(hp, arg_bits, merged)
            key = (op, tuple(map(tuple, ivs)))
            if key in seen:
                continue
            seen.add(key)
            if op == "keep":
                given_kept = [tuple(x) for x in ivs]
            else:
                given_kept = R.negate([tuple(x) for x in ivs], m.L)
            recorded = bool((bits + merged) & 1)
            case = dict(base_case, op=op, intervals=ivs, simplify=False)
            prefix = f"{op}_intervals"
            t2 = tc.copy()
            try:
                if op == "keep":
                    t2.keep_intervals(ivs, simplify=False, record_provenance=recorded)
                else:
                    t2.delete_intervals(ivs, simplify=False, record_provenance=recorded)
            except Exception as e:  # noqa
                acc.fail(f"{prefix}:raised", f"raised {e!r}", case)
                acc.ev(1, nontrivial)
                continue
            got = snap(t2)
            check_iv_result(acc, prefix, Min, got, given_kept, merged_kept, hp, recorded, case)
            valid_ts(acc, prefix, t2, case)
            acc.ev(1, nontrivial)
            if ts is not None and merged:
                # TreeSequence method: "identical" to the TableCollection one
                f = ts.keep_intervals if op == "keep" else ts.delete_intervals
                try:
                    got2 = snap(f(ivs, simplify=False, record_provenance=False).dump_tables())
                except Exception as e:  # noqa
                    acc.fail(f"{prefix}:ts_raised", f"TreeSequence.{prefix} raised {e!r}", case)
                    continue
                g1 = dict(got, provenances=Min["provenances"])
                report(acc, f"{prefix}:ts_vs_tables", got2, g1, case)
                acc.ev(1, nontrivial)
    # refused argument lists (documented: non-overlapping, increasing, within [0, L])
    bad_lists = [
        [[hp[0], hp[2]], [hp[1], hp[H]]],          # overlapping
        [[hp[1], hp[H]], [hp[0], hp[1]]],          # decreasing order
        [[hp[0], hp[H] + 1.0]],                    # beyond L
        [[-0.5, hp[1]]],                           # before 0
        [[hp[1], hp[1]]],                          # empty
        [[hp[2], hp[1]]],                          # reversed
    ]
    # every list of two or three intervals over the half grid that is NOT increasing and disjoint (once per
    # grid: whether a list is acceptable does not depend on the tables)
    if tuple(hp) not in _BAD_LISTS_DONE and len(hp) <= 5:
        _BAD_LISTS_DONE.add(tuple(hp))
        ivals = [[hp[i], hp[j]] for i in range(len(hp)) for j in range(i + 1, len(hp))]
        for k in (2, 3):
            for combo in itertools.product(ivals, repeat=k):
                if any(combo[i + 1][0] < combo[i][1] for i in range(k - 1)):
                    bad_lists.append([list(x) for x in combo])
    for ivs in bad_lists:
        for op in ("keep", "delete"):
            t2 = tc.copy()
            case = dict(base_case, op=op, intervals=ivs, simplify=False, bad=True)
            try:
                getattr(t2, op + "_intervals")(ivs, simplify=False, record_provenance=False)
            except ValueError:
                acc.ev(1, has_edges)
                continue
            except Exception as e:  # noqa
                acc.fail(f"{op}_intervals:bad_list_error", f"{ivs}: raised {e!r}, expected ValueError", case)
                continue
            acc.fail(f"{op}_intervals:bad_list_accepted", f"{ivs} accepted", case)
    if any(g[0] < hp[1] for g in Min["migrations"]):
        # documented: simplify must be False if the input includes migrations
        t2 = tc.copy()
        case = dict(base_case, op="keep", intervals=[[hp[0], hp[1]]], simplify=True)
        try:
            t2.keep_intervals([[hp[0], hp[1]]], simplify=True, record_provenance=False)
            acc.fail("keep_intervals:simplify_with_migrations_accepted", "no error", case)
        except Exception:  # noqa
            pass
        acc.ev(1, False)
    acc.sample({"fam": "iv", "member": m.desc(), "var": var, "patterns": full + 1})


# ======================================================================================
# [ivs] simplify=True == simplify() of the simplify=False result
# ======================================================================================
def run_ivs(m, var, acc):
    mode, q = var["mode"], var["q"]
    ops = var.get("ops", ["keep", "delete"])
    # simplify() refuses edges with metadata (documented error), so none here
    tc = build(m, mode, q, 0, edge_md=False)
    ts = tc.tree_sequence()
    hp = half_points(m)
    H = len(hp) - 1
    full = (1 << H) - 1
    has = bool(m.edges()) and bool(m.samples)
    base_case = {"fam": "ivs", "member": m.desc(), "var": var}
    acc.enter(base_case)
    for bits in range(full + 1):
        for op in ops:
            arg_bits = bits if op == "keep" else full & ~bits
            ivs = pattern_intervals(hp, arg_bits, True)
            case = dict(base_case, op=op, intervals=ivs, simplify=True)
            prefix = f"{op}_intervals"
            name = op + "_intervals"
            try:
                r1 = tc.copy()
                getattr(r1, name)(ivs, simplify=True, record_provenance=False)
                r0 = tc.copy()
                getattr(r0, name)(ivs, simplify=False, record_provenance=False)
                r0.simplify(record_provenance=False)
                # default argument is simplify=True
                r2 = getattr(ts, name)(ivs, record_provenance=False).dump_tables()
            except Exception as e:  # noqa
                acc.fail(f"{prefix}:simplify_raised", f"raised {e!r}", case)
                acc.ev(1, has)
                continue
            a, b, c = snap(r1), snap(r0), snap(r2)
            report(acc, f"{prefix}:simplify_true", a, b, case)
            report(acc, f"{prefix}:ts_simplify_default", c, b, case)
            acc.ev(2, has and bits not in (0, full))
    acc.sample({"fam": "ivs", "member": m.desc(), "var": var})


# ======================================================================================
# [trim]
# ======================================================================================
def run_trim(m, var, acc):
    import tskit

    mode, q = var["mode"], var["q"]
    base_case = {"fam": "trim", "member": m.desc(), "var": var}
    acc.enter(base_case)
    for mig in range(NMIG):
        tc = build(m, mode, q, mig)
        Min = snap(tc)
        try:
            ts = tc.tree_sequence()
        except Exception as e:  # noqa
            raise RuntimeError(f"harness: decorated input invalid: {e!r} {base_case}")
        for op in ("ltrim", "rtrim", "trim"):
            exp, must, may = R.trim(Min, op)
            case = dict(base_case, op=op, mig=mig)
            changes = exp == R.REFUSE or must or exp["L"] != Min["L"] or exp["edges"] != Min["edges"]
            nontrivial = bool(changes)
            for level in ("tables", "ts"):
                recorded = (mig + (level == "ts")) % 2 == 0
                acc.ev(1, nontrivial)
                prefix = op
                try:
                    if level == "tables":
                        t2 = tc.copy()
                        getattr(t2, op)(record_provenance=recorded)
                    else:
                        t2 = getattr(ts, op)(record_provenance=recorded).dump_tables()
                    err = None
                except ValueError as e:
                    err = e
                except tskit.LibraryError as e:
                    # TreeSequence.xtrim(): the in-place result failed tree_sequence()
                    err = e
                    if level == "tables":
                        acc.fail(f"{prefix}:raised", f"raised {e!r}", case)
                        continue
                except Exception as e:  # noqa
                    acc.fail(f"{prefix}:raised", f"raised {e!r}", case)
                    continue
                if exp == R.REFUSE:
                    if err is None:
                        acc.fail(f"{prefix}:no_edges_not_refused", "trimming without edges succeeded", case)
                    continue
                if err is not None:
                    if not (must or may):
                        acc.fail(f"{prefix}:refused", f"raised {err!r} on a trimmable input", case)
                    continue
                got = snap(t2)
                if must:
                    bad = [g for g in got["migrations"] if g[0] < 0 or g[1] > got["L"]]
                    acc.fail(f"{prefix}:migration_out_of_bounds",
                             f"{level}: migrations reach beyond the edges, the call was not refused and "
                             f"left migration rows {bad} outside [0, {got['L']}]", case)
                    continue
                report(acc, prefix, got, exp, case, skip=("provenances",))
                check_provenance(acc, prefix, got, Min, recorded, case)
                if level == "tables":
                    valid_ts(acc, prefix, t2, case)
    acc.sample({"fam": "trim", "member": m.desc(), "var": var})


# ======================================================================================
# [ds] delete_sites
# ======================================================================================
def site_id_lists(S, full_len):
    """Every sequence over range(S) of length <= full_len (duplicates, any order) and every
    subset (sorted) beyond that length."""
    out = []
    for k in range(0, full_len + 1):
        out.extend(itertools.product(range(S), repeat=k))
    for k in range(full_len + 1, S + 1):
        out.extend(itertools.combinations(range(S), k))
    return [list(x) for x in out]


def run_ds(m, var, acc):
    import numpy as np

    mode, q, mig = var["mode"], var["q"], var["mig"]
    tc = build(m, mode, q, mig)
    Min = snap(tc)
    ts = tc.tree_sequence()
    S = len(Min["sites"])
    base_case = {"fam": "ds", "member": m.desc(), "var": var}
    acc.enter(base_case)
    has_par = any(r[3] != NULL for r in Min["mutations"])
    for n, ids in enumerate(site_id_lists(S, var.get("full_len", 2))):
        case = dict(base_case, site_ids=ids)
        recorded = bool(n & 1)
        arg = AF.pick(ids, salt=n)[1]
        nontrivial = has_par and 0 < len(set(ids)) < S
        acc.ev(1, nontrivial)
        try:
            if n % 4 == 3:
                t2 = ts.delete_sites(arg, record_provenance=recorded).dump_tables()
            else:
                t2 = tc.copy()
                t2.delete_sites(arg, record_provenance=recorded)
        except Exception as e:  # noqa
            acc.fail("delete_sites:raised", f"raised {e!r}", case)
            continue
        got = snap(t2)
        exp = R.delete_sites(Min, ids)
        report(acc, "delete_sites", got, exp, case, skip=("provenances",))
        check_provenance(acc, "delete_sites", got, Min, recorded, case)
        if n % 4 != 3:
            valid_ts(acc, "delete_sites", t2, case)
    for ids in ([S], [-1], [0, S], [-2, 0]):
        if S == 0 and ids[0] == 0:
            continue
        case = dict(base_case, site_ids=ids)
        t2 = tc.copy()
        acc.ev(1, False)
        try:
            t2.delete_sites(ids, record_provenance=False)
        except Exception:  # noqa
            continue
        acc.fail("delete_sites:out_of_bounds_accepted", f"site ids {ids} with {S} sites accepted", case)
    acc.sample({"fam": "ds", "member": m.desc(), "var": var, "sites": S})


# ======================================================================================
# [time] split_edges / decapitate / delete_older
# ======================================================================================
def cutoffs(Min):
    vals = set(n[1] for n in Min["nodes"])
    for row in Min["mutations"]:
        vals.add(R.mutation_time(Min, row))
    for g in Min["migrations"]:
        vals.add(g[5])
    vals = sorted(vals)
    if not vals:
        return [0.0]
    out = set(vals)
    for a, b in zip(vals, vals[1:]):
        out.add((a + b) / 2)
    out.add(vals[0] - 1.0)
    out.add(vals[-1] + 1.0)
    return sorted(out)


NEW_ARGS = [
    dict(flags=None, population=None, metadata=None),
    dict(flags=1 | (1 << 18), population=1, metadata=b"NEW-node"),
]


def _resolved(kw):
    return (0 if kw["flags"] is None else kw["flags"],
            NULL if kw["population"] is None else kw["population"],
            b"" if kw["metadata"] is None else kw["metadata"])


def check_new_node_result(acc, prefix, got, exp, N0, case):
    can, problems = R.canonical_new_nodes(got, N0)
    for p in problems:
        acc.fail(f"{prefix}:new_node_structure", p, case)
    can["edges"] = sorted(can["edges"], key=repr)
    e2 = dict(exp, edges=sorted(exp["edges"], key=repr))
    return report(acc, prefix, can, e2, case)


def run_time(m, var, acc):
    mode, q = var["mode"], var["q"]
    base_case = {"fam": "time", "member": m.desc(), "var": var}
    acc.enter(base_case)
    tc = build(m, mode, q, 0)
    Min = snap(tc)
    ts = tc.tree_sequence()
    tcm = build(m, mode, q, 1)
    Mm = snap(tcm)
    N0 = len(Min["nodes"])
    has_edges = bool(Min["edges"])
    for ci, t in enumerate(cutoffs(Mm)):
        # ---- delete_older (with migrations) ----
        case = dict(base_case, op="delete_older", time=t)
        exp = R.delete_older(Mm, t)
        t2 = tcm.copy()
        acc.ev(1, has_edges and exp != Mm)
        try:
            t2.delete_older(t)
            got = snap(t2)
            report(acc, "delete_older", got, exp, case)
            valid_ts(acc, "delete_older", t2, case)
        except Exception as e:  # noqa
            acc.fail("delete_older:raised", f"raised {e!r}", case)
        # ---- delete_older on the same rows in REVERSE edge order (documented: no sorting requirements) ----
        if len(Mm["edges"]) >= 2:
            case_r = dict(base_case, op="delete_older", time=t, edges="reversed")
            Mr = dict(Mm, edges=list(reversed(Mm["edges"])))
            t3 = tcm.copy()
            t3.drop_index()
            t3.edges.replace_with(tcm.edges[::-1])
            try:
                t3.delete_older(t)
                report(acc, "delete_older:unsorted_edges", snap(t3), R.delete_older(Mr, t), case_r)
            except Exception as e:  # noqa
                acc.fail("delete_older:unsorted_edges:raised", f"raised {e!r}", case_r)
        # ---- split_edges ----
        for ai, kw in enumerate(NEW_ARGS):
            fl, pop, md = _resolved(kw)
            case = dict(base_case, op="split_edges", time=t, args=ai)
            exp = R.split_edges(Min, t, fl, pop, md)
            acc.ev(1, has_edges and exp["edges"] != Min["edges"])
            try:
                got = snap(ts.split_edges(t, **kw).dump_tables())
            except Exception as e:  # noqa
                acc.fail("split_edges:raised", f"raised {e!r}", case)
                continue
            check_new_node_result(acc, "split_edges", got, exp, N0, case)
        # ---- decapitate ----
        for kw in (NEW_ARGS if var.get("all_args") else [NEW_ARGS[ci % 2]]):
            fl, pop, md = _resolved(kw)
            case = dict(base_case, op="decapitate", time=t, args=NEW_ARGS.index(kw))
            exp = R.decapitate(Min, t, fl, pop, md)
            acc.ev(1, has_edges and (exp["edges"] != Min["edges"] or exp["mutations"] != Min["mutations"]))
            try:
                got = snap(ts.decapitate(t, **kw).dump_tables())
            except Exception as e:  # noqa
                acc.fail("decapitate:raised", f"raised {e!r}", case)
                continue
            check_new_node_result(acc, "decapitate", got, exp, N0, case)
    # documented: migrations are not supported by split_edges / decapitate
    if Mm["migrations"]:
        tsm = tcm.tree_sequence()
        t = cutoffs(Mm)[len(cutoffs(Mm)) // 2]
        for op in ("split_edges", "decapitate"):
            case = dict(base_case, op=op, time=t, migrations=True)
            acc.ev(1, False)
            try:
                getattr(tsm, op)(t)
            except Exception:  # noqa
                continue
            acc.fail(f"{op}:migrations_accepted", "no error with a non-empty migration table", case)
    if var.get("node_schema"):
        run_time_schema(tc, Min, base_case, acc)
    acc.sample({"fam": "time", "member": m.desc(), "var": var, "cutoffs": len(cutoffs(Mm))})


def run_time_schema(tc, Min, base_case, acc):
    """split_edges / decapitate docstring: with a metadata schema on the node table the
    default metadata of new nodes is an empty dictionary and a given value is validated and
    encoded by the schema.  The new rows are compared after JSON decoding."""
    import json

    import tskit

    tcs = tc.copy()
    tcs.nodes.metadata_schema = tskit.MetadataSchema({"codec": "json"})
    tss = tcs.tree_sequence()
    Ms = snap(tcs)
    N0 = len(Ms["nodes"])
    for t in cutoffs(Min):
        for op in ("split_edges", "decapitate"):
            for obj in (None, {"a": 1, "b": [2, "x"]}):
                case = dict(base_case, op=op, time=t, node_schema=True, metadata=obj)
                ref = R.split_edges if op == "split_edges" else R.decapitate
                exp = ref(Ms, t, 0, NULL, b"<json>")
                acc.ev(1, exp["edges"] != Ms["edges"])
                try:
                    got = snap(getattr(tss, op)(t, metadata=obj).dump_tables())
                except Exception as e:  # noqa
                    acc.fail(f"{op}:raised", f"node schema, metadata={obj}: raised {e!r}", case)
                    continue
                want = {} if obj is None else obj
                new_nodes = []
                for row in got["nodes"][N0:]:
                    try:
                        dec = json.loads(row[4].decode()) if row[4] else {}
                    except Exception:  # noqa
                        dec = ("undecodable", row[4])
                    if dec != want:
                        acc.fail(f"{op}:new_node_metadata_schema",
                                 f"new node metadata {row[4]} decodes to {dec}, expected {want}", case)
                    new_nodes.append(row[:4] + (b"<json>",))
                got["nodes"] = got["nodes"][:N0] + new_nodes
                check_new_node_result(acc, op, got, exp, N0, case)


# ======================================================================================
# [ext] extend_haplotypes
# ======================================================================================
def genotypes(M):
    rts = RefTS([n[1] for n in M["nodes"]], [n[0] & 1 for n in M["nodes"]],
                [e[:4] for e in M["edges"]], M["L"],
                [(s[0], s[1]) for s in M["sites"]],
                [(r[0], r[1], r[2], r[3], r[4]) for r in M["mutations"]])
    S = rts.samples
    return [(site_alleles(rts, j, S, True), site_alleles(rts, j, S, False))
            for j in range(len(M["sites"]))]


def simplified(t):
    """Model of simplify() of the TableCollection t (consumed), edge rows sorted."""
    t.edges.drop_metadata()
    t.simplify(record_provenance=False)
    M = snap(t)
    M["edges"] = sorted(M["edges"])
    return M


def detached_mutations(Min, Mout):
    """Mutations sitting on a node that is not part of the input tree at the site (no parent,
    no child there) but is part of the output tree there."""
    N = len(Min["nodes"])
    out = []
    for j, row in enumerate(Min["mutations"]):
        x = Min["sites"][row[0]][0]
        u = row[1]
        pin = R.parent_map(Min["edges"], N, x)
        if pin[u] == NULL and u not in pin:
            pout = R.parent_map(Mout["edges"], N, x)
            if pout[u] != NULL or u in pout:
                out.append(j)
    return sorted(out)


def run_ext(m, var, acc):
    mode, q = var["mode"], var["q"]
    base_case = {"fam": "ext", "member": m.desc(), "var": var}
    acc.enter(base_case)
    tc = build(m, mode, q, 0)
    Min = snap(tc)
    ts = tc.tree_sequence()
    has = bool(Min["edges"]) and m.G > 1
    if mode == "unknown":
        # documented: the method requires known mutation times
        case = dict(base_case, max_iter=10)
        acc.ev(1, False)
        if Min["mutations"]:
            try:
                ts.extend_haplotypes()
                acc.fail("extend_haplotypes:unknown_times_accepted", "no error", case)
            except Exception:  # noqa
                pass
        return
    gin = genotypes(Min)
    sin = None
    pts = []
    c = m.coords
    for i in range(m.G):
        pts.append(c[i])
        pts.append((c[i] + c[i + 1]) / 2)
    for max_iter in (1, 10):
        case = dict(base_case, max_iter=max_iter)
        try:
            ts2 = ts.extend_haplotypes(max_iter=max_iter)
            got = snap(ts2.dump_tables())
        except Exception as e:  # noqa
            acc.fail("extend_haplotypes:raised", f"raised {e!r}", case)
            acc.ev(1, has)
            continue
        changed = sorted(got["edges"]) != sorted(Min["edges"])
        acc.ev(1, has and changed)
        if changed:
            acc.count("ext_changed")
        # only the edge table and the mutation node column may differ
        exp = R.clone(Min)
        exp["edges"] = got["edges"]
        same_muts = len(got["mutations"]) == len(Min["mutations"])
        if same_muts:
            exp["mutations"] = [r[:1] + (g[1],) + r[2:] for r, g in zip(Min["mutations"], got["mutations"])]
        report(acc, "extend_haplotypes:other_tables", got, exp, case)
        if not changed and got["mutations"] == Min["mutations"]:
            continue  # same rows as the input: nothing further to compare
        allowed = set(c)
        for row in got["edges"]:
            if not row[0] < row[1] or row[0] not in allowed or row[1] not in allowed:
                acc.fail("extend_haplotypes:edge_bad_interval", f"edge row {row}", case)
        for x in pts:
            for p in R.extend_position_problems(Min, got, x):
                acc.fail("extend_haplotypes:tree_changed", p, case)
        if not same_muts:
            continue
        for j in range(len(Min["mutations"])):
            if not R.extend_mutation_node_ok(Min, got, j):
                acc.fail("extend_haplotypes:mutation_node",
                         f"mutation {j} {Min['mutations'][j]} moved to node {got['mutations'][j][1]}",
                         case)
        # sample genotypes and the simplified tree sequence (up to edge order) are identical;
        # simplify() refuses edge metadata, which is dropped on both sides first
        try:
            gout = genotypes(got)
            if sin is None:
                sin = simplified(ts.dump_tables())
            sout = simplified(ts2.dump_tables())
            if gout == gin and sout == sin:
                continue
            # Are the differences entirely due to mutations that sit on a node outside the
            # input tree at their site, which the extension pulled into the tree?  Decide by
            # repeating both comparisons without those mutation rows.
            det = detached_mutations(Min, got)
            sfx = ""
            if det:
                t_in, t_out = ts.dump_tables(), ts2.dump_tables()
                keep = [j not in det for j in range(len(Min["mutations"]))]
                t_in.mutations.keep_rows(keep)
                t_out.mutations.keep_rows(keep)
                if genotypes(snap(t_in)) == genotypes(snap(t_out)) and simplified(t_in) == simplified(t_out):
                    sfx = "_mutation_on_detached_node"
            note = (f"; mutations {det} sit on nodes that are not in the input tree at their site "
                    "and that the extension inserted into the tree there") if sfx else ""
            if gout != gin:
                acc.fail("extend_haplotypes:genotypes" + sfx,
                         f"sample genotypes {gout} expected {gin}" + note, case)
            for part, msg in diff_models(sout, sin):
                acc.fail(f"extend_haplotypes:simplified{sfx}", msg + note, case)
                break
        except Exception as e:  # noqa
            acc.fail("extend_haplotypes:simplify_raised", f"raised {e!r}", case)
    acc.sample({"fam": "ext", "member": m.desc(), "var": var})


# ======================================================================================
# driver
# ======================================================================================
# ======================================================================================
# [chain] two (with a leading trim: three) editing operations in place on ONE indexed TableCollection
# ======================================================================================
def run_chain(m, var, acc):
    """op1 ; op2 applied in place to the tables of a tree sequence (which carry its index) must give what
    op2 gives on a rebuilt, index-free copy of op1's result, and load exactly when that does: nothing an
    earlier operation leaves behind (a stale index, cached state) may leak into the next.  Variants with
    pre=1 also run every (ltrim | rtrim | trim) ; op1 ; op2 on the one object (depth 3): what a trim
    remembered about the collection must not outlive the edit that follows it.  op2 includes trim."""
    mode, q = var["mode"], var["q"]
    base_case = {"fam": "chain", "member": m.desc(), "var": var}
    acc.enter(base_case)
    tc0 = build(m, mode, q, 0)
    try:
        base = tc0.tree_sequence().dump_tables()
    except Exception as e:  # noqa
        raise RuntimeError(f"harness: decorated member does not load: {e!r}")
    hp = half_points(m)
    nh = len(hp) - 1
    times = cutoffs(snap(tc0))

    def first_ops():
        for bits in range(1, 2 ** nh - 1):
            ivs = pattern_intervals(hp, bits, False)
            yield ("keep_intervals", ivs), lambda t, ivs=ivs: t.keep_intervals(ivs, simplify=False, record_provenance=False)
            if bits % 2:
                yield ("delete_intervals", ivs), lambda t, ivs=ivs: t.delete_intervals(ivs, simplify=False, record_provenance=False)

    def second_ops():
        for t_ in times:
            yield ("delete_older", t_), lambda t, t_=t_: t.delete_older(t_)
        yield ("ltrim",), lambda t: t.ltrim(record_provenance=False)
        yield ("rtrim",), lambda t: t.rtrim(record_provenance=False)
        yield ("trim",), lambda t: t.trim(record_provenance=False)
        yield ("sort",), lambda t: t.sort()
        yield ("delete_sites", [0]), lambda t: t.delete_sites([0], record_provenance=False) if t.sites.num_rows else None

    def loads(t):
        try:
            t.tree_sequence()
            return True, None
        except Exception as e:  # noqa
            return False, e

    def zeroth_ops():
        # depth 3: a trim BEFORE the pair, on the same object (anything a trim remembers about the
        # collection - an extent, a length - must not outlive the edit that follows it)
        yield None, None
        if not var.get("pre"):
            return
        yield ("ltrim",), lambda t: t.ltrim(record_provenance=False)
        yield ("rtrim",), lambda t: t.rtrim(record_provenance=False)
        yield ("trim",), lambda t: t.trim(record_provenance=False)

    for (d0, f0), (d1, f1) in itertools.product(zeroth_ops(), first_ops()):
        mid = base.copy()
        try:
            if f0 is not None:
                f0(mid)
            f1(mid)
        except Exception:  # noqa: judged by the single-operation families
            continue
        if f0 is not None:
            def f1(t, f0=f0, g=f1):  # noqa: the pair (trim ; edit) as one in-place prefix
                f0(t)
                g(t)
            d1 = (list(d0), list(d1))
        for d2, f2 in second_ops():
            case = dict(base_case, op=[list(d1), list(d2)])
            # (a) really is one object through both steps: copy() would shed whatever op1 left behind
            a = base.copy()
            f1(a)
            b = mid.copy()
            b.drop_index()
            ea = eb = None
            try:
                f2(a)
            except Exception as e:  # noqa
                ea = e
            try:
                f2(b)
            except Exception as e:  # noqa
                eb = e
            acc.ev(1, bool(base.edges.num_rows))
            if (ea is None) != (eb is None):
                acc.fail("chain:raises_differ", f"{d1} ; {d2}: in place {ea!r}, on an index-free copy {eb!r}", case)
                continue
            if ea is not None:
                continue
            if snap(a) != snap(b):
                acc.fail("chain:rows_differ", f"{d1} ; {d2} in place differs from the same on an index-free copy", case)
                continue
            if not b.has_index():
                try:
                    b.build_index()
                except Exception:  # noqa
                    continue
            okb, errb = loads(b)
            oka, erra = loads(a) if a.has_index() else (okb, errb)
            if oka != okb:
                acc.fail("chain:loadable_differs", f"{d1} ; {d2}: tree_sequence() in place -> {erra!r}, with a freshly "
                         f"built index -> {errb!r}", case)
            elif oka and a.has_index():
                ta, tb = a.tree_sequence(), b.tree_sequence()
                if ta.num_trees != tb.num_trees or any(x.parent_array.tolist() != y.parent_array.tolist()
                                                       for x, y in zip(ta.trees(), tb.trees())):
                    acc.fail("chain:trees_differ", f"{d1} ; {d2}: the index left in place gives other trees than a "
                             f"freshly built one", case)


FAMILIES = {"chain": run_chain, "iv": run_iv, "ivs": run_ivs, "trim": run_trim, "ds": run_ds, "time": run_time,
            "ext": run_ext}


def bounds(tier):
    return {
        "tier": tier,
        "plan": [{k: v for k, v in p.items()} for p in plan(tier)],
        "note": "b = universe bound; flags=allsamples where the operation ignores sample flags; "
                "vars = decoration variants (mutation time mode, mutation pattern rotation q, "
                "migration layout)",
    }


def V(mode, q, mig=0, **kw):
    return dict(mode=mode, q=q, mig=mig, **kw)


def plan(tier):
    P = []

    def add(fam, b, vars_, per):
        P.append(dict(fam=fam, b=b, vars=vars_, per=per))

    AS = "allsamples"
    LV = "leaves"
    QS = range(len(MUTPAT))
    if tier == "quick":
        # ---- iv ----
        for n in (0, 1, 2, 3):
            for g in (1, 2):
                add("iv", dict(N=n, G=g, times="id", flags=AS), [V("unknown", 0, 1), V("known", 1, 0)], 6)
        add("iv", dict(N=4, G=2, times="id", flags=AS), [V("known", 1, 1)], 12)
        add("iv", dict(N=4, G=2, times="id", flags=AS), [V("unknown", 0, 0, combos=TWO_COMBOS)], 24)
        add("iv", dict(N=2, G=3, times="id", flags=AS), [V("known", 0, 1)], 2)
        add("iv", dict(N=3, G=3, times="id", flags=AS), [V("known", 0, 1, combos=TWO_COMBOS)], 6)
        add("iv", dict(N=3, G=2, times="weak", flags=AS, grid="frac", timescale="quarter"),
            [V("known", 2, 1, combos=TWO_COMBOS)], 24)
        # a retained / deleted region exactly one ulp wide
        add("iv", dict(N=2, G=3, times="id", flags=AS, grid="ulp"), [V("known", 0, 1)], 2)
        add("iv", dict(N=3, G=3, times="id", flags=AS, grid="ulp"), [V("unknown", 0, 0, combos=TWO_COMBOS)], 6)
        # ---- chain ----
        add("chain", dict(N=3, G=2, times="id", flags=AS), [V("unknown", 0, pre=1)], 12)
        add("chain", dict(N=4, G=2, times="id", flags=AS), [V("known", 1)], 40)
        add("chain", dict(fixed=True), [V("unknown", 0, pre=1), V("known", 1, pre=1)], 1)
        # ---- ivs ----
        for n in (1, 2, 3):
            add("ivs", dict(N=n, G=2, times="id"), [V("known", 1)], 12)
        add("ivs", dict(N=4, G=2, times="id", flags=LV), [V("known", 0, ops=["keep"])], 24)
        add("ivs", dict(N=4, G=2, times="id", flags=AS), [V("unknown", 2, ops=["delete"])], 24)
        # ---- trim ----
        for n in (0, 1, 2, 3):
            for g in (1, 2, 3):
                add("trim", dict(N=n, G=g, times="id", flags=AS), [V("unknown", 0), V("known", 1)], 12)
        add("trim", dict(N=4, G=2, times="id", flags=AS), [V("known", 0)], 24)
        add("trim", dict(N=3, G=3, times="id", flags=AS, grid="frac", timescale="quarter"),
            [V("known", 2)], 24)
        # ---- ds ----
        for n in (0, 1, 2, 3):
            add("ds", dict(N=n, G=2, times="id", flags=AS),
                [V("unknown", 0, 1, full_len=3), V("known", 1, 1, full_len=3)], 4)
        add("ds", dict(N=4, G=2, times="id", flags=AS), [V("unknown", 3, 1), V("known", 4, 0)], 24)
        add("ds", dict(N=3, G=3, times="id", flags=AS), [V("known", 0, 1)], 12)
        # ---- time ----
        for n in (0, 1, 2, 3):
            for g in (1, 2):
                add("time", dict(N=n, G=g, times="weak", flags=AS),
                    [V(mo, k) for k, mo in enumerate(MODES)], 12)
        add("time", dict(N=4, G=2, times="id", flags=AS), [V(mo, k) for k, mo in enumerate(MODES)], 12)
        add("time", dict(N=3, G=2, times="weak", flags=AS, timescale="big"), [V("known", 3)], 40)
        add("time", dict(N=4, G=1, times="weak", flags=AS), [V("known", 0)], 40)
        add("time", dict(N=3, G=2, times="id", flags=AS), [V("known", 2, node_schema=True)], 6)
        # ---- ext ----
        for n in (0, 1, 2, 3):
            for g in (1, 2, 3):
                add("ext", dict(N=n, G=g, times="id"),
                    [V("known", 0), V("known_eq", 1), V("unknown", 0)], 150)
        add("ext", dict(N=4, G=2, times="id"), [V("known", 0), V("known_eq", 3)], 150)
        add("ext", dict(N=4, G=3, times="id", flags=LV), [V("known", 0)], 300)
        add("ext", dict(N=3, G=3, times="weak"), [V("known", 1)], 300)
    else:
        add("chain", dict(N=3, G=2, times="id", flags=AS), [V("unknown", 0, pre=1), V("known", 1, pre=1)], 12)
        add("chain", dict(N=4, G=2, times="id", flags=AS), [V("known", 1, pre=1)], 40)
        add("chain", dict(fixed=True), [V("unknown", 0, pre=1), V("known", 1, pre=1)], 1)
        # ---- iv ----
        for n in (0, 1, 2, 3):
            for g in (1, 2, 3):
                add("iv", dict(N=n, G=g, times="id", flags=AS),
                    [V(MODES[k % 2], k, k % 2) for k in QS], 2 if g == 3 else 8)
        add("iv", dict(N=4, G=2, times="id", flags=AS), [V(MODES[k % 2], k, k % 2) for k in QS], 6)
        add("iv", dict(N=4, G=3, times="id", flags=AS), [V("known", 0, 1, combos=[["keep", True]])], 40)
        add("iv", dict(N=3, G=3, times="weak", flags=AS, grid="frac", timescale="quarter"),
            [V("known", 2, 1, combos=TWO_COMBOS)], 12)
        add("iv", dict(N=4, G=2, times="weak", flags=AS, grid="frac"),
            [V("unknown", 1, 1, combos=TWO_COMBOS)], 80)
        add("iv", dict(N=4, G=2, times="id", flags=AS, squash=False), [V("known", 3, 1)], 20)
        # ---- ivs ----
        for n in (1, 2, 3):
            for g in (1, 2):
                add("ivs", dict(N=n, G=g, times="id"), [V("unknown", 0), V("known", 1)], 8)
            add("ivs", dict(N=n, G=3, times="id"), [V("known", 2, ops=["keep"])], 8)
        add("ivs", dict(N=4, G=2, times="id"), [V("known", 0, ops=["keep"])], 40)
        add("ivs", dict(N=4, G=2, times="id", flags=LV), [V("unknown", 3, ops=["delete"])], 20)
        # ---- trim ----
        for n in (0, 1, 2, 3):
            for g in (1, 2, 3):
                add("trim", dict(N=n, G=g, times="weak", flags=AS),
                    [V(MODES[k % 2], k) for k in QS], 8)
        add("trim", dict(N=4, G=2, times="id", flags=AS), [V("known", 0), V("unknown", 4)], 20)
        add("trim", dict(N=4, G=3, times="id", flags=AS), [V("unknown", 1)], 60)
        add("trim", dict(N=5, G=2, times="id", flags=AS), [V("known", 3)], 60)
        add("trim", dict(N=3, G=3, times="weak", flags=AS, grid="frac", timescale="quarter"),
            [V("known", 2)], 40)
        # ---- ds ----
        for n in (0, 1, 2, 3):
            for g in (1, 2):
                add("ds", dict(N=n, G=g, times="id", flags=AS),
                    [V(MODES[k % 2], k, k % 2, full_len=4) for k in QS], 1)
        add("ds", dict(N=4, G=2, times="id", flags=AS),
            [V(MODES[k % 2], k, 1, full_len=3) for k in QS], 6)
        add("ds", dict(N=3, G=3, times="id", flags=AS), [V("known", 0, 1, full_len=2)], 20)
        add("ds", dict(N=3, G=3, times="id", flags=AS),
            [V(MODES[k % 2], k, 1, full_len=1) for k in QS], 10)
        # ---- time ----
        for n in (0, 1, 2, 3):
            for g in (1, 2, 3):
                add("time", dict(N=n, G=g, times="weak", flags=AS),
                    [V(mo, k, all_args=True) for k in QS for mo in MODES], 6)
        add("time", dict(N=4, G=2, times="weak", flags=AS), [V("known", 0)], 100)
        add("time", dict(N=4, G=2, times="id", flags=AS),
            [V(mo, k + 1, all_args=True) for k, mo in enumerate(MODES)], 20)
        add("time", dict(N=4, G=3, times="id", flags=AS), [V("known", 3)], 100)
        add("time", dict(N=5, G=2, times="id", flags=AS), [V("known_eq", 0)], 100)
        add("time", dict(N=3, G=3, times="weak", flags=AS, timescale="big"), [V("known", 3)], 50)
        add("time", dict(N=3, G=2, times="weak", flags=AS), [V("known", 2, node_schema=True)], 10)
        add("time", dict(N=3, G=2, times="weak", flags=AS, grid="frac", timescale="quarter"),
            [V("known_eq", 4), V("known", 5)], 50)
        # ---- ext ----
        for n in (0, 1, 2, 3):
            for g in (1, 2, 3):
                add("ext", dict(N=n, G=g, times="weak"),
                    [V("known", k) for k in QS] + [V("known_eq", 1), V("unknown", 0)], 100)
        add("ext", dict(N=4, G=2, times="weak"), [V("known", 0)], 2500)
        add("ext", dict(N=4, G=3, times="id"), [V("known_eq", 4)], 2500)
        add("ext", dict(N=5, G=2, times="id"), [V("known", 2)], 2500)
        add("ext", dict(N=4, G=4, times="id", flags=LV), [V("known", 1)], 2500)
        add("ext", dict(N=4, G=2, times="id", squash=False), [V("known", 5)], 600)
    return P


def leaf_flags(N, ranks, cells):
    """One flag vector per structure: a node is a sample iff it is never a parent."""
    par = set()
    for cell in cells:
        par.update(p for p in cell if p >= 0)
    return [tuple(0 if u in par else 1 for u in range(N))]


# hand-picked structures with nodes of several ages whose edges are partly whole-span (split by an interval
# list) and partly per-tree (removed by a time cutoff): here an operation can bring the NUMBER of edge rows
# back to what it was two steps earlier, which is all that has_index() looks at
CHAIN_FIXED = [
    dict(N=5, G=2, ranks=(0, 0, 1, 2, 3), parents=((2, 2, 3, -1, -1), (2, 2, 4, -1, -1)), flags=(1, 1, 0, 0, 0)),
    dict(N=6, G=2, ranks=(0, 0, 0, 1, 2, 3), parents=((3, 3, 4, 4, -1, -1), (3, 3, 5, 5, -1, -1)), flags=(1, 1, 1, 0, 0, 0)),
    dict(N=5, G=2, ranks=(0, 0, 1, 2, 3), parents=((2, 2, 3, -1, -1), (2, 2, 4, -1, -1)), flags=(1, 1, 1, 1, 1)),
    dict(N=6, G=3, ranks=(0, 0, 0, 1, 2, 3), parents=((3, 3, 4, 4, -1, -1), (3, 3, 5, 5, -1, -1), (3, 3, 4, 4, -1, -1)),
         flags=(1, 1, 1, 0, 0, 0)),
]


def members(b):
    if "fixed" in b:
        return iter([U.Member(d["N"], d["G"], tuple(d["ranks"]), tuple(tuple(c) for c in d["parents"]), tuple(d["flags"]))
                     for d in CHAIN_FIXED])
    b = dict(b)
    if b.get("flags") == "leaves":
        b["flags"] = leaf_flags
    return U.enumerate_members(**b)


def shards(tier, seed):
    import os

    # development aid: VERIF_C11_FAMS=iv,ext restricts the run to some operation families
    # (a subset of the same shards; never set for the recorded runs)
    only = [x for x in os.environ.get("VERIF_C11_FAMS", "").split(",") if x]
    specs = []
    for p in plan(tier):
        if only and p["fam"] not in only:
            continue
        b = p["b"]
        if "fixed" in b:
            for k in range(len(CHAIN_FIXED)):
                specs.append(dict(fam=p["fam"], b=b, vars=p["vars"], k=k, n=len(CHAIN_FIXED)))
            continue
        cnt = U.count_members(b["N"], b["G"], b.get("times", "id"), b.get("flags", "all"))
        per = p["per"] * (4 if tier != "quick" and p["fam"] != "ext" else 1)
        n = max(1, -(-cnt // per))
        for k in range(n):
            specs.append(dict(fam=p["fam"], b=b, vars=p["vars"], k=k, n=n))
    return specs


def run_shard(spec):
    acc = Acc()
    f = FAMILIES[spec["fam"]]
    for m in U.shard(members(spec["b"]), spec["k"], spec["n"]):
        for var in spec["vars"]:
            f(m, var, acc)
    return acc.result()


def replay(case):
    acc = Acc()
    acc.MAX_PER_KEY = 10 ** 6
    m = U.Member.from_desc(case["member"])
    FAMILIES[case["fam"]](m, case["var"], acc)
    # keep only failures of the very same call when the case names one
    keys = [k for k in ("op", "intervals", "site_ids", "time", "args", "mig", "max_iter") if k in case]
    out = [f for f in acc.failures if all(f["case"].get(k) == case[k] for k in keys)]
    return out
