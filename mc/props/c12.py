"""C12  Metadata codecs decode what they encode and honour the schema.

Exhaustive exploration over a schema grammar (struct codec: every leaf format, arrays with
every length encoding, nested objects, index orderings x insertion orders, defaults x
required, object|null top level; json codec: typed properties, defaults, required,
additionalProperties; a list of single meta-schema defects x nesting contexts) x per-type
boundary value domains (conforming, non-conforming, unencodable), each execution of the real
MetadataSchema / table / tree-sequence API compared with the reference model
mc/ref/metacodec.py that is written from docs/metadata.md."""
import copy
import itertools
import json

from ..acc import Acc
from ..ref import metacodec as R

ID = "C12"
LEVEL = "exploration"
VARIANT = "plain"
RULE = ("every schema of the grammar families (leaf, array, order, pair, defaults, nested, exhaust, "
        "json, jsonbare, meta) within the tier bounds x every value of the per-schema boundary domain "
        "(baseline, one-factor-at-a-time over every property domain, 2^k core product, each key "
        "missing, extra key, non-objects) x 3 schema instances (dict, json.loads(repr), "
        "parse_metadata_schema(repr)) + table/tree-sequence level on 7 tables, TableCollection and "
        "reference_sequence; one evaluation = one (schema, value) outcome compared with the model, or "
        "one defective schema presented to the constructor; non-trivial = the model determines the "
        "outcome (i.e. it is not one of the counted don't-care values); values are de-duplicated per schema")
ASSUMPTIONS = [
    "relative order of a property with `index` and one without is undocumented: any interleaving "
    "is admitted but must be identical for all insertion orders and after the string round trip",
    "equal `index` values fall back to the documented default (alphabetical by name)",
    "values whose outcome the documentation does not determine (float given to an integer format, "
    "truncation inside a multi-byte character, binary32 overflow, zero-width object|null rows, "
    "null without binaryFormat in a numpy view) are counted as dontcare and not judged",
    "the numpy S dtype drops trailing NULs: string fields are compared modulo trailing NULs",
    "an unencodable-but-valid value must raise some exception and leave the table unchanged",
]
SHARD_TIMEOUT = 600


def bounds(tier):
    q = tier == "quick"
    return {
        "leaf formats": "bBhHiIlLqQfd? c, 1s 3s 0s 4p x nullTerminated, null {none,x,2x}, number/Q"
                        + ", 2s/latin-1" + ("" if q else ", s, 1p"),
        "array": "items = every leaf + 2 object items; length spec in {B,H,I,L,Q,default,length 0/1/2,exhaust}",
        "order": "3 properties, index in {absent,0,1,-1,1.5}^3 x all 6 insertion orders"
                 + ("" if q else "; also nested in object and in array items"),
        "pair": "two properties, " + ("20 x 20 representative leaves, 5 values per property" if q
                                    else "all leaf pairs, full domains"),
        "triple": "three properties, " + ("4^3" if q else "8^3") + " representative leaves",
        "defaults": "2 properties x default present/absent x required in {absent,[],[a],[b],[a,b]} x top {object, object|null}",
        "nested": "depth 2: object in object (+ nested defaults), array of objects, array of arrays, array in "
                  "object; leaf pairs from " + ("6 representative leaves" if q else "all leaves"),
        "json": "1-2 properties from 7 types x default x required x additionalProperties x top type",
        "meta": "single defects x up to 5 nesting contexts",
        "table level": "first 5 conforming, one non-conforming value per class (wrong type, missing key, extra key, not an object), 2 unencodable values, on every table class",
    }


# =========================================================================== grammar: leaves
def _int_leaf(fmt, typ="integer"):
    lo, hi = R.int_range(fmt)
    good = [0, hi, lo, 1] + ([-1] if lo < 0 else [])
    good = list(dict.fromkeys(good))
    return dict(tag=f"{typ[0]}{fmt}", sub={"type": typ, "binaryFormat": fmt}, good=good,
                err=[hi + 1, lo - 1], bad=["1", None, True, [0]] + ([1.5] if typ == "integer" else []),
                default=hi)


def _leaves(tier):
    out = [_int_leaf(f) for f in "bBhHiIlLqQ"]
    out.append(_int_leaf("Q", "number"))
    fl = [0.0, 0.1, -1.5, float("nan"), float("inf"), float("-inf"), 3, 1e-50,
          3.4028234663852886e38]
    out.append(dict(tag="f", sub={"type": "number", "binaryFormat": "f"}, good=fl, err=[],
                    bad=["0.1", None, True, [0.1]], default=0.1))
    out.append(dict(tag="d", sub={"type": "number", "binaryFormat": "d"}, good=fl + [1e300], err=[],
                    bad=["0.1", None, False, {}], default=float("nan")))
    out.append(dict(tag="?", sub={"type": "boolean", "binaryFormat": "?"}, good=[True, False], err=[],
                    bad=[0, 1, "a", None], default=True))
    out.append(dict(tag="c", sub={"type": "string", "binaryFormat": "c"}, good=["a", "~", "\x00"],
                    err=["", "ab", "é"], bad=[5, None, ["a"]], default="z"))
    strs = ["", "a", "abc", "abcd", "a\x00b", "é", "\x00a"]
    fmts = ["1s", "3s", "0s", "4p"] + ([] if tier == "quick" else ["s", "1p"])
    for f in fmts:
        for nt in (False, True):
            sub = {"type": "string", "binaryFormat": f}
            if nt:
                sub["nullTerminated"] = True
            out.append(dict(tag=f + ("z" if nt else ""), sub=sub, good=strs, err=[],
                            bad=[5, None, ["a"], b"a"], default="ab"))
    out.append(dict(tag="2s-latin", sub={"type": "string", "binaryFormat": "2s", "stringEncoding": "latin-1"},
                    good=["", "é", "éèê"], err=[], bad=[5], default="é"))
    if tier != "quick":
        out.append(dict(tag="3sF", sub={"type": "string", "binaryFormat": "3s", "nullTerminated": False},
                        good=strs, err=[], bad=[5], default="ab"))
    for f in (None, "x", "2x"):
        sub = {"type": "null"}
        if f:
            sub["binaryFormat"] = f
        out.append(dict(tag="n" + (f or "-"), sub=sub, good=[None], err=[], bad=[0, "", False, {}],
                        default=None))
    return out


def _leaf_by_tag(tier):
    return {l["tag"]: l for l in _leaves(tier)}


def _zero_width(sub):
    try:
        return R.fixed_size(sub) == 0
    except R.DontCare:
        return True


def _with(sub, **kw):
    s = copy.deepcopy(sub)
    s.update(kw)
    return s


def _struct(props, top="object", **kw):
    s = {"codec": "struct", "type": ["object", "null"] if top == "union" else "object",
         "properties": props}
    s.update(kw)
    return s


# --------------------------------------------------------------------------- value domains
def _dom(leaf):
    return list(leaf["good"]) + list(leaf["err"]) + list(leaf["bad"])


def _array_dom(item_dom_good, item_err, item_bad, spec):
    g = item_dom_good
    g0 = g[0]
    g1 = g[1] if len(g) > 1 else g[0]
    vals = [[], [g0], [g0, g1], [g1, g0, g0]]
    if len(g) > 2:
        vals.append(list(g))
    if spec == "B":
        vals.append([g0] * 255)
        vals.append([g0] * 256)
    for e in item_err[:1]:
        vals.append([e])
        vals.append([g0, e])
    for b in item_bad[:2]:
        vals.append([b])
        vals.append([g0, b])
    vals += [{"0": g0}, "ab", (g0,), None, 0]
    return vals


def _object_values(props, domains, top):
    """Boundary set of objects for a property -> domain map (see RULE)."""
    keys = list(props)
    base = {k: domains[k][0] for k in keys}
    vals = [dict(base)]
    for k in keys:
        for x in domains[k][1:]:
            v = dict(base)
            v[k] = x
            vals.append(v)
    if len(keys) > 1:
        cores = [domains[k][:2] for k in keys]
        for combo in itertools.product(*cores):
            vals.append(dict(zip(keys, combo)))
    for k in keys:
        v = dict(base)
        del v[k]
        vals.append(v)
    if len(keys) > 1:
        vals.append({})
    v = dict(base)
    v["zz"] = 0
    vals.append(v)
    vals += [None, [], "a", 5]
    return _dedupe(vals)


def _dedupe(vals):
    seen = set()
    out = []
    for v in vals:
        k = repr(v)
        if k not in seen:
            seen.add(k)
            out.append(v)
    return out


def _case(schema, values, **kw):
    d = dict(kind="struct", schema=schema, values=values)
    d.update(kw)
    return d


# =========================================================================== struct families
def fam_leaf(tier):
    out = []
    for leaf in _leaves(tier):
        for top in ("object", "union"):
            for dflt in (False, True):
                sub = copy.deepcopy(leaf["sub"])
                if dflt:
                    sub["default"] = leaf["default"]
                schema = _struct({"a": sub}, top)
                out.append(_case(schema, _object_values(schema["properties"], {"a": _dom(leaf)}, top)))
    return out


OBJ_ITEMS = [
    dict(tag="o1", sub={"type": "object", "properties": {
        "x": {"type": "integer", "binaryFormat": "B"},
        "y": {"type": "string", "binaryFormat": "2s", "nullTerminated": True}}},
        good=[{"x": 1, "y": "a"}, {"x": 255, "y": "abc"}, {"y": "", "x": 0}],
        err=[{"x": 256, "y": "a"}], bad=[{"x": 1}, {"x": 1, "y": "a", "z": 0}, [1, "a"]]),
    dict(tag="o2", sub={"type": "object", "properties": {
        "x": {"type": "integer", "binaryFormat": "h", "default": -2},
        "y": {"type": "number", "binaryFormat": "f", "default": 0.1, "index": -1}}},
        good=[{}, {"x": 1}, {"y": 0.5, "x": 7}, {"y": 2}], err=[{"x": 40000}],
        bad=[{"x": "1"}, {"z": 0}, None]),
]
ARRAY_SPECS = ["B", "H", "I", "L", "Q", "default", "len0", "len1", "len2", "exhaust"]
# noLengthEncodingExhaustBuffer together with an explicit arrayLengthFormat: the schema is accepted and the
# documented layout has no length prefix (the exhaust flag decides), so encoder and decoder must both ignore
# the format (seed c12c: the decoder started to read a prefix again).
EXHAUST_FMT_SPECS = {"quick": ["exhaust+B", "exhaust+Q"],
                     "thorough": ["exhaust+B", "exhaust+H", "exhaust+I", "exhaust+L", "exhaust+Q"]}


def _array_sub(item_sub, spec):
    sub = {"type": "array", "items": copy.deepcopy(item_sub)}
    if spec in ("B", "H", "I", "L", "Q"):
        sub["arrayLengthFormat"] = spec
    elif spec.startswith("len"):
        sub["length"] = int(spec[3:])
    elif spec.startswith("exhaust"):
        sub["noLengthEncodingExhaustBuffer"] = True
        if "+" in spec:
            sub["arrayLengthFormat"] = spec.split("+")[1]
    return sub


def fam_array(tier):
    out = []
    for item in _leaves(tier) + OBJ_ITEMS:
        for spec in ARRAY_SPECS + EXHAUST_FMT_SPECS["quick" if tier == "quick" else "thorough"]:
            if spec.startswith("exhaust") and _zero_width(item["sub"]):
                continue  # reading zero-width elements "until the buffer is exhausted" is undefined
            sub = _array_sub(item["sub"], spec)
            dom = _array_dom(item["good"], item["err"], item["bad"], spec)
            for top, dflt in (("object", False), ("union", True)):
                s2 = copy.deepcopy(sub)
                if dflt:
                    n = s2.get("length", 1)
                    s2["default"] = [item["good"][0]] * n
                schema = _struct({"a": s2}, top)
                out.append(_case(schema, _object_values(schema["properties"], {"a": dom}, top)))
    if tier != "quick":
        # 65535 / 65536 elements against a 2-byte length prefix
        sub = _array_sub({"type": "integer", "binaryFormat": "B"}, "H")
        schema = _struct({"a": sub})
        out.append(_case(schema, [{"a": [7] * 65535}, {"a": [7] * 65536}], tables=False))
    return out


INDEXES = [None, 0, 1, -1, 1.5]


def fam_order(tier):
    """3 properties x index assignments; every case is run under all 6 insertion orders."""
    subs = {"a": {"type": "integer", "binaryFormat": "B"},
            "b": {"type": "integer", "binaryFormat": "h"},
            "c": {"type": "string", "binaryFormat": "2s"}}
    vals = [{"a": 1, "b": -2, "c": "xy"}, {"c": "", "b": 258, "a": 255}, {"a": 1, "b": 2}, {}]
    out = []
    for idx in itertools.product(INDEXES, repeat=3):
        props = {}
        for k, i in zip("abc", idx):
            props[k] = copy.deepcopy(subs[k])
            if i is not None:
                props[k]["index"] = i
        out.append(_case(_struct(props), vals, perms=True, place="top"))
    for idx in itertools.product(INDEXES, repeat=2):
        props = {}
        for k, i in zip(("b", "a"), idx):  # inserted in non-alphabetical order
            props[k] = copy.deepcopy(subs[k])
            if i is not None:
                props[k]["index"] = i
        out.append(_case(_struct(props), [{"a": 1, "b": -2}, {"b": 258, "a": 255}, {"a": 1}], perms=True,
                         place="top"))
    if tier != "quick":
        full = list(out)
        for c in full:
            if len(c["schema"]["properties"]) != 3:
                continue
            props = c["schema"]["properties"]
            # same ordering problem one level down, inside an object and inside array items
            s1 = _struct({"o": {"type": "object", "properties": copy.deepcopy(props)},
                          "z": {"type": "integer", "binaryFormat": "B"}})
            out.append(_case(s1, [{"o": v, "z": 9} for v in vals], perms=True, place="o"))
            s2 = _struct({"r": {"type": "array", "arrayLengthFormat": "B",
                                "items": {"type": "object", "properties": copy.deepcopy(props)}}})
            out.append(_case(s2, [{"r": [vals[0], vals[1]]}, {"r": []}, {"r": [vals[2]]}], perms=True,
                             place="r"))
    return out


PAIR_QUICK = ["ib", "iH", "il", "iL", "iq", "iQ", "f", "d", "?", "c", "1s", "3s", "3sz", "0s", "4p", "4pz",
              "2s-latin", "n-", "nx", "n2x"]


def fam_pair(tier):
    lv = _leaves(tier)
    if tier == "quick":
        bt = _leaf_by_tag(tier)
        lv = [bt[t] for t in PAIR_QUICK]
    out = []
    for la in lv:
        for lb in lv:
            schema = _struct({"a": copy.deepcopy(la["sub"]), "b": copy.deepcopy(lb["sub"])})
            doms = {"a": _dom(la), "b": _dom(lb)}
            if tier == "quick":
                doms = {"a": la["good"][:3] + la["err"][:1] + la["bad"][:1],
                        "b": lb["good"][:3] + lb["err"][:1] + lb["bad"][:1]}
            out.append(_case(schema, _object_values(schema["properties"], doms, "object")))
    return out


def fam_defaults(tier):
    out = []
    a0 = {"type": "integer", "binaryFormat": "h"}
    b0 = {"type": "string", "binaryFormat": "3s", "nullTerminated": True}
    for da in (False, True):
        for db in (False, True):
            for req in (None, [], ["a"], ["b"], ["a", "b"], ["b", "a"]):
                for top in ("object", "union"):
                    a = _with(a0, default=-7) if da else copy.deepcopy(a0)
                    b = _with(b0, default="dd") if db else copy.deepcopy(b0)
                    schema = _struct({"a": a, "b": b}, top)
                    if req is not None:
                        schema["required"] = req
                    # docs rule 2: a property without default must be present, i.e. an optional
                    # property (not in required) without default is not a valid struct schema
                    ok = req is None or all(k in req or d for k, d in (("a", da), ("b", db)))
                    doms = {"a": [1, -32768, 40000, "1"], "b": ["q", "abcd", "", 5]}
                    out.append(_case(schema, _object_values(schema["properties"], doms, top),
                                     accept=ok, defect="optional_without_default"))
    return out


NEST_QUICK = ["ib", "iQ", "f", "?", "3sz", "4p"]
NEST_FULL = ["ib", "iH", "iQ", "f", "?", "3sz", "4p", "n2x"]


def _nest_leaves(tier, full=False):
    if tier != "quick" and full:
        return _leaves(tier)
    bt = _leaf_by_tag(tier)
    return [bt[t] for t in (NEST_QUICK if tier == "quick" else NEST_FULL)]


def _g1(leaf):
    return leaf["good"][min(1, len(leaf["good"]) - 1)]


def fam_nested(tier):
    lv = _nest_leaves(tier, full=True)
    sentinel = {"type": "integer", "binaryFormat": "B"}
    out = []

    def small(l):
        return l["good"][:2] + l["err"][:1] + l["bad"][:1]

    for lx in lv:
        for ly in lv:
            # N1 object in object, followed by a sentinel byte
            inner = {"type": "object", "properties": {"x": copy.deepcopy(lx["sub"]),
                                                      "y": copy.deepcopy(ly["sub"])}}
            schema = _struct({"a": inner, "b": sentinel})
            ovals = _object_values(inner["properties"], {"x": small(lx), "y": small(ly)}, "object")
            out.append(_case(schema, [{"a": v, "b": 200} for v in ovals] + [{"a": ovals[0]}, {"b": 1}]))
            # N2 nested defaults, as in the documentation example (phenotype)
            inner = {"type": "object", "default": {}, "properties": {
                "x": _with(lx["sub"], default=lx["default"]),
                "y": _with(ly["sub"], default=ly["default"], index=-1)}}
            schema = _struct({"a": inner, "b": _with(sentinel, default=17)})
            vals = [{}, {"a": {}}, {"b": 3}, {"a": {"x": lx["good"][0]}}, {"a": {"y": _g1(ly)}, "b": 0},
                    {"a": {"x": _g1(lx), "y": ly["good"][0]}, "b": 255}, {"a": {"z": 1}},
                    {"a": {"x": lx["bad"][0]}}, {"a": None}, None]
            for top in ("object", "union"):
                s = copy.deepcopy(schema)
                if top == "union":
                    s["type"] = ["object", "null"]
                out.append(_case(s, vals))
            # N3 array of objects / N5 array inside object
            for spec in ("B", "default", "len2", "exhaust"):
                inner = {"type": "object", "properties": {"x": copy.deepcopy(lx["sub"]),
                                                          "y": _with(ly["sub"], index=-3)}}
                if spec == "exhaust" and _zero_width(inner):
                    continue
                e0 = {"x": lx["good"][0], "y": ly["good"][0]}
                e1 = {"x": _g1(lx), "y": _g1(ly)}
                items_dom = _array_dom([e0, e1], [], [{"x": lx["good"][0]}, dict(e0, q=1)], spec)
                if spec == "exhaust":
                    schema = _struct({"a": sentinel, "r": _array_sub(inner, spec)})
                    vals = [{"a": 5, "r": v} for v in items_dom]
                else:
                    schema = _struct({"r": _array_sub(inner, spec), "z": sentinel})
                    vals = [{"r": v, "z": 5} for v in items_dom]
                out.append(_case(schema, vals))
                if spec == "exhaust" and _zero_width(lx["sub"]):
                    continue
                arr = _array_sub(lx["sub"], spec)
                inner = {"type": "object", "properties": {"x": arr, "y": copy.deepcopy(ly["sub"])}}
                if spec == "exhaust":
                    inner["properties"]["x"]["index"] = 5  # last inside the last object
                    schema = _struct({"a": sentinel, "o": inner})
                    vals = [{"a": 1, "o": {"x": v, "y": ly["good"][0]}}
                            for v in _array_dom(lx["good"], lx["err"], lx["bad"], spec)]
                else:
                    schema = _struct({"o": inner, "z": sentinel})
                    vals = [{"z": 1, "o": {"x": v, "y": ly["good"][0]}}
                            for v in _array_dom(lx["good"], lx["err"], lx["bad"], spec)]
                out.append(_case(schema, vals))
        # N4 array of arrays
        for outer in ("B", "Q", "len1", "len2", "exhaust"):
            for inner in ("B", "H", "len0", "len2", "default"):
                isub = _array_sub(lx["sub"], inner)
                if outer == "exhaust" and (inner.startswith("len") and _zero_width(isub)):
                    continue
                g = lx["good"] if len(lx["good"]) > 1 else lx["good"] * 2
                n = int(inner[3:]) if inner.startswith("len") else None
                if n is None:
                    ig = [[g[0]], [], [g[1], g[0]]]
                    ie, ib = ([[lx["err"][0]]] if lx["err"] else []), [[lx["bad"][0]], "x"]
                else:
                    ig = [[g[0]] * n, [g[1]] * n]
                    ie, ib = [[g[0]] * (n + 1)], [[lx["bad"][0]] * n, "x"]
                schema = _struct({"r": _array_sub(isub, outer)})
                vals = [{"r": v} for v in _array_dom(ig, ie, ib, outer)]
                out.append(_case(schema, vals))
    return out


def fam_triple(tier):
    """Three properties a, b, c (alphabetical layout) from a representative leaf set."""
    lv = _nest_leaves(tier)
    if tier == "quick":
        lv = lv[:2] + lv[4:]
    out = []
    for la in lv:
        for lb in lv:
            for lc in lv:
                # inserted in a non-alphabetical order on purpose
                schema = _struct({"c": copy.deepcopy(lc["sub"]), "a": copy.deepcopy(la["sub"]),
                                  "b": copy.deepcopy(lb["sub"])})
                doms = {k: l["good"][:3] + l["err"][:1] + l["bad"][:1]
                        for k, l in (("c", lc), ("a", la), ("b", lb))}
                out.append(_case(schema, _object_values(schema["properties"], doms, "object")))
    return out


def fam_exhaust(tier):
    lv = _nest_leaves(tier, full=True)
    out = []
    for la in lv:
        for lz in lv:
            if _zero_width(lz["sub"]):
                continue
            for top, spec in (("object", "exhaust"), ("union", "exhaust"), ("object", "exhaust+H")):
                schema = _struct({"a": copy.deepcopy(la["sub"]), "z": _array_sub(lz["sub"], spec)}, top)
                doms = {"a": la["good"][:2] + la["bad"][:1],
                        "z": _array_dom(lz["good"], lz["err"], lz["bad"], "exhaust")}
                out.append(_case(schema, _object_values(schema["properties"], doms, top)))
    return out


NAMES = ["properties", "type", "required", "null", "default", "index", "items", "binaryFormat", "codec",
         "additionalProperties", "length", "é x", "0"]


def fam_names(tier):
    """Property names that collide with schema keywords (a property literally called `properties`
    makes the constructor die with AttributeError: the 'for every accepted schema' clauses are then
    vacuous; counted as names_schema_not_constructible, not judged)."""
    out = []
    leafs = [({"type": "integer", "binaryFormat": "h"}, [1, -2, 40000, "1"]),
             ({"type": "null", "binaryFormat": "2x"}, [None, 0]),
             ({"type": "object", "properties": {"x": {"type": "integer", "binaryFormat": "B"}}},
              [{"x": 1}, {"x": 255}, {}, {"x": 1, "y": 2}])]
    for nm in NAMES:
        for sub, dom in leafs:
            for top in ("object", "union"):
                props = {nm: copy.deepcopy(sub), "zz9": {"type": "integer", "binaryFormat": "B", "default": 3}}
                schema = _struct(props, top)
                vals = _object_values(props, {nm: dom, "zz9": [7, 256]}, top)
                out.append(_case(schema, vals, names=True))
            # the same name one level down
            inner = {"type": "object", "properties": {nm: copy.deepcopy(sub)}}
            schema = _struct({"o": inner})
            out.append(_case(schema, [{"o": {nm: d}} for d in dom] + [{"o": {}}], names=True))
    return out


# =========================================================================== json families
JSON_TYPES = {
    "i": ({"type": "integer"}, [3, -1, 10 ** 20], ["3", 1.5, None, True], 42),
    "s": ({"type": "string"}, ["", "xé\x00"], [3, None, ["a"]], "dflt"),
    "r": ({"type": "array", "items": {"type": "integer"}}, [[], [1, 2]], [[1, "2"], "12", {"0": 1}, None], [9]),
    "o": ({"type": "object", "properties": {"x": {"type": "integer"}}, "required": ["x"]},
          [{"x": 1}, {"x": 2, "w": [None]}], [{}, {"x": "1"}, [1], None], {"x": 0}),
    "n": ({"type": "number"}, [0.5, 2, float("nan"), float("inf")], ["0.5", None, False], 1.5),
    "b": ({"type": "boolean"}, [True, False], [0, "true", None], False),
    "z": ({"type": "null"}, [None], [0, False, ""], None),
}


def fam_json(tier):
    out = []
    names = list(JSON_TYPES)
    combos = [(n,) for n in names]
    combos += list(itertools.combinations(names, 2)) if tier != "quick" else \
        [("i", "s"), ("r", "o"), ("n", "z"), ("b", "i"), ("s", "o")]
    for combo in combos:
        for dflt in (False, True):
            for req in (None, [combo[0]], list(combo)):
                for addl in (None, True, False):
                    for top in (None, "object", ["object", "null"]):
                        props = {}
                        doms = {}
                        for j, n in enumerate(combo):
                            sub, good, bad, d = JSON_TYPES[n]
                            props[n] = copy.deepcopy(sub)
                            if dflt and j == len(combo) - 1:
                                props[n]["default"] = d
                            doms[n] = good + bad
                        schema = {"codec": "json", "properties": props}
                        if req is not None:
                            schema["required"] = req
                        if addl is not None:
                            schema["additionalProperties"] = addl
                        if top is not None:
                            schema["type"] = top
                        vals = _object_values(props, doms, "object")
                        vals += [{"zz": {"deep": [1, {"k": None}]}}, {"a": {1, 2}}, {"a": b"x"}]
                        out.append(_case(schema, vals, kind="json"))
    return out


def fam_jsonbare(tier):
    """json schemas WITHOUT a `properties` member that still constrain the value."""
    out = []
    cons = [{}, {"type": "object"}, {"type": ["object", "null"]}, {"required": ["a"]},
            {"additionalProperties": False}, {"type": "object", "required": ["a", "b"]},
            {"type": "object", "additionalProperties": False, "required": []},
            {"properties": {}}, {"properties": {}, "additionalProperties": False},
            {"properties": {}, "required": ["a"]}]
    vals = [{}, {"a": 1}, {"a": 1, "b": [2]}, {"b": None}, None, [1, 2], "s", 5, True,
            {"a": {1}}, {"a": b"x"}]
    for c in cons:
        schema = {"codec": "json"}
        schema.update(copy.deepcopy(c))
        out.append(_case(schema, vals, kind="json"))
    return out


# =========================================================================== meta-schema defects
def _set(path_key, value):
    def f(sub):
        sub[path_key] = value
    return f


def _del(path_key):
    def f(sub):
        sub.pop(path_key, None)
    return f


def _multi(*fs):
    def f(sub):
        for g in fs:
            g(sub)
    return f


# (name, which sub-schema it applies to, edit)
PROP_DEFECTS = [
    ("int_missing_binaryFormat", "int", _del("binaryFormat")),
    ("str_missing_binaryFormat", "str", _del("binaryFormat")),
    ("bool_missing_binaryFormat", "bool", _del("binaryFormat")),
    ("bad_format_char", "int", _set("binaryFormat", "z")),
    ("format_count_on_number", "int", _set("binaryFormat", "3i")),
    ("format_with_endianness", "int", _set("binaryFormat", "<i")),
    ("format_two_chars", "int", _set("binaryFormat", "ii")),
    ("format_empty", "int", _set("binaryFormat", "")),
    ("format_not_string", "int", _set("binaryFormat", 5)),
    ("format_trailing_newline_junk", "str", _set("binaryFormat", "3s;")),
    ("union_type", "int", _set("type", ["integer", "string"])),
    ("union_with_null", "int", _set("type", ["integer", "null"])),
    ("unknown_type", "int", _set("type", "integerr")),
    ("index_not_number", "int", _set("index", "1")),
    ("index_null", "int", _set("index", None)),
    ("nullTerminated_not_bool", "str", _set("nullTerminated", "yes")),
    ("stringEncoding_not_string", "str", _set("stringEncoding", 8)),
    ("null_with_nonpad_format", "null", _set("binaryFormat", "i")),
    ("null_with_string_format", "null", _set("binaryFormat", "2s")),
    ("heterogeneous_items", "arr", _set("items", [{"type": "integer", "binaryFormat": "i"},
                                                  {"type": "string", "binaryFormat": "2s"}])),
    ("items_not_schema", "arr", _set("items", 5)),
    ("length_and_exhaust", "arr", _multi(_set("length", 2), _set("noLengthEncodingExhaustBuffer", True))),
    ("length_and_arrayLengthFormat", "arr", _multi(_set("length", 2), _set("arrayLengthFormat", "B"))),
    ("length0_and_exhaust", "arr", _multi(_set("length", 0), _set("noLengthEncodingExhaustBuffer", True))),
    ("length0_and_arrayLengthFormat", "arr", _multi(_set("length", 0), _set("arrayLengthFormat", "B"))),
    ("length1_and_exhaust", "arr", _multi(_set("length", 1), _set("noLengthEncodingExhaustBuffer", True))),
    ("negative_length", "arr", _set("length", -1)),
    ("fractional_length", "arr", _set("length", 1.5)),
    ("string_length", "arr", _set("length", "2")),
    ("signed_arrayLengthFormat", "arr", _set("arrayLengthFormat", "b")),
    ("bad_arrayLengthFormat", "arr", _set("arrayLengthFormat", "x")),
    ("two_char_arrayLengthFormat", "arr", _set("arrayLengthFormat", "BB")),
    ("arrayLengthFormat_not_string", "arr", _set("arrayLengthFormat", 1)),
    ("exhaust_not_bool", "arr", _set("noLengthEncodingExhaustBuffer", "true")),
    ("nested_union_object_null", "obj", _set("type", ["object", "null"])),
    ("optional_without_default", "obj", _set("required", [])),
    ("required_not_list", "obj", _set("required", "x")),
    ("required_duplicates", "obj", _set("required", ["x", "x"])),
    ("properties_not_object", "obj", _set("properties", [1])),
    ("property_schema_not_object", "obj", _set("properties", {"x": 5})),
    ("additionalProperties_not_schema", "obj", _set("additionalProperties", 5)),
    ("minimum_not_number", "int", _set("minimum", "a")),
    ("maxLength_negative", "str", _set("maxLength", -1)),
    ("enum_not_list", "int", _set("enum", 3)),
    ("pattern_not_string", "str", _set("pattern", 7)),
]
TARGETS = {
    "int": {"type": "integer", "binaryFormat": "i"},
    "str": {"type": "string", "binaryFormat": "3s"},
    "bool": {"type": "boolean", "binaryFormat": "?"},
    "null": {"type": "null", "binaryFormat": "2x"},
    "arr": {"type": "array", "items": {"type": "integer", "binaryFormat": "h"}},
    "obj": {"type": "object", "properties": {"x": {"type": "number", "binaryFormat": "d"}}},
}
CONTEXTS = ["prop", "prop.after_pad", "prop.before_pad", "obj.prop", "arr.items", "arr.items.prop", "arr.items.items"]


def _in_context(ctx, sub):
    other = {"type": "integer", "binaryFormat": "B"}
    if ctx == "prop":
        return _struct({"k": sub, "m": other})
    # the same property with a (valid) padding field sorting before / after it in the struct field order
    if ctx == "prop.after_pad":
        return _struct({"a0": {"type": "null", "binaryFormat": "1x"}, "k": sub, "m": other})
    if ctx == "prop.before_pad":
        return _struct({"k": sub, "m": other, "z9": {"type": "null", "binaryFormat": "2x"}})
    if ctx == "obj.prop":
        return _struct({"o": {"type": "object", "properties": {"k": sub, "m": other}}})
    if ctx == "arr.items":
        return _struct({"r": {"type": "array", "items": sub}})
    if ctx == "arr.items.prop":
        return _struct({"r": {"type": "array", "items": {"type": "object", "properties": {"k": sub}}}})
    if ctx == "arr.items.items":
        return _struct({"r": {"type": "array", "items": {"type": "array", "arrayLengthFormat": "B",
                                                          "items": sub}}})
    raise ValueError(ctx)


TOP_DEFECTS = [
    ("missing_codec", lambda s: s.pop("codec")),
    ("codec_not_string", lambda s: s.__setitem__("codec", 5)),
    ("codec_null", lambda s: s.__setitem__("codec", None)),
    ("unknown_codec", lambda s: s.__setitem__("codec", "xml")),
    ("codec_wrong_case", lambda s: s.__setitem__("codec", "JSON")),
    ("top_type_array", lambda s: s.__setitem__("type", "array")),
    ("top_type_string", lambda s: s.__setitem__("type", "string")),
    ("top_type_null", lambda s: s.__setitem__("type", "null")),
    ("top_type_union_object_string", lambda s: s.__setitem__("type", ["object", "string"])),
    ("top_type_union_three", lambda s: s.__setitem__("type", ["object", "null", "array"])),
    ("top_type_list_object", lambda s: s.__setitem__("type", ["object"])),
    ("top_properties_not_object", lambda s: s.__setitem__("properties", ["a"])),
    ("top_required_not_list", lambda s: s.__setitem__("required", "a")),
    ("top_property_schema_number", lambda s: s.__setitem__("properties", {"a": 7})),
    ("top_additionalProperties_string", lambda s: s.__setitem__("additionalProperties", "no")),
    ("top_description_not_string", lambda s: s.__setitem__("description", 3)),
]
JSON_ONLY_DEFECTS = [
    ("json_nested_default", lambda s: s.__setitem__("properties", {
        "a": {"type": "object", "properties": {"x": {"type": "integer", "default": 1}}}})),
    ("json_property_type_unknown", lambda s: s.__setitem__("properties", {"a": {"type": "int"}})),
    ("json_items_not_schema", lambda s: s.__setitem__("properties", {"a": {"type": "array", "items": 3}})),
    ("json_minimum_not_number", lambda s: s.__setitem__("properties", {"a": {"type": "integer",
                                                                             "minimum": "0"}})),
    ("json_required_duplicates", lambda s: s.__setitem__("required", ["a", "a"])),
]


def fam_meta(tier):
    out = []
    for name, target, edit in PROP_DEFECTS:
        for ctx in CONTEXTS:
            base_sub = copy.deepcopy(TARGETS[target])
            bad_sub = copy.deepcopy(TARGETS[target])
            edit(bad_sub)
            out.append(dict(kind="meta", defect=name, ctx=ctx, target=target,
                            base=_in_context(ctx, base_sub), schema=_in_context(ctx, bad_sub)))
    for codec in ("json", "struct"):
        for name, edit in TOP_DEFECTS:
            if codec == "struct":
                base = _struct({"a": {"type": "integer", "binaryFormat": "i"}})
            else:
                base = {"codec": "json", "type": "object", "properties": {"a": {"type": "integer"}}}
            bad = copy.deepcopy(base)
            edit(bad)
            out.append(dict(kind="meta", defect=name, ctx=codec, base=base, schema=bad))
    for name, edit in JSON_ONLY_DEFECTS:
        base = {"codec": "json", "type": "object", "properties": {"a": {"type": "integer"}}}
        bad = copy.deepcopy(base)
        edit(bad)
        out.append(dict(kind="meta", defect=name, ctx="json", base=base, schema=bad))
    return out


FAMILIES = {
    "leaf": fam_leaf, "array": fam_array, "order": fam_order, "pair": fam_pair,
    "defaults": fam_defaults, "triple": fam_triple, "nested": fam_nested, "exhaust": fam_exhaust, "names": fam_names,
    "json": fam_json, "jsonbare": fam_jsonbare, "meta": fam_meta,
}
# cases per shard (tuned so that shards cost roughly the same)
CHUNK = {
    "quick": {"leaf": 4, "array": 6, "order": 6, "pair": 6, "defaults": 6, "triple": 8, "nested": 8,
              "exhaust": 4, "names": 8, "json": 12, "jsonbare": 5, "meta": 40},
    "thorough": {"leaf": 4, "array": 6, "order": 8, "pair": 8, "defaults": 6, "triple": 10, "nested": 24,
                 "exhaust": 6, "names": 8, "json": 16, "jsonbare": 5, "meta": 40},
}
_cache = {}


def family(name, tier):
    key = (name, tier)
    if key not in _cache:
        _cache[key] = FAMILIES[name](tier)
    return _cache[key]


def shards(tier, seed):
    specs = []
    for name in FAMILIES:
        n = len(family(name, tier))
        c = CHUNK[tier][name]
        for lo in range(0, n, c):
            specs.append(dict(fam=name, lo=lo, hi=min(n, lo + c), tier=tier))
    return specs


# =========================================================================== execution helpers
class HarnessError(Exception):
    pass


def _call(f, *a, **kw):
    """-> ("ok", result) | ("raise", exception)"""
    try:
        return "ok", f(*a, **kw)
    except Exception as e:  # noqa
        return "raise", e


def _plain(x):
    """Strict-JSON-safe copy (non-finite floats and other odd objects become strings)."""
    if isinstance(x, dict):
        return {str(k): _plain(v) for k, v in x.items()}
    if isinstance(x, (list, tuple)):
        return [_plain(v) for v in x]
    if isinstance(x, float) and (x != x or x in (float("inf"), float("-inf"))):
        return repr(x)
    if x is None or isinstance(x, (bool, int, float, str)):
        return x
    return repr(x)


def _short(x, n=300):
    s = repr(x)
    return s if len(s) <= n else s[:n] + "..."


def _permuted_schemas(schema, place):
    """The same schema with the property dict at `place` inserted in every order."""
    def get_props(s):
        if place == "top":
            return s["properties"]
        if place == "o":
            return s["properties"]["o"]["properties"]
        return s["properties"]["r"]["items"]["properties"]

    def set_props(s, p):
        if place == "top":
            s["properties"] = p
        elif place == "o":
            s["properties"]["o"]["properties"] = p
        else:
            s["properties"]["r"]["items"]["properties"] = p

    base = get_props(schema)
    out = []
    for perm in itertools.permutations(list(base)):
        s = copy.deepcopy(schema)
        set_props(s, {k: copy.deepcopy(base[k]) for k in perm})
        out.append(s)
    return out


class _Raised:
    """Stand-in for a value that could not be read because the implementation raised."""

    def __init__(self, e):
        self.e = e

    def __repr__(self):
        return f"<raised {self.e!r}>"


def _md(obj):
    """obj.metadata, or a _Raised marker (never equal to an expected value)."""
    try:
        return obj.metadata
    except Exception as e:  # noqa
        return _Raised(e)


class Ctx:
    def __init__(self, acc, case_id, schema):
        self.acc = acc
        self.case = case_id
        self.schema = schema
        # key suffix for validation failures on json schemas that have no `properties`
        self.sfx = ""
        if isinstance(schema, dict) and schema.get("codec") == "json" and not schema.get("properties"):
            self.sfx = ":schema_without_properties"

    def fail(self, key, what):
        self.acc.fail(key, f"{what} | schema={_short(self.schema, 700)}", self.case)


def _outcome(kind, schema, v):
    try:
        if kind == "struct":
            return R.struct_outcome(schema, v)
        return R.json_outcome(schema, v)
    except R.DontCare as e:
        return ("dontcare", str(e))
    except (KeyError, TypeError, AttributeError, ValueError, IndexError) as e:
        # value shape outside the model (e.g. unhashable / odd nesting): not judged
        return ("dontcare", f"model: {e!r}")


def _is_zero_width_union(schema, out):
    return (R.is_union_top(schema) and out[0] == "ok" and out[2] is not None
            and out[1] is not None and b"" in out[1])


# =========================================================================== the check of one case
def check_case(case, acc, case_id):
    import tskit

    kind = case["kind"]
    if kind == "meta":
        return check_meta(case, acc, case_id)
    schema = case["schema"]
    cx = Ctx(acc, case_id, schema)
    MS = tskit.MetadataSchema
    MSVE = tskit.MetadataSchemaValidationError
    MVE = tskit.MetadataValidationError
    nprops = len(schema.get("properties", {}))

    # ---- construction
    st, ms0 = _call(MS, copy.deepcopy(schema))
    expect_accept = case.get("accept", True)
    if not expect_accept:
        acc.ev(1, True)
        if st == "ok":
            cx.fail(f"meta:accepted:{case.get('defect', 'invalid')}",
                    "schema violating the documented struct rules was accepted")
        elif not isinstance(ms0, MSVE):
            acc.count("meta_rejected_with_other_exception")
        acc.count("schemas_rejected_as_expected")
        return
    if st != "ok":
        if case.get("names"):
            # keyword-named properties ("properties": AttributeError, "type": spurious
            # MetadataSchemaValidationError): a rejected schema makes the claims vacuous
            acc.ev(1, False)
            acc.count("names_schema_not_constructible")
            return
        acc.ev(1, True)
        cx.fail(f"construct:{kind}:valid_schema_rejected", f"constructor raised {ms0!r}")
        return
    acc.count("schemas_accepted")
    text = repr(ms0)
    if not R.same(ms0.schema, schema) or not R.same(ms0.asdict(), schema):
        cx.fail("schema:asdict_differs", f".schema/.asdict() returned {_short(ms0.schema)}")
    instances = [("dict", ms0)]
    st, ms1 = _call(lambda: MS(json.loads(text)))
    if st != "ok":
        cx.fail("roundtrip:json_loads_repr_rejected", f"MetadataSchema(json.loads(repr)) raised {ms1!r}")
    else:
        instances.append(("loads", ms1))
    st, ms2 = _call(tskit.metadata.parse_metadata_schema, text)
    if st != "ok":
        cx.fail("roundtrip:parse_repr_rejected", f"parse_metadata_schema(repr) raised {ms2!r}")
    else:
        instances.append(("parse", ms2))
    st, ms3 = _call(lambda: MS(ms0.asdict()))
    if st == "ok":
        instances.append(("asdict", ms3))
    else:
        cx.fail("roundtrip:asdict_rejected", f"MetadataSchema(ms.asdict()) raised {ms3!r}")
    if case.get("perms"):
        for j, s in enumerate(_permuted_schemas(schema, case["place"])):
            st, m = _call(MS, s)
            if st != "ok":
                cx.fail("construct:permuted_rejected", f"insertion order {list(s['properties'])} raised {m!r}")
            else:
                instances.append((f"perm{j}", m))
    for name, m in instances[1:]:
        if name.startswith("perm"):
            continue  # a different dict: only its behaviour has to be the same
        if repr(m) != text:
            cx.fail("roundtrip:repr_differs", f"{name}: repr {repr(m)!r} != {text!r}")
        if not (m == ms0):
            cx.fail("roundtrip:eq_false", f"{name}: schema != original")

    # ---- values
    oks, rejects, errors = [], [], []
    for vi, v in enumerate(case["values"]):
        out = _outcome(kind, schema, v)
        if out[0] == "dontcare":
            acc.ev(1, False)
            acc.count("dontcare_values")
            # still must not crash / hang and the instances must agree with each other
            _call(ms0.validate_and_encode_row, v)
            continue
        if _is_zero_width_union(schema, out):
            acc.ev(1, False)
            acc.count("zero_width_union_rows")
            continue
        acc.ev(1, True)
        acc.count("values_" + out[0])
        first = None
        for name, m in instances:
            st, got = _call(m.validate_and_encode_row, v)
            if out[0] == "reject":
                if st == "ok":
                    cx.fail(f"validate:{kind}:invalid_accepted{cx.sfx}",
                            f"[{name}] non-conforming value {_short(v)} was encoded as {got!r}")
                elif not isinstance(got, MVE):
                    cx.fail(f"validate:{kind}:wrong_exception{cx.sfx}",
                            f"[{name}] non-conforming value {_short(v)} raised {got!r}, "
                            "expected MetadataValidationError")
                continue
            if out[0] == "error":
                if st == "ok":
                    cx.fail(f"encode:{kind}:unencodable_accepted",
                            f"[{name}] value {_short(v)} cannot be represented but was encoded as {got!r}")
                elif kind == "json" and not isinstance(got, tskit.MetadataEncodingError):
                    cx.fail("encode:json:wrong_exception", f"[{name}] {_short(v)} raised {got!r}, "
                            "expected MetadataEncodingError")
                continue
            # ok
            if st != "ok":
                cx.fail(f"validate:{kind}:valid_rejected",
                        f"[{name}] conforming value {_short(v)} raised {got!r}")
                continue
            if not isinstance(got, bytes):
                cx.fail(f"encode:{kind}:not_bytes", f"[{name}] encoded {_short(v)} to {type(got)}")
                continue
            if kind == "struct":
                if got not in out[1]:
                    cx.fail("encode:struct:layout", f"[{name}] {_short(v)} encoded as {got!r}, expected "
                            f"{sorted(out[1])[:3]!r}")
            else:
                st2, back = _call(lambda: json.loads(got.decode()))
                if st2 != "ok" or not R.same(back, json.loads(json.dumps(v))):
                    cx.fail("encode:json:not_the_value", f"[{name}] {_short(v)} encoded as {got!r}")
            if first is None:
                first = got
            elif got != first:
                cx.fail(f"roundtrip:{kind}:encoding_differs",
                        f"[{name}] {_short(v)} encoded as {got!r} but the original schema object gave {first!r}")
            st2, got2 = _call(m.encode_row, v)
            if st2 != "ok" or got2 != got:
                cx.fail(f"encode:{kind}:encode_row_differs", f"[{name}] encode_row({_short(v)}) -> {got2!r}")
            st3, dec = _call(m.decode_row, got)
            if st3 != "ok":
                cx.fail(f"decode:{kind}:raised", f"[{name}] decode_row({got!r}) raised {dec!r}")
            elif not R.same(dec, out[2]):
                cx.fail(f"decode:{kind}:value", f"[{name}] decode(encode({_short(v)})) = {_short(dec)}, "
                        f"expected {_short(out[2])} (bytes {got!r})")
        if out[0] == "ok" and first is not None:
            oks.append((v, first, out[2]))
        elif out[0] == "reject":
            rejects.append(v)
        elif out[0] == "error":
            errors.append(v)

    # json: empty bytes are an empty object (+ defaults)
    if kind == "json":
        exp = R.json_fill(schema, {})
        for name, m in instances:
            st, dec = _call(m.decode_row, b"")
            if st != "ok" or not R.same(dec, exp):
                cx.fail("decode:json:empty_bytes", f"[{name}] decode_row(b'') -> {_short(dec)}, expected {exp!r}")

    # ---- numpy structured view
    if kind == "struct":
        try:
            check_numpy(cx, schema, instances, oks)
        except Exception as e:  # noqa
            cx.fail("numpy:unexpected_exception", f"{e!r}")

    # ---- tables / tree sequence
    if case.get("tables", True):
        try:
            check_tables(cx, kind, schema, ms0, oks, rejects, errors)
            check_cross(cx, kind, schema, ms0, oks)
        except HarnessError:
            raise
        except Exception as e:  # noqa
            import traceback

            cx.fail("table:unexpected_exception", f"{e!r} at {traceback.format_exc()[-600:]}")
    acc.sample({"schema": _plain(schema), "values": len(case["values"]),
                "ok": len(oks), "rejected": len(rejects), "unencodable": len(errors)})


def _np_expect(schema):
    """-> (supported, [np.dtype candidates], row size)"""
    import numpy as np

    try:
        sup = R.numpy_supported(schema)
        if sup is not True:
            return sup, None, None
        size = R.fixed_size(schema)
        cands = [np.dtype(spec) for spec in R.numpy_dtype_specs(schema)]
        return True, cands, size
    except (R.DontCare, ValueError, TypeError):
        # not covered by the docs, or the documented layout is not expressible in numpy
        # (zero-width element inside a sub-array)
        return None, None, None


def check_numpy(cx, schema, instances, oks):
    acc = cx.acc
    sup, cands, size = _np_expect(schema)
    if sup is None:
        acc.count("numpy_dontcare_schemas")
        return
    rows = [(enc, dec) for _, enc, dec in oks if dec is not None][:6]
    buf = b"".join(e for e, _ in rows)
    for name, m in instances[:3]:
        if sup is False:
            st, got = _call(m.structured_array_from_buffer, buf)
            if st == "ok":
                cx.fail("numpy:unsupported_schema_gave_array",
                        f"[{name}] schema outside the documented requirements returned dtype {got.dtype}")
            acc.count("numpy_unsupported_refused")
            continue
        st, dt = _call(m.numpy_dtype)
        if st != "ok":
            cx.fail("numpy:dtype_raised", f"[{name}] numpy_dtype() raised {dt!r} on a schema meeting the "
                    "documented requirements")
            continue
        if not any(dt == c for c in cands):
            cx.fail("numpy:dtype", f"[{name}] numpy_dtype() = {dt}, expected {cands[0]}")
            continue
        if dt.itemsize != size:
            cx.fail("numpy:itemsize", f"[{name}] itemsize {dt.itemsize}, rows have {size} bytes")
            continue
        if size == 0 or not rows:
            acc.count("numpy_zero_size_or_no_rows")
            continue
        st, arr = _call(m.structured_array_from_buffer, buf)
        if st != "ok":
            cx.fail("numpy:from_buffer_raised", f"[{name}] structured_array_from_buffer raised {arr!r}")
            continue
        if len(arr) != len(rows):
            cx.fail("numpy:num_rows", f"[{name}] {len(arr)} elements for {len(rows)} rows")
            continue
        for i, (enc, dec) in enumerate(rows):
            st, ok = _call(R.numpy_value_ok, schema, arr[i], dec)
            if st != "ok" or not ok:
                cx.fail("numpy:value", f"[{name}] row {i}: array element {arr[i]!r} vs decoded {_short(dec)}")
                break
        acc.count("numpy_rows_compared", len(rows))


TABLES = ["individuals", "nodes", "edges", "migrations", "sites", "mutations", "populations"]


def _add(tc, name, i, md, L):
    t = getattr(tc, name)
    if name == "individuals":
        return t.add_row(flags=0, metadata=md)
    if name == "nodes":
        return t.add_row(flags=1, time=float(i), metadata=md)
    if name == "edges":
        return t.add_row(0.0, L, i + 1, i, metadata=md)
    if name == "migrations":
        return t.add_row(0.0, L, 0, 0, 1, float(i) + 0.5, metadata=md)
    if name == "sites":
        return t.add_row(float(i), "A", metadata=md)
    if name == "mutations":
        return t.add_row(site=i, node=0, derived_state="T", metadata=md)
    return t.add_row(metadata=md)


def _snapshot(t):
    return (t.num_rows, t.metadata.tobytes(), t.metadata_offset.tobytes())


def _pick_oks(kind, schema, oks, n):
    """The first conforming values, always including None when None is a value of the schema."""
    union = R.is_union_top(schema)
    cand = [t for t in oks if not (t[0] is None and not union)]
    if kind == "json":
        cand = [t for t in cand if isinstance(t[0], dict) or t[0] is None]
    nones = [t for t in cand if t[0] is None][:1]
    return [t for t in cand if t[0] is not None][: n - len(nones)] + nones


def _pick_rejects(schema, rejects):
    """One non-conforming value of each class: wrong type inside, missing key, extra key, not an object."""
    props = set(schema.get("properties", {}))
    seen = {}
    for v in rejects:
        if not isinstance(v, dict):
            cls = "nondict"
        elif set(v) - props:
            cls = "extra"
        elif props - set(v):
            cls = "missing"
        else:
            cls = "type"
        seen.setdefault(cls, v)
    return list(seen.values())


def check_tables(cx, kind, schema, ms, oks, rejects, errors):
    import numpy as np
    import tskit

    acc = cx.acc
    MVE = tskit.MetadataValidationError
    # at table level None means "the schema's empty value"
    oks = _pick_oks(kind, schema, oks, 5)
    rejects = _pick_rejects(schema, [v for v in rejects if v is not None or R.is_union_top(schema)])
    errors = errors[:2]
    k = len(oks)
    L = float(k + 2)
    tc = tskit.TableCollection(L)
    for name in TABLES:
        getattr(tc, name).metadata_schema = ms
    expect = {}
    for ti, name in enumerate(TABLES):
        t = getattr(tc, name)
        if repr(t.metadata_schema) != repr(ms):
            cx.fail("table:schema_not_stored", f"{name}.metadata_schema reads back {t.metadata_schema!r}")
        rows = list(oks)
        if name == "nodes" and k:
            rows = rows + [oks[0]]
        if name == "populations" and k:
            while len(rows) < 2:
                rows = rows + [oks[0]]
        for i, (v, enc, dec) in enumerate(rows):
            st, rid = _call(_add, tc, name, i, copy.deepcopy(v), L)
            if st != "ok":
                cx.fail(f"table:add_row_valid_rejected:{name}", f"add_row(metadata={_short(v)}) raised {rid!r}")
                return
            if rid != i:
                cx.fail(f"table:add_row_id:{name}", f"add_row returned {rid} for row {i}")
        expect[name] = rows
        snap = _snapshot(t)
        exp_bytes = b"".join(e for _, e, _ in rows)
        if snap[1] != exp_bytes:
            cx.fail(f"table:column_bytes:{name}", f"metadata column {snap[1]!r} expected {exp_bytes!r}")
        offs = np.cumsum([0] + [len(e) for _, e, _ in rows]).astype(t.metadata_offset.dtype)
        if t.metadata_offset.tolist() != offs.tolist():
            cx.fail(f"table:column_offsets:{name}", f"{t.metadata_offset.tolist()} expected {offs.tolist()}")
        for v in rejects:
            st, e = _call(_add, tc, name, len(rows), copy.deepcopy(v), L)
            if st == "ok":
                cx.fail(f"table:invalid_accepted{cx.sfx}", f"{name}.add_row(metadata={_short(v)}) was accepted")
                t.truncate(len(rows))
            elif not isinstance(e, MVE):
                cx.fail(f"table:wrong_exception{cx.sfx}", f"{name}.add_row(metadata={_short(v)}) raised {e!r}")
            if _snapshot(t) != snap:
                cx.fail(f"table:changed_by_rejected_row:{name}", f"table changed after rejected {_short(v)}")
                t.truncate(len(rows))
        for v in errors:
            st, e = _call(_add, tc, name, len(rows), copy.deepcopy(v), L)
            if st == "ok":
                cx.fail(f"table:unencodable_accepted:{name}", f"add_row(metadata={_short(v)}) was accepted")
                t.truncate(len(rows))
            if _snapshot(t) != snap:
                cx.fail(f"table:changed_by_failed_row:{name}", f"table changed after failing {_short(v)}")
                t.truncate(len(rows))
        # add_row(metadata=None): documented as "the default metadata value for the table's schema"
        eff = None if R.is_union_top(schema) else {}
        out = _outcome(kind, schema, eff)
        if out[0] != "dontcare" and not _is_zero_width_union(schema, out):
            st, e = _call(_add, tc, name, len(rows), None, L)
            if out[0] == "ok":
                if st != "ok":
                    cx.fail(f"table:add_row_none:{name}", f"add_row(metadata=None) raised {e!r}")
                else:
                    got = _md(t[len(rows)])
                    added = t.metadata.tobytes()[len(exp_bytes):]
                    if not R.same(got, out[2]) or (out[1] is not None and added not in out[1]):
                        cx.fail(f"table:add_row_none:{name}", f"add_row(metadata=None) stored {added!r} read back "
                                f"{_short(got)}, expected {_short(out[2])}")
            elif st == "ok":
                cx.fail(f"table:add_row_none_accepted{cx.sfx}", f"{name}.add_row(metadata=None) accepted although "
                        f"{eff!r} does not conform")
            elif out[0] == "reject" and not isinstance(e, MVE):
                cx.fail(f"table:add_row_none_wrong_exception{cx.sfx}", f"{name}.add_row(metadata=None) raised {e!r}")
            t.truncate(len(rows))
            if _snapshot(t) != snap:
                cx.fail(f"table:truncate:{name}", "table differs after add_row + truncate")
        acc.count("table_rows_added", len(rows))
        acc.count("table_rows_refused", len(rejects) + len(errors))
        for i, (v, enc, dec) in enumerate(rows):
            row = t[i]
            m1 = _md(row)
            m2 = _md(row)  # cached second access
            if not R.same(m1, dec) or not R.same(m2, dec):
                cx.fail(f"table:row_metadata:{name}", f"row {i} metadata {_short(m1)} / {_short(m2)} "
                        f"expected {_short(dec)}")
                break
        # alternative insertion paths on one table per schema (rotating), then restore
        if rows and ti == (len(repr(ms)) % len(TABLES)):
            r0 = t[0]
            st, rid = _call(t.append, r0)
            if st != "ok" or not R.same(_md(t[len(rows)]), rows[0][2]):
                cx.fail("table:append", f"{name}.append(row) -> {rid!r}")
            t.truncate(len(rows))
            j = len(rows) - 1
            st, e = _call(t.__setitem__, j, t[j].replace(metadata=copy.deepcopy(rows[0][0])))
            if st != "ok" or not R.same(_md(t[j]), rows[0][2]):
                cx.fail("table:setitem", f"{name}[{j}] = row.replace(metadata=...) -> {e!r}")
            for v in rejects[:1]:
                before = _snapshot(t)
                st, e = _call(lambda: t.__setitem__(j, t[j].replace(metadata=copy.deepcopy(v))))
                if st == "ok" or not isinstance(e, MVE):
                    cx.fail(f"table:setitem_invalid_accepted{cx.sfx}", f"{name}[{j}] with {_short(v)} -> {e!r}")
                if _snapshot(t) != before:
                    cx.fail(f"table:setitem_changed_table{cx.sfx}", f"{name}[{j}] changed by rejected assignment")
            t[j] = t[j].replace(metadata=copy.deepcopy(rows[j][0]))
            st, e = _call(t.packset_metadata, [e for _, e, _ in rows])
            if st != "ok" or _snapshot(t) != snap:
                cx.fail("table:packset_metadata", f"{name}.packset_metadata(encoded rows) -> {e!r}")
            # metadata_vector on scalar top-level keys
            if all(isinstance(d, dict) for _, _, d in rows):
                for key, sub in schema.get("properties", {}).items():
                    if sub.get("type") not in ("integer", "number", "boolean"):
                        continue
                    if not all(key in d for _, _, d in rows):
                        continue
                    want = [d[key] for _, _, d in rows]
                    if any(isinstance(w, int) and not isinstance(w, bool) and abs(w) >= 2 ** 63 for w in want):
                        continue
                    st, vec = _call(t.metadata_vector, key)
                    if st != "ok" or not R.same([x for x in vec.tolist()], want):
                        cx.fail("table:metadata_vector", f"{name}.metadata_vector({key!r}) -> {_short(vec)} "
                                f"expected {_short(want)}")
    # ---- top-level and reference-sequence metadata
    for holder_name in ("tables", "reference_sequence"):
        holder = tc if holder_name == "tables" else tc.reference_sequence
        holder.metadata_schema = ms
        if repr(holder.metadata_schema) != repr(ms):
            cx.fail("provider:schema_not_stored", f"{holder_name}.metadata_schema reads back differently")
        for v, enc, dec in oks[:2]:
            st, e = _call(setattr, holder, "metadata", copy.deepcopy(v))
            if st != "ok":
                cx.fail(f"provider:valid_rejected:{holder_name}", f"metadata = {_short(v)} raised {e!r}")
                continue
            if holder.metadata_bytes != enc or not R.same(_md(holder), dec):
                cx.fail(f"provider:metadata:{holder_name}", f"metadata reads {_short(_md(holder))} "
                        f"expected {_short(dec)}")
            for bad in rejects[:2]:
                st, e = _call(setattr, holder, "metadata", copy.deepcopy(bad))
                if st == "ok":
                    cx.fail(f"provider:invalid_accepted{cx.sfx}", f"{holder_name}.metadata = {_short(bad)} accepted")
                    holder.metadata = copy.deepcopy(v)
                elif not isinstance(e, MVE):
                    cx.fail(f"provider:wrong_exception{cx.sfx}", f"{holder_name}.metadata = {_short(bad)} raised {e!r}")
                if holder.metadata_bytes != enc:
                    cx.fail(f"provider:changed_by_rejected:{holder_name}", "metadata changed by a rejected value")
    if not k:
        return
    # ---- tree sequence level
    st, ts = _call(tc.tree_sequence)
    if st != "ok":
        raise HarnessError(f"table collection did not load: {ts!r}")
    getters = {"individuals": ts.individual, "nodes": ts.node, "edges": ts.edge,
               "migrations": ts.migration, "sites": ts.site, "mutations": ts.mutation,
               "populations": ts.population}
    schemas = ts.table_metadata_schemas
    sname = {"individuals": "individual", "nodes": "node", "edges": "edge", "migrations": "migration",
             "sites": "site", "mutations": "mutation", "populations": "population"}
    sup, cands, size = _np_expect(schema) if kind == "struct" else (None, None, None)
    for name in TABLES:
        rows = expect[name]
        if repr(getattr(schemas, sname[name])) != repr(ms):
            cx.fail("ts:table_metadata_schemas", f"{name} schema differs in the tree sequence")
        for i, (v, enc, dec) in enumerate(rows):
            obj = getters[name](i)
            if not R.same(_md(obj), dec) or not R.same(_md(obj), dec):
                cx.fail(f"ts:row_metadata:{name}", f"{name} {i}: {_short(_md(obj))} expected {_short(dec)}")
                break
        if kind != "struct" or sup is None:
            continue
        st, arr = _call(getattr, ts, name + "_metadata")
        if sup is False:
            if st == "ok":
                cx.fail(f"ts:numpy_unsupported_gave_array:{name}", f"ts.{name}_metadata returned dtype {arr.dtype}")
            continue
        if size == 0:
            continue
        if any(d is None for _, _, d in rows):
            continue
        if st != "ok":
            cx.fail(f"ts:numpy_raised:{name}", f"ts.{name}_metadata raised {arr!r}")
            continue
        if not any(arr.dtype == c for c in cands) or len(arr) != len(rows):
            cx.fail(f"ts:numpy_dtype:{name}", f"ts.{name}_metadata dtype {arr.dtype} len {len(arr)}")
            continue
        for i, (v, enc, dec) in enumerate(rows):
            st, ok = _call(R.numpy_value_ok, schema, arr[i], dec)
            if st != "ok" or not ok:
                cx.fail(f"ts:numpy_value:{name}", f"ts.{name}_metadata[{i}] = {arr[i]!r} vs {_short(dec)}")
                break
        acc.count("ts_numpy_rows_compared", len(rows))
    if oks:
        v, enc, dec = oks[min(1, len(oks) - 1)]
        if not R.same(_md(ts), dec):
            cx.fail("ts:metadata", f"ts.metadata = {_short(_md(ts))} expected {_short(dec)}")
        if not R.same(_md(ts.reference_sequence), dec):
            cx.fail("ts:reference_sequence_metadata", f"{_short(_md(ts.reference_sequence))}")


DECOY = {"codec": "struct", "type": "object", "properties": {
    "q": {"type": "integer", "binaryFormat": "Q"}, "w": {"type": "string", "binaryFormat": "5s"}}}
SNAME = {"individuals": "individual", "nodes": "node", "edges": "edge", "migrations": "migration",
         "sites": "site", "mutations": "mutation", "populations": "population"}


def check_cross(cx, kind, schema, ms, oks):
    """Every table must be read with ITS OWN schema: one table (rotating with the schema) carries
    the schema under test, the six others a decoy schema with a different layout."""
    import tskit

    oks = _pick_oks(kind, schema, oks, 3)
    if not oks:
        return
    decoy = tskit.MetadataSchema(copy.deepcopy(DECOY))
    special = TABLES[sum(repr(ms).encode()) % len(TABLES)]
    k = len(oks)
    L = float(k + 2)
    tc = tskit.TableCollection(L)
    expect = {}
    for name in TABLES:
        t = getattr(tc, name)
        n = k + 1 if name == "nodes" else (max(k, 2) if name == "populations" else k)
        if name == special:
            t.metadata_schema = ms
            rows = [oks[i % k] for i in range(n)]
        else:
            t.metadata_schema = decoy
            rows = []
            for i in range(n):
                v = {"q": 3 + i, "w": "dec"}  # small: a wrong decoder may read it as a length
                rows.append((v, None, R.fill(DECOY, v)))
        for i, (v, _, _) in enumerate(rows):
            _add(tc, name, i, copy.deepcopy(v), L)
        expect[name] = rows
    st, ts = _call(tc.tree_sequence)
    if st != "ok":
        raise HarnessError(f"cross table collection did not load: {ts!r}")
    getters = {"individuals": ts.individual, "nodes": ts.node, "edges": ts.edge,
               "migrations": ts.migration, "sites": ts.site, "mutations": ts.mutation,
               "populations": ts.population}
    sup, cands, size = _np_expect(schema) if kind == "struct" else (None, None, None)
    dsup, dcands, dsize = _np_expect(DECOY)
    for name in TABLES:
        rows = expect[name]
        want_schema = ms if name == special else decoy
        if repr(getattr(ts.table_metadata_schemas, SNAME[name])) != repr(want_schema):
            cx.fail(f"cross:table_metadata_schemas:{name}", f"{name} reports another table's schema")
        for i, (v, _, dec) in enumerate(rows):
            got = _md(getters[name](i))
            got_t = _md(getattr(tc, name)[i])
            if not R.same(got, dec) or not R.same(got_t, dec):
                cx.fail(f"cross:row_metadata:{name}", f"{name} {i} (schema under test on {special}): "
                        f"{_short(got)} / {_short(got_t)} expected {_short(dec)}")
                break
        s_, c_, z_ = (sup, cands, size) if name == special else (dsup, dcands, dsize)
        if s_ is not True or not z_ or (name == special and kind != "struct"):
            continue
        if any(d is None for _, _, d in rows):
            continue
        st, arr = _call(getattr, ts, name + "_metadata")
        if st != "ok":
            cx.fail(f"cross:numpy_raised:{name}", f"ts.{name}_metadata raised {arr!r} (schema under test on {special})")
            continue
        if not any(arr.dtype == c for c in c_) or len(arr) != len(rows):
            cx.fail(f"cross:numpy_dtype:{name}", f"ts.{name}_metadata has dtype {arr.dtype}, expected {c_[0]} "
                    f"(schema under test on {special})")
            continue
        node = schema if name == special else DECOY
        for i, (v, _, dec) in enumerate(rows):
            st, ok = _call(R.numpy_value_ok, node, arr[i], dec)
            if st != "ok" or not ok:
                cx.fail(f"cross:numpy_value:{name}", f"ts.{name}_metadata[{i}] = {arr[i]!r} vs {_short(dec)}")
                break
    check_transplant(cx, tc, special, ms, decoy)
    check_handed_out_copies(cx, ms, oks)
    check_schema_switch(cx, tc, special, ms, decoy)
    cx.acc.count("cross_table_collections")


def check_schema_switch(cx, tc, special, ms, decoy):
    """ONE table object whose rows have been read under schema A gets schema B together with B-encoded
    metadata through set_columns(..., metadata_schema=...) / replace_with (not through the property setter):
    its rows must decode under B from then on."""
    import tskit

    src = getattr(tc, special)
    n = src.num_rows
    if n == 0:
        return
    vals = [{"q": 11 + j, "w": "sw"} for j in range(n)]
    md, off = tskit.pack_bytes([decoy.validate_and_encode_row(v) for v in vals])
    for how in ("set_columns", "replace_with"):
        t = src.copy()
        for j in range(n):
            _md(t[j])  # rows are read under the first schema
        d = t.asdict()
        d["metadata"], d["metadata_offset"], d["metadata_schema"] = md, off, repr(decoy)
        if how == "set_columns":
            st, res = _call(lambda: t.set_columns(**d))
        else:
            other = src.copy()
            other.set_columns(**d)
            st, res = _call(t.replace_with, other)
        if st != "ok":
            cx.fail(f"switch:{how}:raised", f"{special}: {res!r}")
            continue
        cx.acc.count("schema_switches")
        for j, v in enumerate(vals):
            got = _md(t[j])
            if not R.same(got, R.fill(DECOY, v)):
                cx.fail(f"switch:{how}:row_metadata", f"{special} row {j} after {how}(metadata_schema=<other schema>): "
                        f"{_short(got)} expected {_short(v)} (rows had been read under the previous schema)")
                break


def _scribble(x):
    """Overwrite every nested part of a schema dictionary in place."""
    if isinstance(x, dict):
        for k in list(x):
            _scribble(x[k])
            if k in ("type", "binaryFormat"):
                x[k] = "string" if k == "type" else "x"
            elif isinstance(x[k], (int, str, bool)) and k not in ("codec",):
                x[k] = "scribbled"
        x["verif-extra"] = {"type": "null"}
    elif isinstance(x, list):
        for y in x:
            _scribble(y)
        x.append("scribbled")


def check_handed_out_copies(cx, ms, oks):
    """The dictionaries a schema hands out (.schema, .asdict()) are the caller's to edit (the documented way
    to derive a new schema): editing them - at any depth - must not change the schema they came from."""
    vals = [copy.deepcopy(v) for v, _, _ in oks[:3]]
    before = [_call(ms.validate_and_encode_row, copy.deepcopy(v)) for v in vals]
    text = repr(ms)
    for how in ("schema", "asdict"):
        st, d = _call(lambda: ms.schema if how == "schema" else ms.asdict())
        if st != "ok" or d is None:
            continue
        _scribble(d)
        after = [_call(ms.validate_and_encode_row, copy.deepcopy(v)) for v in vals]
        cx.acc.count("handed_out_copies_scribbled")
        if repr(ms) != text:
            cx.fail(f"aliasing:{how}:repr", f"editing the dictionary returned by .{how} changed the schema's string form")
        for v, (s0, b0), (s1, b1) in zip(vals, before, after):
            if s0 != s1 or (s0 == "ok" and b0 != b1):
                cx.fail(f"aliasing:{how}:behaviour", f"after editing the dictionary returned by .{how}, "
                        f"validate_and_encode_row({_short(v)}) gives {s1} {b1!r:.80}, before {s0} {b0!r:.80}")
                break


def _raw_md(t, j):
    off = t.metadata_offset
    return t.metadata[int(off[j]):int(off[j + 1])].tobytes()


def check_transplant(cx, tc, special, ms, decoy):
    """A row object taken from a table with ONE schema and stored (t[j] = row, append(row)) in a table
    with ANOTHER: the row's metadata object must be validated and encoded under the destination's
    schema - never carried over as the source's bytes."""
    src = getattr(tc, special)
    if src.num_rows == 0:
        return
    dsrc = src.copy()
    dsrc.metadata_schema = decoy
    dv = {"q": 3, "w": "dec"}
    dsrc.packset_metadata([decoy.validate_and_encode_row(dv)] * dsrc.num_rows)
    for way, source, dst_schema in (("to-decoy", src, decoy), ("from-decoy", dsrc, ms)):
        for op in ("setitem", "append"):
            dst = source.copy()
            dst.metadata_schema = dst_schema
            st_o, obj = _call(lambda: source[0].metadata)
            if st_o != "ok":
                continue
            st_e, want = _call(dst_schema.validate_and_encode_row, copy.deepcopy(obj))
            row = source[0]  # fresh lazy row: its metadata has not been looked at
            before = _raw_md(dst, 0)
            n0 = dst.num_rows
            if op == "setitem":
                st, res = _call(dst.__setitem__, 0, row)
                at = 0
            else:
                st, res = _call(dst.append, row)
                at = n0
            cx.acc.count("transplants")
            if st_e == "ok":
                if st != "ok":
                    cx.fail(f"cross:transplant:{op}:raised", f"{special} {way}: storing a row whose metadata "
                            f"{_short(obj)} is valid under the destination schema raised {res!r}")
                elif _raw_md(dst, at) != want:
                    cx.fail(f"cross:transplant:{op}:bytes", f"{special} {way}: stored {_raw_md(dst, at)!r}, the "
                            f"destination schema encodes {_short(obj)} as {want!r}")
            else:
                if st == "ok":
                    cx.fail(f"cross:transplant:{op}:accepted", f"{special} {way}: metadata {_short(obj)} violates the "
                            f"destination schema ({want!r}) but the row was stored as {_raw_md(dst, at)!r}")
                elif dst.num_rows != n0 or _raw_md(dst, 0) != before:
                    cx.fail(f"cross:transplant:{op}:modified", f"{special} {way}: a refused row changed the table")


def check_meta(case, acc, case_id):
    import tskit

    MS = tskit.MetadataSchema
    MSVE = tskit.MetadataSchemaValidationError
    cx = Ctx(acc, case_id, case["schema"])
    st, m = _call(MS, copy.deepcopy(case["base"]))
    if st != "ok":
        acc.ev(1, False)
        acc.count("meta_base_schema_not_accepted")
        cx.fail(f"meta:base_rejected:{case['ctx']}", f"defect-free base schema {_short(case['base'])} raised {m!r}")
        return
    acc.ev(1, True)
    st, m = _call(MS, copy.deepcopy(case["schema"]))
    if st == "ok":
        where = "top" if (case["ctx"] in ("json", "struct") or
                          (case["ctx"].startswith("prop") and case.get("target") != "obj")) else "nested"
        if where == "nested":
            # The struct codec's extra schema rules (optional-needs-default, length vs arrayLengthFormat /
            # exhaust, non-negative length, null padding) are only documented - and enforced - for the
            # top-level object; whether they are part of "the meta-schema" for nested objects is not stated
            # anywhere, so acceptance in a nested context is counted, not judged.
            acc.count("meta_nested_defect_accepted_dontcare")
            return
        cx.fail(f"meta:accepted:{case['defect']}:{where}", f"defective schema was accepted (context {case['ctx']})")
        return
    if not isinstance(m, MSVE):
        # rejected at construction, although not with the documented exception class:
        # the property only asks for rejection, so this is counted and not judged
        acc.count("meta_rejected_with_other_exception")
        return
    acc.count("meta_rejected")
    # the string form must be refused as well
    st, m = _call(tskit.metadata.parse_metadata_schema, json.dumps(case["schema"]))
    if st == "ok":
        cx.fail(f"meta:accepted_from_string:{case['defect']}", f"defective schema text was accepted (context {case['ctx']})")


# =========================================================================== driver glue
def _limit_memory():
    """A defective decoder fed with another table's bytes can try to build a 2^60 element list:
    turn that into a MemoryError (recorded as a failure) instead of exhausting the machine."""
    import resource

    lim = 4 << 30
    soft, hard = resource.getrlimit(resource.RLIMIT_AS)
    if soft == resource.RLIM_INFINITY or soft > lim:
        resource.setrlimit(resource.RLIMIT_AS, (lim, hard))


def run_shard(spec):
    _limit_memory()
    acc = Acc()
    cases = family(spec["fam"], spec["tier"])
    for i in range(spec["lo"], spec["hi"]):
        case_id = {"fam": spec["fam"], "i": i, "tier": spec["tier"]}
        acc.enter(case_id)
        check_case(cases[i], acc, case_id)
    return acc.result()


def replay(case):
    _limit_memory()
    acc = Acc()
    acc.MAX_PER_KEY = 1000
    cases = family(case["fam"], case["tier"])
    check_case(cases[case["i"]], acc, case)
    return acc.failures
