"""C06  A Tree's state depends only on where it is, not on how it got there.

Explicit-state model checking of the real Tree object: for each (tree sequence, options)
pair a breadth-first search over first/last/next/prev/clear/copy/seek_index/seek from the
null state, closed to a fixpoint over a state key that contains every tree array AND the
private position cursor (read through the TSKIT_VERIF hook), so that the verdict covers all
finite operation sequences on that pair, not a depth bound."""
import math

from .. import universe as U
from ..acc import Acc
from ..ref.trees import NULL, RefTS
from . import c01

ID = "C06"
LEVEL = "model_checking"
RULE = ("state = full low-level tree arrays + sample lists + position cursor; transition = one "
        "navigation call on the real Tree; BFS to closure per (member, options); every state is "
        "compared with a fresh Tree seeked directly to the same index and with the reference model")
ASSUMPTIONS = [
    "the state key (all tree arrays, sample-list links, counts, index, interval, position cursor) "
    "determines all future behaviour of the Tree object",
    "child order is abstracted in the oracle (documented as unspecified) but kept in the state key",
]
MAX_STATES = 20000


def bounds(tier):
    if tier == "quick":
        return {"members": "N=3 (G=2,3) all flags; N=4,G=2 with flags in {all, leaves-only, one internal}",
                "options": "3 option combos per member", "closure": "fixpoint"}
    return {"members": "N<=3 G<=3 weak orders; N=4 G<=3 id order", "options": "8 combos", "closure": "fixpoint"}


def _flags_some(N, ranks, cells):
    out = {tuple([1] * N)}
    haschild = [False] * N
    for cell in cells:
        for p in cell:
            if p >= 0:
                haschild[p] = True
    out.add(tuple(0 if haschild[u] else 1 for u in range(N)))
    # youngest two + oldest node flagged (an internal sample with descendants, usually)
    fl = [0] * N
    for u in range(min(2, N)):
        fl[u] = 1
    fl[N - 1] = 1
    out.add(tuple(fl))
    return sorted(out)


def shards(tier, seed):
    specs = []

    def split(b, per, optmode, flagmode="all"):
        cnt = U.count_members(b["N"], b["G"], "id" if b.get("times") == "rev" else b.get("times", "id"), flags="none")
        cnt *= (2 ** b["N"]) if flagmode == "all" else 3
        n = max(1, -(-cnt // per))
        for k in range(n):
            specs.append(dict(b=b, k=k, n=n, optmode=optmode, flagmode=flagmode))

    if tier == "quick":
        split(dict(N=2, G=2, times="id"), 30, "full")
        split(dict(N=3, G=2, times="id"), 30, "full")
        split(dict(N=3, G=3, times="id"), 24, "quick")
        split(dict(N=4, G=2, times="id"), 24, "quick", "some")
        # node ids in reverse time order (parents have smaller ids than their children)
        split(dict(N=3, G=2, times="rev"), 30, "full")
        split(dict(N=4, G=2, times="rev"), 24, "quick", "some")
        # a tree exactly one ulp wide (seek arithmetic on coordinates must not round across it)
        split(dict(N=2, G=3, times="id", grid="ulp"), 30, "quick")
        # unsquashed edge tables: one (parent, child) branch stored as abutting edge rows, so that a
        # breakpoint exists where the topology does not change but the edge ids do
        split(dict(N=3, G=2, times="id", squash=False), 30, "quick")
        split(dict(N=2, G=3, times="id", squash=False), 30, "quick")
    else:
        split(dict(N=3, G=3, times="id", squash=False), 30, "quick", "some")
        split(dict(N=3, G=3, times="id", grid="ulp"), 30, "quick", "some")
        split(dict(N=1, G=2, times="id"), 30, "full")
        split(dict(N=2, G=3, times="weak"), 30, "full")
        split(dict(N=3, G=2, times="weak"), 30, "full")
        split(dict(N=3, G=3, times="weak"), 30, "full")
        split(dict(N=4, G=2, times="id"), 30, "full")
        split(dict(N=4, G=3, times="id"), 30, "quick", "some")
        split(dict(N=3, G=4, times="id"), 30, "quick", "some")
    return specs


def option_list(m, mode):
    S = m.samples
    internal = None
    # a tracked set made of one internal sample plus a descendant, if there is one
    for u in S:
        for cell in m.parents:
            kids = [c for c in S if cell[c] == u]
            if kids:
                internal = [u, kids[0]]
                break
        if internal:
            break
    tracked = [None, list(S)]
    if S:
        tracked.append([S[0]])
    if internal:
        tracked.append(internal)
    if mode == "full":
        return [(sl, th, tr) for sl in (False, True) for th in (1, 2) for tr in tracked]
    out = [(True, 1, list(S)), (False, 2, tracked[-1]), (True, 1, None)]
    if internal:
        out.append((True, 2, internal))
    return out


def make_tree(tskit, ts, opt):
    sl, th, tr = opt
    kw = dict(sample_lists=sl, root_threshold=th)
    if tr is not None:
        kw["tracked_samples"] = tr
    return tskit.Tree(ts, **kw)


def full_key(tree, N, nsamples, sl):
    ll = tree._ll_tree
    k = [
        tuple(tree.parent_array.tolist()), tuple(tree.left_child_array.tolist()),
        tuple(tree.right_child_array.tolist()), tuple(tree.left_sib_array.tolist()),
        tuple(tree.right_sib_array.tolist()), tuple(tree.num_children_array.tolist()),
        tuple(tree.edge_array.tolist()),
        tuple(ll.get_num_samples(u) for u in range(N + 1)),
        tuple(ll.get_num_tracked_samples(u) for u in range(N + 1)),
        tree.index, tuple(tree.interval), tree.num_edges,
        tuple(s.id for s in tree.sites()),
    ]
    if sl:
        k.append(tuple(ll.get_left_sample(u) for u in range(N)))
        k.append(tuple(ll.get_right_sample(u) for u in range(N)))
        k.append(tuple(ll.get_next_sample(j) for j in range(nsamples)))
    try:
        k.append(ll.get_verif_position())
    except (RuntimeError, AttributeError):
        k.append(None)
    return tuple(k)


def ops_for(ivs, L):
    n = len(ivs)
    ops = [("first",), ("last",), ("next",), ("prev",), ("clear",), ("copy",)]
    for i in range(-n - 1, n + 1):
        ops.append(("seek_index", i))
    xs = []
    for l, r in ivs:
        xs.extend([l, (l + r) / 2, math.nextafter(r, -math.inf)])
    xs.extend([-1.0, L, math.nextafter(0.0, -1.0), L + 1, math.nan, math.inf, -math.inf])
    for x in xs:
        ops.append(("seek", x))
    return ops


def model_step(idx, op, ivs, L):
    """Reference model: the state is just the tree index (-1 = null).
    Returns (new index, return value expected or None, raises?)."""
    n = len(ivs)
    name = op[0]
    if name == "first":
        return 0, None, False
    if name == "last":
        return n - 1, None, False
    if name == "next":
        ni = 0 if idx == -1 else (idx + 1 if idx + 1 < n else -1)
        return ni, ni != -1, False
    if name == "prev":
        ni = n - 1 if idx == -1 else idx - 1
        return ni, ni != -1, False
    if name == "clear":
        return -1, None, False
    if name == "copy":
        return idx, None, False
    if name == "seek_index":
        i = op[1]
        if i < -n or i >= n:
            return idx, None, True
        return i % n, None, False
    if name == "seek":
        x = op[1]
        if not (0 <= x < L):
            return idx, None, True
        for j, (l, r) in enumerate(ivs):
            if l <= x < r:
                return j, None, False
    raise AssertionError(op)


def apply(tree, op):
    name = op[0]
    if name == "copy":
        return tree.copy(), None
    if name in ("seek_index", "seek"):
        return tree, getattr(tree, name)(op[1])
    return tree, getattr(tree, name)()


def explore(m, opt, acc, tskit, ts, rts, site_pos, max_states=MAX_STATES):
    sl, th, tr = opt
    N = m.N
    ivs = rts.intervals()
    n = len(ivs)
    L = m.L
    nsamples = len(m.samples)
    case = {"member": m.desc(), "options": {"sample_lists": sl, "root_threshold": th, "tracked_samples": tr}}
    acc.enter(case)
    # expected observable state per index: fresh tree moved directly there
    expected = {}
    fresh = make_tree(tskit, ts, opt)
    expected[-1] = c01.snap(fresh, N, True)
    for i in range(n):
        t = make_tree(tskit, ts, opt)
        t.seek_index(i)
        s = c01.snap(t, N, True)
        expected[i] = s
        ref = c01.ref_snap(rts, rts.tree_at(ivs[i][0]), i, ivs[i], th, tr, True, site_pos)
        if s != ref:
            acc.fail("fresh-vs-reference", f"fresh tree at index {i}: {s} != reference {ref}", case)
            return 0, 0
    ops = ops_for(ivs, L)
    init_key = full_key(fresh, N, nsamples, sl)
    seen = {init_key: ()}
    frontier = [()]
    idx_of = {init_key: -1}
    transitions = 0
    hookless = init_key[-1] is None
    while frontier:
        nxt = []
        for hist in frontier:
            for op in ops:
                tree = make_tree(tskit, ts, opt)
                idx = -1
                for h in hist:
                    tree, _ = apply(tree, h)
                key0 = full_key(tree, N, nsamples, sl)
                idx = idx_of[key0]
                exp_idx, exp_ret, exp_raise = model_step(idx, op, ivs, L)
                transitions += 1
                raised = None
                ret = None
                try:
                    tree, ret = apply(tree, op)
                except Exception as e:  # noqa
                    raised = e
                h2 = hist + (op,)
                hcase = dict(case, history=[list(o) for o in h2])
                if exp_raise:
                    if raised is None:
                        acc.fail("nav:no-error", f"{op} from index {idx} should raise", hcase)
                        continue
                    if not isinstance(raised, (ValueError, IndexError, tskit.LibraryError)):
                        acc.fail("nav:wrong-error", f"{op} raised {raised!r}", hcase)
                    key1 = full_key(tree, N, nsamples, sl)
                    if key1 != key0:
                        acc.fail("nav:error-changed-state", f"{op} raised but changed the tree state", hcase)
                    continue
                if raised is not None:
                    acc.fail("nav:unexpected-error", f"{op} from index {idx} raised {raised!r}", hcase)
                    continue
                if exp_ret is not None and ret is not exp_ret and ret != exp_ret:
                    acc.fail("nav:return-value", f"{op} from index {idx} returned {ret!r} expected {exp_ret!r}", hcase)
                if op[0] == "seek":
                    iv = tree.interval
                    if not (iv.left <= op[1] < iv.right):
                        acc.fail("nav:seek-interval", f"seek({op[1]}) landed on {tuple(iv)}", hcase)
                s = c01.snap(tree, N, True)
                if s != expected[exp_idx]:
                    names = ["parent", "children", "edge", "num_samples", "num_tracked", "interval",
                             "index", "num_edges", "roots", "sites", "sample lists"]
                    e = expected[exp_idx]
                    if len(s) == len(e):
                        diff = [f"{names[j]}: got {s[j]} expected {e[j]}" for j in range(len(s)) if s[j] != e[j]]
                    else:
                        diff = [str(s)]
                    which = "+".join(names[j] for j in range(len(s)) if len(s) == len(e) and s[j] != e[j]) or "structure"
                    acc.fail(f"state:{which}", f"after {[list(o) for o in h2]} (model index {exp_idx}): "
                             + "; ".join(diff), hcase)
                    continue  # a state that disagrees with the oracle is not expanded
                key1 = full_key(tree, N, nsamples, sl)
                if key1 not in seen:
                    seen[key1] = h2
                    idx_of[key1] = exp_idx
                    nxt.append(h2)
                    if len(seen) > max_states:
                        acc.fail("state-space-explosion", f"more than {max_states} states", case)
                        return len(seen), transitions
        frontier = nxt
        if hookless and frontier and len(frontier[0]) >= 4:
            acc.count("hookless_depth_capped")
            break
    acc.count("max_depth", 0)
    return len(seen), transitions


def run_member(m, optmode, acc):
    import tskit

    tc, ts, site_pos = c01.build_ts(m)
    rts = RefTS(m.times, m.flags, m.edges(), m.L)
    for opt in option_list(m, optmode):
        st, tr = explore(m, opt, acc, tskit, ts, rts, site_pos)
        acc.count("states", st)
        acc.count("transitions", tr)
        acc.count("pairs")
        acc.ev(1, nontrivial=ts.num_trees >= 2 and bool(m.samples))
        if st > acc.counters.get("max_states_per_pair", 0):
            acc.counters["max_states_per_pair_shard"] = st
    acc.sample({"member": m.desc(), "num_trees": ts.num_trees})


def run_shard(spec):
    acc = Acc()
    flags = "all" if spec["flagmode"] == "all" else _flags_some
    gen = U.enumerate_members(flags=flags, **spec["b"])
    for m in U.shard(gen, spec["k"], spec["n"]):
        run_member(m, spec["optmode"], acc)
    acc.counters.pop("max_depth", None)
    return acc.result()


def replay(case):
    import tskit

    acc = Acc()
    m = U.Member.from_desc(case["member"])
    o = case["options"]
    opt = (o["sample_lists"], o["root_threshold"], o["tracked_samples"])
    tc, ts, site_pos = c01.build_ts(m)
    rts = RefTS(m.times, m.flags, m.edges(), m.L)
    explore(m, opt, acc, tskit, ts, rts, site_pos)
    return acc.failures
