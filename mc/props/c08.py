"""C08  Statistics equal their documented definitions evaluated naively, are additive over
windows, and threaded results equal single-threaded ones.

Exhaustive input-space exploration (small-scope universe x sites/mutations x sample sets x
index tuples x windows x mode x polarised x span_normalise) against the exact-arithmetic
reference model mc/ref/stats.py, plus schedule enumeration: ThreadPoolExecutor is replaced by
a deterministic executor and every completion order of the submitted tasks is executed."""
import itertools
import math
from fractions import Fraction as Fr

from .. import muts as MU
from .. import universe as U
from ..acc import Acc
from .. import argforms as AF
from ..ref import stats as RS
from ..ref.trees import NULL, RefTS

ID = "C08"
LEVEL = "exploration"
RULE = ("parts (shard plan in bounds()): gen = general_stat and sample_count_stat, 2 weightings "
        "(general weights incl. negative and fractional; two overlapping sample sets) x 6 summary "
        "functions (strict quadratic, asymmetric product, cubic; non-strict identity-on-count, product, "
        "1+x with f(0)!=0) x mode x polarised x span_normalise x every window list on the half-grid "
        "containing 0 and L + 'trees' / 'sites' / None, on every universe member with >= 2 samples "
        "(site mode: x every site/mutation placement of the stated scheme), + window additivity for "
        "every refinement pair of window lists; named = diversity, segregating_sites, Y1, Tajimas_D, "
        "divergence, Y2, f2, Y3, f3, f4, Fst, genetic_relatedness (polarised x centre x proportion), "
        "genetic_relatedness_weighted, genetic_relatedness_vector, trait_covariance, trait_correlation, "
        "trait_linear_model (Z none / one covariate / covariates spanning the intercept), "
        "allele_frequency_spectrum (site / "
        "branch, polarised / folded, joint) x sample-set lists x all index tuples x mode x windows x "
        "span_normalise + dimension-dropping forms; sched = divergence_matrix and "
        "genealogical_nearest_neighbours with num_threads=1..k under every completion order of the "
        "submitted tasks (deterministic executor) + free-running real threads; ded = "
        "divergence_matrix (incl. partial windows), genetic_relatedness_matrix (branch), GNN, "
        "mean_descendants, pair_coalescence_counts, LdCalculator r2; dist = TreeSequence/Tree "
        "kc_distance and rf_distance on all ordered pairs of KC-valid members with equal sample flags. "
        "One evaluation = one call of the real method compared with the reference value; non-trivial = "
        "the reference value has a non-zero defined entry (sched: >= 2 tasks were submitted; dist: the "
        "reference distance is > 0)")
ASSUMPTIONS = [
    "reference model mc/ref/stats.py: summary functions evaluated exactly (Fractions) per node / "
    "allele; the linear window accounting is done on their float images; tolerance 1e-9 x max(1, "
    "|expected|) (Tajimas_D 1e-6; thread comparisons 1e-12)",
    "a summary-function output whose documented formula divides by zero for the given sample-set "
    "sizes is not compared at all (docs/stats.md: 'you should not rely on whether 0 or nan is "
    "returned'); likewise ratios (Fst, Tajimas_D, proportion=True) with a zero denominator",
    "site mode with f(0) != 0: an allele listed at a site but carried by no sample may or may not "
    "count (either reading accepted)",
    "joint folded AFS: the orbit sums {c, n-c} and placement in the half with the smaller total are "
    "checked; ties are free ('lower triangular in a similar way')",
    "divergence_matrix has no docstring: oracle = divergence() of all pairs with the diagonal = "
    "diversity, a one-element set's diagonal may be 0 or nan; windows not spanning [0, L] are accepted "
    "by the implementation and are checked against the same definition (key suffix :partial_windows)",
    "mean_descendants: the denominator may be the span over which the node is ancestral to any "
    "reference node (implementation) or to any sample (docstring wording); either accepted",
    "pair_coalescence_counts: a pair in which one sample is an ancestor of the other may or may not "
    "count as coalescing in the ancestor (either reading accepted per call)",
    "kc: Tree.kc_distance is compared with the Kendall-Colijn vectors only when no sample is an "
    "ancestor of another sample; rf_distance only on trees without sample-less subtrees",
    "schedules: tasks are executed one at a time in every order; interleavings inside a GIL-released "
    "C call are not controlled (tasks share only the read-only tree sequence); no TSan pass",
    "genetic_relatedness_vector supports only mode='branch' (site/node raise UNSUPPORTED_STAT_MODE "
    "although the docstring default is 'site'): only branch mode is evaluated",
    "trait_*: evaluated from the docstring definitions on the 0/1 inheritance indicator of every allele / "
    "branch / node (squared sample covariance, squared Pearson correlation, squared least-squares "
    "coefficient, each halved per atom and summed over an atom and its complement); an indicator that is "
    "constant (correlation) or in the span of intercept + covariates (linear model) contributes 0 as "
    "documented; one fixed 2-column trait matrix per sample count (2..6 samples)",
]
TOL = 1e-9
SHARD_TIMEOUT = 3000


# =============================================================================== helpers
def np_():
    import numpy as np
    return np


def to_arr(exp):
    np = np_()

    def conv(x):
        if isinstance(x, (list, tuple)):
            return [conv(y) for y in x]
        return float("nan") if x is None else float(x)

    return np.array(conv(exp), dtype=float)


def mismatch(got, exp, tol=TOL):
    """exp: float array with nan = undefined (not compared).  Returns (message|None, nontrivial)."""
    np = np_()
    g = np.asarray(got, dtype=float)
    e = exp
    if g.shape != e.shape:
        return f"shape {g.shape} expected {e.shape}", False
    if e.size == 0:
        return None, False
    und = e != e
    ae = np.abs(e)
    if und.any():
        if und.all():
            return None, False
        mx = float(ae[~und].max())
    else:
        mx = float(ae.max())
    with np.errstate(invalid="ignore"):
        ok = (np.abs(g - e) <= tol * max(1.0, mx)) | und
    if ok.all():
        return None, mx > 0
    idx = tuple(int(i) for i in np.argwhere(~ok)[0])
    return (f"at index {idx}: got {g[idx]!r} expected {e[idx]!r}; got={g.tolist()} "
            f"expected={e.tolist()}"), mx > 0


def half_grid(coords):
    pts = set(coords)
    for a, b in zip(coords[:-1], coords[1:]):
        pts.add((a + b) / 2)
    return sorted(pts)


def window_lists(coords, limit=None):
    """Every subset of the half-grid containing 0 and L, as sorted lists."""
    pts = half_grid(coords)
    inner = pts[1:-1]
    out = []
    for k in range(len(inner) + 1):
        for sub in itertools.combinations(inner, k):
            out.append([pts[0]] + list(sub) + [pts[-1]])
    if limit is not None and len(out) > limit:
        # keep the coarsest, the finest, all single-cut and all one-missing lists
        keep = [w for w in out if len(w) <= 3 or len(w) >= len(pts) - 1]
        out = keep
    return out


def placement_desc(pl):
    return [[float(x), a, [[int(u), s] for u, s in ml]] for x, a, ml in pl]


def placement_from_desc(d):
    return [(x, a, [(u, s) for u, s in ml]) for x, a, ml in d]


def uncalibrated(m):
    """Every fourth member has time_units = 'uncalibrated': branch-mode statistics are then refused (documented),
    site and node mode never look at node times and must be unaffected."""
    return (m.N + m.G + len(m.edges()) + sum(m.flags)) % 4 == 3


def build(m, placement, allow_uncalibrated=False):
    tc = m.tables()
    if placement:
        MU.add_sites(tc, m, placement)
    if allow_uncalibrated and uncalibrated(m):
        tc.time_units = "uncalibrated"
    ts = tc.tree_sequence()
    rts = RefTS.from_tables(tc)
    return ts, rts


# ====================================================================== part: general stat
GW = [1.0, -2.0, 4.0, 0.5, 3.0]
M_ALL = 6
M_STRICT = 3


def bundle(T, strict_only=False):
    """Six polymorphic summary functions (numpy floats or Fractions):
    strict: quadratic x0(T0-x0); asymmetric product x0(T1-x1); cubic x1^2(T0-x0);
    non-strict: identity on a count x0; product x0 x1; 1 + x1 (f(0) != 0)."""
    T0, T1 = T

    def f(x):
        x0, x1 = x[0], x[1]
        out = [x0 * (T0 - x0), x0 * (T1 - x1), x1 * x1 * (T0 - x0)]
        if not strict_only:
            out += [x0, x0 * x1, 1 + x1]
        return out

    return f


def weightings(samples):
    n = len(samples)
    h = (n + 1) // 2
    A, B = samples[:h], samples[n - h:]
    Wg = [[1.0, GW[j % len(GW)]] for j in range(n)]
    Wc = [[1.0 if s in A else 0.0, 1.0 if s in B else 0.0] for s in samples]
    return [("general_stat", Wg, None), ("sample_count_stat", Wc, [A, B])]


def additivity(results, sn):
    """results: {tuple(windows): array}.  For every refinement pair (coarse subset of fine)
    the span-weighted (sn) or plain sum of the fine rows equals the coarse row."""
    np = np_()
    keys = list(results)
    for cw in keys:
        cs = set(cw)
        for fw in keys:
            if fw is cw or len(fw) <= len(cw) or not cs.issubset(fw):
                continue
            C, F = results[cw], results[fw]
            for i in range(len(cw) - 1):
                a, b = cw[i], cw[i + 1]
                rows = [j for j in range(len(fw) - 1) if a <= fw[j] and fw[j + 1] <= b]
                if sn:
                    tot = sum(F[j] * (fw[j + 1] - fw[j]) for j in rows) / (b - a)
                else:
                    tot = sum(F[j] for j in rows)
                scale = max(1.0, float(np.abs(np.nan_to_num(C[i])).max()))
                with np.errstate(invalid="ignore"):
                    ok = np.abs(tot - C[i]) <= TOL * scale
                ok = ok | (np.isnan(tot) & np.isnan(C[i]))
                if not ok.all():
                    return (f"windows {list(cw)} row {i} = {np.asarray(C[i]).tolist()} but combining "
                            f"rows {rows} of windows {list(fw)} gives {np.asarray(tot).tolist()}")
    return None


def check_general(ts, rts, modes, acc, case, wlimit=None, with_sites_windows=False):
    np = np_()
    samples = rts.samples
    wl = window_lists(rts_coords(rts, case), wlimit)
    for wname, Wf, sets in weightings(samples):
        Wd = {s: [Fr(x) for x in row] for s, row in zip(samples, Wf)}
        counts = RS.Counts(rts, Wd)
        Tf = [sum(r[0] for r in Wf), sum(r[1] for r in Wf)]
        f_real = bundle(Tf)
        f_real_strict = bundle(Tf, True)
        evl = RS.Evaluator(counts, bundle(counts.total), M_ALL, selfcheck=True)
        Wnp = np.array(Wf)

        layout = [0]

        def call(f, m, strict, **kw):
            if sets is None:
                # the weight matrix in rotating memory layouts (Fortran order, strided rows / columns ...)
                layout[0] += 1
                return ts.general_stat(AF.reform2d(Wnp, layout[0])[1], f, m, strict=strict, **kw)
            return ts.sample_count_stat(sets, f, m, strict=strict, **kw)

        for mode in modes:
            specs = [("list", w) for w in wl] + [("trees", "trees"), ("none", None)]
            if with_sites_windows:
                specs.append(("sites", "sites"))
            # strict=True call (Python-level pre-check of f(0), f(total)), strict part only
            try:
                got = call(f_real_strict, M_STRICT, True, mode=mode)
                exp = evl.stat([0.0, rts.L], mode, False, True)[0][..., :M_STRICT]
                msg, nt = mismatch(got, exp)
                acc.ev(1, nt)
                if msg:
                    acc.fail(f"general:{mode}:strict_call", f"{wname} strict=True: {msg}", case)
            except Exception as e:  # noqa
                acc.fail(f"general:{mode}:exception", f"{wname} strict=True raised {e!r}", case)
            for pol in (False, True):
                for sn in (True, False):
                    res = {}
                    for kind, w in specs:
                        W = RS.parse_windows(rts, w)
                        try:
                            got = call(f_real, M_ALL, False, windows=w, mode=mode, polarised=pol,
                                       span_normalise=sn)
                        except Exception as e:  # noqa
                            acc.fail(f"general:{mode}:exception",
                                     f"{wname} windows={w} pol={pol} sn={sn} raised {e!r}", case)
                            continue
                        exp = evl.stat(W, mode, pol, sn)
                        if w is None:
                            exp = exp[0]
                        got = np.asarray(got, dtype=float)
                        if mode == "site" and got.shape == exp.shape:
                            # column 5 has f(0) != 0: an allele carried by nobody may or may not count
                            msg, nt = mismatch(got, exp)
                            if msg is not None:
                                msg, nt = mismatch(got[..., :5], exp[..., :5])
                                if msg is None:
                                    alt = evl.stat(W, mode, pol, sn, present_only=True)
                                    if w is None:
                                        alt = alt[0]
                                    m5a, _ = mismatch(got[..., 5], exp[..., 5])
                                    m5b, _ = mismatch(got[..., 5], alt[..., 5])
                                    if m5a is not None and m5b is not None:
                                        msg = "f(x)=1+x1 column: " + m5a
                        else:
                            msg, nt = mismatch(got, exp)
                        acc.ev(1, nt)
                        if msg:
                            acc.fail(f"general:{mode}:value",
                                     f"{wname} mode={mode} windows={w} polarised={pol} "
                                     f"span_normalise={sn}: {msg}", case)
                        if kind == "list":
                            res[tuple(w)] = got
                    msg = additivity(res, sn)
                    if msg:
                        acc.fail(f"general:{mode}:additivity",
                                 f"{wname} mode={mode} polarised={pol} span_normalise={sn}: {msg}", case)


def rts_coords(rts, case):
    m = U.Member.from_desc(case["member"])
    return m.coords


# ====================================================================== part: named stats
def partitions_of_subsets(S):
    """Every unordered collection of >=1 disjoint non-empty subsets of S."""
    out = []

    def rec(i, blocks):
        if i == len(S):
            if blocks:
                out.append([list(b) for b in blocks])
            return
        rec(i + 1, blocks)  # unused
        for j in range(len(blocks)):
            nb = [list(b) for b in blocks]
            nb[j].append(S[i])
            rec(i + 1, nb)
        rec(i + 1, blocks + [[S[i]]])

    rec(0, [])
    return out


def sample_set_lists(S, full):
    n = len(S)
    if full:
        out = partitions_of_subsets(S)
        out.append([list(S), list(S)])
        return out
    h = (n + 1) // 2
    out = [[list(S)], [S[:h], S[h:]], [[s] for s in S], [list(S), S[:max(1, n - 1)]]]
    if n >= 3:
        out.append([S[:1], S[1:2], S[2:]])
        out.append([S[1:], S[:1]])
    return out


def extend(SS, k):
    if len(SS) >= k:
        return SS
    return [SS[i % len(SS)] for i in range(k)]


def index_tuples(K, k, full):
    allt = list(itertools.product(range(K), repeat=k))
    if full or len(allt) <= 81:
        return allt
    keep = list(itertools.permutations(range(K), k)) + list(itertools.product(range(2), repeat=k))
    seen, out = set(), []
    for t in keep:
        if t not in seen:
            seen.add(t)
            out.append(t)
    return out


def named_wspecs(rts, case, full=True):
    """[(windows, [span_normalise values])]"""
    pts = half_grid(rts_coords(rts, case))
    if not full:
        specs = [(None, [True]), (pts, [True, False])]
        if rts.sites:
            specs.append(("sites", [False]))
        return specs
    ws = [None, pts, "trees"]
    if len(pts) > 3:
        ws.append([pts[0], pts[2], pts[-1]] if len(pts) > 4 else [pts[0], pts[1], pts[-1]])
    if rts.sites:
        ws.append("sites")
    return [(w, [True, False]) for w in ws]


def tajd(T, S, n):
    """Tajimas_D docstring formula; None where it divides by zero / takes sqrt of <= 0."""
    if T is None or S is None or n < 2:
        return None
    h = sum(Fr(1, i) for i in range(1, n))
    g = sum(Fr(1, i * i) for i in range(1, n))
    a = Fr(n + 1) / (3 * (n - 1) * h) - 1 / h ** 2
    b = Fr(2 * (n * n + n + 3), 9 * n * (n - 1)) - Fr(n + 2) / (h * n) + g / h ** 2
    c = h ** 2 + g
    var = a * S + (b / c) * S * (S - 1)
    if var <= 0:
        return None
    return float(T - S / h) / math.sqrt(float(var))


def tajd_np(T, S, n):
    """Tajimas_D docstring formula on arrays whose last axis is the sample set; nan where
    it divides by zero (h = 0, variance 0) or T/S undefined."""
    np = np_()
    out = np.full(T.shape, np.nan)
    for j, nn in enumerate(n):
        if nn < 2:
            continue
        h = sum(Fr(1, i) for i in range(1, nn))
        g = sum(Fr(1, i * i) for i in range(1, nn))
        a = float(Fr(nn + 1) / (3 * (nn - 1) * h) - 1 / h ** 2)
        b = float(Fr(2 * (nn * nn + nn + 3), 9 * nn * (nn - 1)) - Fr(nn + 2) / (h * nn) + g / h ** 2)
        c = float(h ** 2 + g)
        t, s_ = T[..., j], S[..., j]
        var = a * s_ + (b / c) * s_ * (s_ - 1)
        with np.errstate(invalid="ignore", divide="ignore"):
            d = (t - s_ / float(h)) / np.sqrt(var)
        out[..., j] = np.where(var > 1e-9, d, np.nan)
    return out


def nested_map(fn, *arrs):
    if isinstance(arrs[0], list):
        return [nested_map(fn, *xs) for xs in zip(*arrs)]
    return fn(*arrs)


def check_named(ts, rts, SS, modes, acc, case, full):
    np = np_()
    samples = rts.samples
    n = [len(A) for A in SS]
    K = len(SS)
    wspecs = named_wspecs(rts, case, full)
    counts = RS.Counts(rts, RS.indicator_weights(samples, SS))
    sskey = str(SS)

    def run(key, what, fn, expfn, tol=TOL):
        try:
            got = fn()
        except Exception as e:  # noqa
            acc.ev(1, False)
            acc.fail(key + ":exception", f"{what} raised {e!r}", case)
            return
        exp = expfn()
        msg, nt = mismatch(got, exp, tol)
        acc.ev(1, nt)
        if msg:
            acc.fail(key, f"{what}: {msg}", case)

    def wexp(ev, w, mode, pol, sn):
        e = ev.stat(RS.parse_windows(rts, w), mode, pol, sn)
        return e[0] if w is None else e

    # ---- one-way
    ow = {name: RS.Evaluator(counts, mk(n), K) for name, mk in RS.ONE_WAY.items()}
    for name, ev in ow.items():
        for mode in modes:
            for w, snl in wspecs:
                for sn in snl:
                    run(f"named:{name}:{mode}",
                        f"{name}({sskey}, windows={w}, mode={mode}, span_normalise={sn})",
                        lambda: getattr(ts, name)(SS, windows=w, mode=mode, span_normalise=sn),
                        lambda: wexp(ev, w, mode, False, sn))
            if K == 1:
                # dimension dropping: flat list / None
                for w in (None, wspecs[1][0]):
                    run(f"named:{name}:{mode}:dims",
                        f"{name}({SS[0]} flat, windows={w}, mode={mode})",
                        lambda: getattr(ts, name)(SS[0], windows=w, mode=mode),
                        lambda: wexp(ev, w, mode, False, True)[..., 0])
                    if SS[0] == samples and name != "Y1":
                        run(f"named:{name}:{mode}:dims",
                            f"{name}(None, windows={w}, mode={mode})",
                            lambda: getattr(ts, name)(windows=w, mode=mode),
                            lambda: wexp(ev, w, mode, False, True)[..., 0])
    # ---- Tajima's D
    for mode in modes:
        for w, snl in wspecs:
            def exp_td():
                W = RS.parse_windows(rts, w)
                T = ow["diversity"].stat(W, mode, False, False)
                S_ = ow["segregating_sites"].stat(W, mode, False, False)
                e = tajd_np(T, S_, n)
                return e[0] if w is None else e
            run(f"named:Tajimas_D:{mode}", f"Tajimas_D({sskey}, windows={w}, mode={mode})",
                lambda: ts.Tajimas_D(SS, windows=w, mode=mode), exp_td, 1e-6)
    # ---- k-way
    for name, (k, mk) in RS.K_WAY.items():
        SSk = extend(SS, k)
        nk = [len(A) for A in SSk]
        Kk = len(SSk)
        ck = counts if SSk is SS else RS.Counts(rts, RS.indicator_weights(samples, SSk))
        idx = index_tuples(Kk, k, full)
        ev = RS.Evaluator(ck, mk(nk, idx), len(idx))
        for mode in modes:
            for w, snl in wspecs:
                for sn in snl:
                    run(f"named:{name}:{mode}",
                        f"{name}({SSk}, indexes=all {len(idx)}, windows={w}, mode={mode}, "
                        f"span_normalise={sn})",
                        lambda: getattr(ts, name)(SSk, indexes=idx, windows=w, mode=mode,
                                                  span_normalise=sn),
                        lambda: wexp(ev, w, mode, False, sn))
            if Kk == k:
                col = idx.index(tuple(range(k)))
                for w in (None, wspecs[1][0]):
                    run(f"named:{name}:{mode}:dims",
                        f"{name}({SSk}, indexes=None, windows={w}, mode={mode})",
                        lambda: getattr(ts, name)(SSk, windows=w, mode=mode),
                        lambda: wexp(ev, w, mode, False, True)[..., col])
                    run(f"named:{name}:{mode}:dims",
                        f"{name}({SSk}, indexes={idx[-1]} (single tuple), windows={w}, mode={mode})",
                        lambda: getattr(ts, name)(SSk, indexes=idx[-1], windows=w, mode=mode),
                        lambda: wexp(ev, w, mode, False, True)[..., len(idx) - 1])
    # ---- Fst
    SS2 = extend(SS, 2)
    n2 = [len(A) for A in SS2]
    c2 = counts if SS2 is SS else RS.Counts(rts, RS.indicator_weights(samples, SS2))
    idx2 = index_tuples(len(SS2), 2, full)
    ev_div = RS.Evaluator(c2, RS.sf_diversity(n2), len(SS2))
    ev_dvg = RS.Evaluator(c2, RS.sf_divergence(n2, idx2), len(idx2))
    for mode in modes:
        for w, snl in wspecs:
            for sn in snl:
                def exp_fst():
                    W = RS.parse_windows(rts, w)
                    d = ev_div.stat(W, mode, False, sn)
                    dv = ev_dvg.stat(W, mode, False, sn)
                    ii = [i for i, _ in idx2]
                    jj = [j for _, j in idx2]
                    dx, dy = d[..., ii], d[..., jj]
                    den = dx + 2 * dv + dy
                    with np.errstate(invalid="ignore", divide="ignore"):
                        e = 1 - 2 * (dx + dy) / den
                    e = np.where(np.abs(den) < 1e-12, np.nan, e)
                    return e[0] if w is None else e
                run(f"named:Fst:{mode}",
                    f"Fst({SS2}, indexes=all, windows={w}, mode={mode}, span_normalise={sn})",
                    lambda: ts.Fst(SS2, indexes=idx2, windows=w, mode=mode, span_normalise=sn),
                    exp_fst)
    # ---- genetic_relatedness
    allsamp = sorted({u for A in SS2 for u in A})
    cseg = RS.Counts(rts, RS.indicator_weights(samples, [allsamp]))
    ev_seg = RS.Evaluator(cseg, RS.sf_segregating_sites([len(allsamp)]), 1)
    for centre in (True, False):
        ev = RS.Evaluator(c2, RS.sf_genetic_relatedness(n2, idx2, centre), len(idx2))
        for pol in (True, False):
            for prop in (False, True):
                for mode in modes:
                    for w, snl in wspecs:
                        for sn in snl:
                            def exp_gr():
                                W = RS.parse_windows(rts, w)
                                e = ev.stat(W, mode, pol, sn)
                                if prop:
                                    den = ev_seg.stat(W, mode, False, sn)
                                    with np.errstate(invalid="ignore", divide="ignore"):
                                        e = np.where(np.abs(den) < 1e-12, np.nan, e / den)
                                return e[0] if w is None else e
                            run(f"named:genetic_relatedness:{mode}",
                                f"genetic_relatedness({SS2}, indexes=all, windows={w}, mode={mode}, "
                                f"span_normalise={sn}, polarised={pol}, proportion={prop}, "
                                f"centre={centre})",
                                lambda: ts.genetic_relatedness(
                                    SS2, indexes=idx2, windows=w, mode=mode, span_normalise=sn,
                                    polarised=pol, proportion=prop, centre=centre),
                                exp_gr)
    # ---- AFS
    if K <= 3:
        check_afs(ts, rts, SS, wspecs, acc, case)


def check_weighted(ts, rts, modes, acc, case, full=True):
    """genetic_relatedness_weighted / genetic_relatedness_vector against the docstring
    identities with genetic_relatedness between single samples."""
    np = np_()
    samples = rts.samples
    ns = len(samples)
    wspecs = named_wspecs(rts, case, full)
    Wf = [[1.0, GW[j % len(GW)]] for j in range(ns)]
    Wnp = np.array(Wf)
    colsum = [sum(Fr(r[c]) for r in Wf) for c in range(2)]
    Wd = {s: [Fr(x) for x in row] + [Fr(1)] for s, row in zip(samples, Wf)}
    counts = RS.Counts(rts, Wd)
    idx = [(0, 0), (0, 1), (1, 0), (1, 1)]
    for centre in (True, False):
        ev = RS.Evaluator(counts, RS.sf_relatedness_weighted(colsum, idx, centre, ns), len(idx))
        for pol in (True, False):
            for mode in modes:
                for w, snl in wspecs:
                    for sn in snl:
                        try:
                            got = ts.genetic_relatedness_weighted(
                                AF.reform2d(Wnp, int(pol) + 2 * int(sn) + len(mode))[1], indexes=idx, windows=w, mode=mode, span_normalise=sn,
                                polarised=pol, centre=centre)
                        except Exception as e:  # noqa
                            acc.fail(f"named:genetic_relatedness_weighted:{mode}:exception",
                                     f"raised {e!r}", case)
                            continue
                        e = ev.stat(RS.parse_windows(rts, w), mode, pol, sn)
                        if w is None:
                            e = e[0]
                        msg, nt = mismatch(got, e)
                        acc.ev(1, nt)
                        if msg:
                            acc.fail(f"named:genetic_relatedness_weighted:{mode}",
                                     f"genetic_relatedness_weighted(W, indexes={idx}, windows={w}, "
                                     f"mode={mode}, span_normalise={sn}, polarised={pol}, "
                                     f"centre={centre}): {msg}", case)
    # genetic_relatedness_vector: sum_b W_bj C_ib with C = genetic_relatedness between samples
    singles = [[s] for s in samples]
    cs = RS.Counts(rts, RS.indicator_weights(samples, singles))
    pairs = [(i, b) for i in range(ns) for b in range(ns)]
    for centre in (True, False):
        ev = RS.Evaluator(cs, RS.sf_genetic_relatedness([1] * ns, pairs, centre), len(pairs))
        for mode in [m for m in modes if m == "branch"]:  # site / node: UNSUPPORTED_STAT_MODE
            for w, snl in wspecs:
                for sn in snl:
                    try:
                        got = ts.genetic_relatedness_vector(Wnp, windows=w, mode=mode,
                                                            span_normalise=sn, centre=centre)
                    except Exception as e:  # noqa
                        acc.fail(f"named:genetic_relatedness_vector:{mode}:exception",
                                 f"raised {e!r}", case)
                        continue
                    C = ev.stat(RS.parse_windows(rts, w), mode, True, sn)
                    e = C.reshape((C.shape[0], ns, ns)) @ Wnp
                    if w is None:
                        e = e[0]
                    msg, nt = mismatch(got, e)
                    acc.ev(1, nt)
                    if msg:
                        key = f"named:genetic_relatedness_vector:{mode}"
                        if sn:
                            W_ = np.asarray(RS.parse_windows(rts, w), dtype=float)
                            raw = e * ((W_[1:] - W_[:-1])[:, None, None] if w is not None else W_[-1])
                            if mismatch(got, raw)[0] is None:
                                key += ":span_normalise_ignored"
                        acc.fail(key, f"genetic_relatedness_vector(W, windows={w}, mode={mode}, "
                                      f"span_normalise={sn}, centre={centre}): {msg}", case)


TRAIT_W = [[1.0, 0.0], [-2.0, 1.0], [4.0, 1.0], [0.5, -3.0], [3.0, 2.0], [-1.0, 0.25]]
TRAIT_Z = [[0.0], [1.0], [3.0], [-1.0], [2.0], [0.5]]


def check_trait(ts, rts, modes, acc, case, full=True):
    """trait_covariance / trait_correlation / trait_linear_model against their docstring
    definitions evaluated on the inheritance indicator of every allele / branch / node."""
    np = np_()
    samples = rts.samples
    ns = len(samples)
    if ns < 2 or ns > len(TRAIT_W):
        acc.count("trait_skipped_sample_count")
        return
    Wf = TRAIT_W[:ns]
    Wnp = np.array(Wf)
    cols = [[Fr(r[c]) for r in Wf] for c in range(2)]
    Zf = TRAIT_Z[:ns]
    zcols = [[Fr(r[0]) for r in Zf]]
    singles = [[s] for s in samples]
    counts = RS.Counts(rts, RS.indicator_weights(samples, singles))
    wspecs = named_wspecs(rts, case, full)
    jobs = [("trait_covariance", RS.sf_trait_covariance(cols), {}),
            ("trait_correlation", RS.sf_trait_correlation(cols), {}),
            ("trait_linear_model", RS.sf_trait_linear_model(cols, []), {}),
            ("trait_linear_model", RS.sf_trait_linear_model(cols, []), {"Z": None})]
    if ns >= 3:
        jobs.append(("trait_linear_model", RS.sf_trait_linear_model(cols, zcols), {"Z": np.array(Zf)}))
        # a covariate matrix that already spans the intercept
        z2 = [[Fr(1) - z for z in zcols[0]], list(zcols[0])]
        jobs.append(("trait_linear_model", RS.sf_trait_linear_model(cols, z2),
                     {"Z": np.array([[1.0 - r[0], r[0]] for r in Zf])}))
    lay = 0
    for name, f, kw in jobs:
        ev = RS.Evaluator(counts, f, 2)
        for mode in modes:
            for w, snl in wspecs:
                for sn in snl:
                    try:
                        lay += 1
                        kw2 = dict(kw)
                        if kw2.get("Z") is not None:
                            kw2["Z"] = AF.reform2d(kw2["Z"], lay + 1)[1]
                        wa = w if not isinstance(w, list) else AF.reform(np.array(w, dtype=float), lay)[1]
                        got = getattr(ts, name)(AF.reform2d(Wnp, lay)[1], windows=wa, mode=mode, span_normalise=sn, **kw2)
                    except Exception as e:  # noqa
                        acc.fail(f"named:{name}:{mode}:exception", f"raised {e!r}", case)
                        continue
                    e = ev.stat(RS.parse_windows(rts, w), mode, False, sn)
                    if w is None:
                        e = e[0]
                    msg, nt = mismatch(got, e)
                    acc.ev(1, nt)
                    if msg:
                        acc.fail(f"named:{name}:{mode}",
                                 f"{name}(W={Wf}, {'Z=' + repr(kw['Z'].tolist()) + ', ' if kw.get('Z') is not None else ''}"
                                 f"windows={w}, mode={mode}, span_normalise={sn}): {msg}", case)


def edge_after_gap(rts):
    """Some edge starts at x > 0 where its child had no parent immediately to the left."""
    for l, r, p, c in rts.edges:
        if l > 0 and not any(r2 == l and c2 == c for _l2, r2, _p2, c2 in rts.edges):
            return True
    return False


def check_afs(ts, rts, SS, wspecs, acc, case):
    np = np_()
    dims = [len(A) + 1 for A in SS]
    nvec = [len(A) for A in SS]
    for mode in ("site", "branch"):
        for pol in (True, False):
            incs = RS.afs_increments(rts, SS, mode, pol)
            for w, snl in wspecs:
                for sn in snl:
                    what = (f"allele_frequency_spectrum({SS}, windows={w}, mode={mode}, "
                            f"span_normalise={sn}, polarised={pol})")
                    key = f"afs:{mode}:{'polarised' if pol else 'folded'}"
                    if mode == "branch" and edge_after_gap(rts):
                        key += ":edge_after_gap"
                    try:
                        got = np.asarray(ts.allele_frequency_spectrum(
                            SS, windows=w, mode=mode, span_normalise=sn, polarised=pol), dtype=float)
                    except Exception as e:  # noqa
                        acc.ev(1, False)
                        acc.fail(key + ":exception", f"{what} raised {e!r}", case)
                        continue
                    W = RS.parse_windows(rts, w)
                    exp = RS.afs_windows(incs, mode, W, sn)
                    if w is None:
                        got = got[None, ...]
                    if got.shape != tuple([len(W) - 1] + dims):
                        acc.ev(1, False)
                        acc.fail(key, f"{what}: shape {got.shape}", case)
                        continue
                    nt = any(d for d in exp)
                    acc.ev(1, nt)
                    bad = None
                    for wi, d in enumerate(exp):
                        g = got[wi]
                        scale = max([1.0] + [float(v) for v in d.values()])
                        if pol:
                            dense = np.zeros(dims)
                            for c, v in d.items():
                                dense[c] += float(v)
                            if not (np.abs(g - dense) <= TOL * scale).all():
                                bad = f"window {wi}: got {g.tolist()} expected {dense.tolist()}"
                                break
                        else:
                            seen = set()
                            for c in itertools.product(*[range(x) for x in dims]):
                                if c in seen:
                                    continue
                                cc = tuple(nn - x for nn, x in zip(nvec, c))
                                seen.add(c)
                                seen.add(cc)
                                tot = float(d.get(c, 0)) + (float(d.get(cc, 0)) if cc != c else 0.0)
                                gs = g[c] + (g[cc] if cc != c else 0.0)
                                if abs(gs - tot) > TOL * scale:
                                    bad = (f"window {wi}: entries {c}/{cc} sum to {gs}, expected "
                                           f"{tot}; got {g.tolist()}")
                                    break
                                if cc != c and sum(c) != sum(cc):
                                    hi = c if sum(c) > sum(cc) else cc
                                    if abs(g[hi]) > TOL * scale:
                                        bad = (f"window {wi}: folded AFS has mass {g[hi]} at {hi} "
                                               f"(upper half); got {g.tolist()}")
                                        break
                            if bad:
                                break
                    if bad:
                        acc.fail(key, f"{what}: {bad}", case)


# ====================================================================== part: schedules
class _Fut:
    def __init__(self, ex, fn, args):
        self.ex, self.fn, self.args = ex, fn, args
        self.done_ = False
        self.value = None
        self.exc = None

    def _run(self):
        try:
            self.value = self.fn(*self.args)
        except BaseException as e:  # noqa
            self.exc = e
        self.done_ = True

    def result(self, timeout=None):
        if not self.done_:
            self.ex._run_all()
        if self.exc is not None:
            raise self.exc
        return self.value

    def done(self):
        return self.done_

    def exception(self, timeout=None):
        if not self.done_:
            self.ex._run_all()
        return self.exc


class Scheduler:
    """Replaces concurrent.futures.ThreadPoolExecutor / wait / as_completed.  Tasks are only
    recorded at submit(); when a result is first demanded (result(), wait(), leaving the
    with-block) all pending tasks run one at a time in the order given by `perm`."""

    def __init__(self, perm=None):
        self.perm = perm
        self.num_tasks = 0
        self.completion = []
        sched = self

        class Executor:
            def __init__(self, max_workers=None, *a, **k):
                self.pending = []

            def submit(self, fn, *args):
                f = _Fut(self, fn, args)
                self.pending.append(f)
                return f

            def map(self, fn, *iterables):
                futs = [self.submit(fn, *args) for args in zip(*iterables)]

                def gen():
                    for f in futs:
                        yield f.result()
                return gen()

            def _run_all(self):
                pend, self.pending = self.pending, []
                n = len(pend)
                sched.num_tasks += n
                order = list(range(n))
                if sched.perm is not None and len(sched.perm) == n:
                    order = list(sched.perm)
                for i in order:
                    pend[i]._run()
                    sched.completion.append(pend[i])

            def shutdown(self, wait=True, **k):
                self._run_all()

            def __enter__(self):
                return self

            def __exit__(self, *a):
                self._run_all()
                return False

        self.Executor = Executor

    def wait(self, fs, timeout=None, return_when=None):
        fs = list(fs)
        for f in fs:
            if not f.done_:
                f.ex._run_all()
        return set(fs), set()

    def as_completed(self, fs, timeout=None):
        fs = list(fs)
        for f in fs:
            if not f.done_:
                f.ex._run_all()
        order = [f for f in self.completion if f in fs]
        return iter(order)

    def __enter__(self):
        import concurrent.futures as cf
        self._saved = (cf.ThreadPoolExecutor, cf.wait, cf.as_completed)
        cf.ThreadPoolExecutor = self.Executor
        cf.wait = self.wait
        cf.as_completed = self.as_completed
        return self

    def __exit__(self, *a):
        import concurrent.futures as cf
        cf.ThreadPoolExecutor, cf.wait, cf.as_completed = self._saved
        return False


def all_schedules(fn, maxperms=120):
    """Run fn() under every completion order.  Yields (perm, result | exception)."""
    with Scheduler(None) as s:
        try:
            r = fn()
        except Exception as e:  # noqa
            r = e
    n = s.num_tasks
    yield n, None, r
    if n <= 1:
        return
    for perm in itertools.permutations(range(n)):
        if perm == tuple(range(n)):
            continue
        with Scheduler(perm) as s2:
            try:
                r = fn()
            except Exception as e:  # noqa
                r = e
        yield n, perm, r


def check_sched(ts, rts, acc, case, maxk=5, real_threads=True):
    np = np_()
    samples = rts.samples
    ns = len(samples)
    pts = half_grid(rts_coords(rts, case))
    h = (ns + 1) // 2
    setlists = [None, [samples[:h], samples[h:]]]
    wins = [None, pts]
    if len(pts) > 3:
        wins.append([pts[1], pts[2], pts[-2]])
    for mode in ("branch", "site"):
        for sn in (True, False):
            for ss in setlists:
                for w in wins:
                    kw = dict(windows=w, mode=mode, span_normalise=sn)
                    try:
                        base = np.asarray(ts.divergence_matrix(ss, num_threads=0, **kw), dtype=float)
                    except Exception as e:  # noqa
                        acc.fail("sched:divmat:exception", f"num_threads=0 {kw} raised {e!r}", case)
                        continue
                    for k in range(1, maxk + 1):
                        for n, perm, r in all_schedules(
                                lambda: ts.divergence_matrix(ss, num_threads=k, **kw)):
                            acc.ev(1, n >= 2)
                            acc.count("schedules", 1)
                            what = (f"divergence_matrix({ss}, num_threads={k}, {kw}) with {n} tasks "
                                    f"completing in order {perm}")
                            if isinstance(r, Exception):
                                acc.fail("sched:divmat:exception", f"{what} raised {r!r}", case)
                                continue
                            msg, _ = mismatch(r, base, 1e-12)
                            if msg:
                                acc.fail("sched:divmat:" + ("by_window" if w is not None else "by_tree"),
                                         f"{what} differs from num_threads=0: {msg}", case)
                        if real_threads and k in (2, maxk):
                            try:
                                r = np.asarray(ts.divergence_matrix(ss, num_threads=k, **kw),
                                               dtype=float)
                                msg, _ = mismatch(r, base, 1e-12)
                            except Exception as e:  # noqa
                                msg = f"raised {e!r}"
                            acc.ev(1, True)
                            if msg:
                                acc.fail("sched:divmat:real_threads",
                                         f"divergence_matrix({ss}, num_threads={k}, {kw}) with real "
                                         f"threads: {msg}", case)
    # GNN
    focal_sets = [list(range(rts.N)), samples, samples[::-1] + [rts.N - 1]]
    refsets = [[samples[:h], samples[h:]], [[s] for s in samples]]
    for focal in focal_sets:
        for ref in refsets:
            try:
                base = np.asarray(ts.genealogical_nearest_neighbours(focal, ref), dtype=float)
            except Exception as e:  # noqa
                acc.fail("sched:gnn:exception", f"num_threads=0 raised {e!r}", case)
                continue
            for k in range(1, maxk + 1):
                for n, perm, r in all_schedules(
                        lambda: ts.genealogical_nearest_neighbours(focal, ref, num_threads=k)):
                    acc.ev(1, n >= 2)
                    acc.count("schedules", 1)
                    what = (f"genealogical_nearest_neighbours({focal}, {ref}, num_threads={k}) with "
                            f"{n} tasks completing in order {perm}")
                    if isinstance(r, Exception):
                        acc.fail("sched:gnn:exception", f"{what} raised {r!r}", case)
                        continue
                    msg, _ = mismatch(r, base, 1e-12)
                    if msg:
                        acc.fail("sched:gnn", f"{what} differs from num_threads=0: {msg}", case)
                if real_threads and k in (2, maxk):
                    try:
                        r = ts.genealogical_nearest_neighbours(focal, ref, num_threads=k)
                        msg, _ = mismatch(r, base, 1e-12)
                    except Exception as e:  # noqa
                        msg = f"raised {e!r}"
                    acc.ev(1, True)
                    if msg:
                        acc.fail("sched:gnn:real_threads", f"GNN num_threads={k} real threads: {msg}", case)


# ====================================================================== part: dedicated
def sub_windows(pts):
    """Every increasing sub-sequence of the half grid with >= 2 points (divergence_matrix
    accepts windows that do not span the whole sequence)."""
    out = []
    for k in range(2, len(pts) + 1):
        for sub in itertools.combinations(pts, k):
            out.append(list(sub))
    return out


def check_dedicated(ts, rts, acc, case, full, site_only=False, ld_only=False):
    np = np_()
    if ld_only:
        check_ld(ts, rts, acc, case)
        return
    samples = rts.samples
    ns = len(samples)
    N = rts.N
    pts = half_grid(rts_coords(rts, case))
    # ---- divergence_matrix = divergence for all pairs
    lists = sample_set_lists(samples, full)
    lists = [SS for SS in lists if len({u for A in SS for u in A}) == sum(len(A) for A in SS)]
    wl = sub_windows(pts)
    if not full and len(wl) > 12:
        wl = [w for w in wl if len(w) == 2 or len(w) >= len(pts) - 1]
    for SS in lists:
        n = [len(A) for A in SS]
        K = len(SS)
        idx = [(i, j) for i in range(K) for j in range(K)]
        counts = RS.Counts(rts, RS.indicator_weights(samples, SS))
        ev = RS.Evaluator(counts, RS.sf_divergence(n, idx), len(idx))
        flat1 = all(len(A) == 1 for A in SS)
        for mode in (("site",) if site_only else ("site", "branch")):
            for sn in (True, False):
                for w in [None] + wl:
                    W = RS.parse_windows(rts, w)
                    variants = [("sets", SS)]
                    if flat1:
                        variants.append(("flat", [A[0] for A in SS]))
                        if [A[0] for A in SS] == samples:
                            variants.append(("none", None))
                    for vname, arg in variants:
                        what = (f"divergence_matrix({arg}, windows={w}, mode={mode}, "
                                f"span_normalise={sn})")
                        try:
                            got = np.asarray(ts.divergence_matrix(arg, windows=w, mode=mode,
                                                                  span_normalise=sn), dtype=float)
                        except Exception as e:  # noqa
                            acc.ev(1, False)
                            acc.fail(f"divmat:{mode}:exception", f"{what} raised {e!r}", case)
                            continue
                        e = ev.stat(W, mode, False, sn).reshape((len(W) - 1, K, K))
                        # one-element sets: diagonal (mean over zero pairs) is not defined -> 0 or nan
                        if w is None:
                            e = e[0]
                        msg, nt = mismatch(got, e)
                        acc.ev(1, nt)
                        partial = w is not None and (w[0] != 0 or w[-1] != rts.L)
                        if msg:
                            acc.fail(f"divmat:{mode}" + (":partial_windows" if partial else ""),
                                     f"{what}: {msg}", case)
                        else:
                            d = np.where(np.isnan(e), got, 0.0)
                            if not (np.isnan(d) | (d == 0)).all():
                                acc.fail(f"divmat:{mode}:singleton_diagonal",
                                         f"{what}: diagonal of a one-element set is {d.tolist()}", case)
    if site_only:
        check_ld(ts, rts, acc, case)
        return
    # ---- genetic_relatedness_matrix, branch mode: "the value obtained is the same as that from
    # genetic_relatedness, using the options centre=True and proportion=False" (polarised default)
    for SS in lists:
        n = [len(A) for A in SS]
        K = len(SS)
        idx = [(i, j) for i in range(K) for j in range(K)]
        counts = RS.Counts(rts, RS.indicator_weights(samples, SS))
        ev = RS.Evaluator(counts, RS.sf_genetic_relatedness(n, idx, True), len(idx))
        for sn in (True, False):
            for w in (None, pts):
                what = (f"genetic_relatedness_matrix({SS}, windows={w}, mode=branch, "
                        f"span_normalise={sn})")
                try:
                    got = np.asarray(ts.genetic_relatedness_matrix(
                        SS, windows=w, mode="branch", span_normalise=sn), dtype=float)
                except Exception as e:  # noqa
                    acc.ev(1, False)
                    acc.fail("grm:exception", f"{what} raised {e!r}", case)
                    continue
                W = RS.parse_windows(rts, w)
                e = ev.stat(W, "branch", True, sn).reshape((len(W) - 1, K, K))
                if w is None:
                    e = e[0]
                msg, nt = mismatch(got, e)
                acc.ev(1, nt)
                if msg:
                    acc.fail("grm:branch", f"{what}: {msg}", case)
    # ---- GNN
    refsets = [SS for SS in lists if len(SS) >= 1]
    extra = [[[u] for u in range(N)]]  # every node a reference (non-sample references allowed)
    if N >= 2:
        extra.append([[N - 1], list(range(N - 1))])
    focal = list(range(N))
    for ref in refsets + extra:
        what = f"genealogical_nearest_neighbours({focal}, {ref})"
        try:
            got = np.asarray(ts.genealogical_nearest_neighbours(focal, ref), dtype=float)
        except Exception as e:  # noqa
            acc.ev(1, False)
            acc.fail("gnn:exception", f"{what} raised {e!r}", case)
            continue
        exp = RS.gnn(rts, focal, ref)
        e = to_arr([row if row is not None else [None] * len(ref) for row in exp])
        msg, nt = mismatch(got, e)
        acc.ev(1, nt)
        if msg:
            acc.fail("gnn:value", f"{what}: {msg}", case)
    # ---- mean_descendants
    for ref in refsets + extra:
        what = f"mean_descendants({ref})"
        try:
            got = np.asarray(ts.mean_descendants(ref), dtype=float)
        except Exception as e:  # noqa
            acc.ev(1, False)
            acc.fail("mean_descendants:exception", f"{what} raised {e!r}", case)
            continue
        e1 = to_arr(RS.mean_descendants(rts, ref, "reference"))
        e2 = to_arr(RS.mean_descendants(rts, ref, "samples"))
        m1, nt = mismatch(got, e1)
        m2, _ = mismatch(got, e2)
        acc.ev(1, nt)
        if m1 and m2:
            acc.fail("mean_descendants:value", f"{what}: {m1}", case)
        elif m2 and not m1:
            acc.count("mean_descendants_refset_denominator", 1)
    # ---- pair_coalescence_counts
    full_w = window_lists(rts_coords(rts, case), None if full else 8)
    for SS in lists:
        K = len(SS)
        idx = [(i, j) for i in range(K) for j in range(i, K)]
        for sn in (True, False):
            for pn in (False, True):
                for w in [None] + full_w:
                    what = (f"pair_coalescence_counts({SS}, indexes={idx}, windows={w}, "
                            f"span_normalise={sn}, pair_normalise={pn})")
                    try:
                        got = np.asarray(ts.pair_coalescence_counts(
                            SS, indexes=idx, windows=w, span_normalise=sn, pair_normalise=pn),
                            dtype=float)
                    except Exception as e:  # noqa
                        acc.ev(1, False)
                        acc.fail("paircoal:exception", f"{what} raised {e!r}", case)
                        continue
                    W = RS.parse_windows(rts, w)
                    msgs = []
                    nt = False
                    for cap in (False, True):
                        e = to_arr(RS.pair_coalescence_counts(rts, SS, idx, W, sn, pn, cap))
                        if w is None:
                            e = e[0]
                        msg, nt1 = mismatch(got, e)
                        nt = nt or nt1
                        msgs.append(msg)
                    # explicit time windows: the per-node counts binned by node time (first breakpoint at 0, or
                    # above some of the nodes: those coalescences are then outside every bin)
                    if not pn:
                        tms = sorted(set(rts.times))
                        mids = [(a_ + b_) / 2 for a_, b_ in zip(tms, tms[1:])]
                        tws = [[0.0, math.inf]] + [[x_, math.inf] for x_ in mids[:2]]
                        if mids:
                            tws.append([0.0, mids[0], math.inf])
                        if len(mids) >= 2:
                            tws.append([mids[0], mids[-1], math.inf])
                        for tw in tws:
                            try:
                                gt = np.asarray(ts.pair_coalescence_counts(
                                    SS, indexes=idx, windows=w, span_normalise=sn, pair_normalise=pn,
                                    time_windows=np.array(tw)), dtype=float)
                            except Exception as e:  # noqa
                                acc.fail("paircoal:time_windows:exception", f"{what} time_windows={tw} raised {e!r}", case)
                                continue
                            oks = []
                            for cap in (False, True):
                                e = to_arr(RS.pair_coalescence_counts(rts, SS, idx, W, sn, pn, cap))
                                binned = np.zeros(e.shape[:-1] + (len(tw) - 1,))
                                for u_, t_ in enumerate(rts.times):
                                    for b_ in range(len(tw) - 1):
                                        if tw[b_] <= t_ < tw[b_ + 1]:
                                            binned[..., b_] += np.nan_to_num(e[..., u_], nan=0.0) if False else e[..., u_]
                                if w is None:
                                    binned = binned[0]
                                oks.append(mismatch(gt, binned)[0])
                            acc.ev(1, nt)
                            if all(oks) and not all(msgs):
                                acc.fail("paircoal:time_windows", f"{what} time_windows={tw}: {oks[0]}", case)
                    acc.ev(1, nt)
                    if all(msgs):
                        key = "paircoal:value"
                        if sn and any(not any(l < r2 and l2 < r for l2, r2, _p, _c in rts.edges)
                                      and any(l < x < r for x in W[1:])
                                      for l, r in rts.intervals()):
                            key = "paircoal:span_normalise:window_ends_in_edgeless_tree"
                        acc.fail(key, f"{what}: {msgs[0]}", case)
    check_ld(ts, rts, acc, case)


def check_ld(ts, rts, acc, case):
    """LdCalculator r2 (sites with exactly one, non-silent mutation)."""
    if len(rts.sites) >= 2:
        import tskit
        ok = all(sum(1 for mu in rts.mutations if mu[0] == s) == 1 for s in range(len(rts.sites)))
        ok = ok and all(mu[2] != rts.sites[mu[0]][1] for mu in rts.mutations)
        if ok:
            try:
                ld = tskit.LdCalculator(ts)
                mat = ld.r2_matrix()
            except Exception as e:  # noqa
                acc.ev(1, False)
                acc.fail("ld:exception", f"LdCalculator raised {e!r}", case)
            else:
                for a in range(len(rts.sites)):
                    for b in range(len(rts.sites)):
                        if a == b:
                            continue
                        e = RS.r2(rts, a, b)
                        exp = to_arr([e])
                        for via, g in (("r2", ld.r2(a, b)), ("r2_matrix", mat[a, b])):
                            msg, nt = mismatch([g], exp)
                            acc.ev(1, nt)
                            if msg:
                                acc.fail("ld:r2", f"LdCalculator.{via}({a},{b}): {msg}", case)
                # the same site twice: defined like any other pair; a site id that does not exist is refused
                S_ = len(rts.sites)
                for a in range(S_):
                    e = RS.r2(rts, a, a)
                    try:
                        g = ld.r2(a, a)
                    except Exception as ex:  # noqa
                        acc.fail("ld:r2_same_site:exception", f"r2({a},{a}) raised {ex!r}", case)
                        continue
                    msg, nt = mismatch([g], to_arr([e]))
                    acc.ev(1, nt)
                    if msg:
                        acc.fail("ld:r2_same_site", f"LdCalculator.r2({a},{a}): {msg}", case)
                for bad in (S_, S_ + 1, -1, 2 ** 31 - 1):
                    acc.ev(1, True)
                    try:
                        g = ld.r2(bad, bad)
                    except Exception:  # noqa
                        continue
                    acc.fail("ld:r2_bad_site_accepted", f"LdCalculator.r2({bad},{bad}) with {S_} sites returned {g!r}", case)
                check_ld_histories(ts, rts, acc, case)


def check_ld_histories(ts, rts, acc, case):
    """Every two-call history on ONE LdCalculator: a first r2_array that stops early (max_sites=1) or
    runs to the end, then any r2_array; the second answer must be the one a fresh calculator gives
    (= the reference r2 values), whatever the first call left behind."""
    import tskit

    S = len(rts.sites)
    if S < 3:
        return
    calls = [(a, d, ms) for a in range(S) for d in (tskit.FORWARD, tskit.REVERSE) for ms in (None, 1)]

    def expected(a, d, ms):
        bs = list(range(a + 1, S)) if d == tskit.FORWARD else list(range(a - 1, -1, -1))
        if ms is not None:
            bs = bs[:ms]
        return to_arr([RS.r2(rts, a, b) for b in bs])

    exp = {c: expected(*c) for c in calls}
    for c1 in calls:
        for c2 in calls:
            ld = tskit.LdCalculator(ts)
            try:
                ld.r2_array(c1[0], direction=c1[1], max_sites=c1[2])
                got = ld.r2_array(c2[0], direction=c2[1], max_sites=c2[2])
            except Exception as e:  # noqa
                acc.ev(1, False)
                acc.fail("ld:history:exception", f"r2_array{c1} ; r2_array{c2} raised {e!r}", case)
                continue
            e = exp[c2]
            if len(got) != len(e):
                acc.ev(1, True)
                acc.fail("ld:history:length", f"r2_array{c1} ; r2_array{c2} returned {len(got)} values, expected {len(e)}", case)
                continue
            msg, nt = mismatch(got, e) if len(e) else (None, False)
            acc.ev(1, nt)
            if msg:
                acc.fail("ld:history:r2", f"r2_array(a, direction, max_sites) = {c1} then {c2} on the same calculator: {msg}", case)


# ====================================================================== part: LD calculator histories
LDH_SETS = [(0, 1), (0, 1, 2), (1, 2), (2, 3)]
LDH_SITE_PATTERNS = [("X", 0), ("X", "Y"), (3, "X")]


def ldhist_tables(sets, pats):
    """Four leaf samples; node 4 (X) is the parent of `sets[j]` in tree j, node 5 (Y) of the other leaves,
    node 6 the root; two sites per tree, each with one mutation over X, Y or a leaf."""
    import tskit

    G = len(sets)
    tc = tskit.TableCollection(float(5 * G))
    for _ in range(4):
        tc.nodes.add_row(flags=1, time=0)
    for t in (1, 2, 3):
        tc.nodes.add_row(flags=0, time=t)
    for j, A in enumerate(sets):
        l, r = 5.0 * j, 5.0 * j + 5
        for u in range(4):
            tc.edges.add_row(l, r, 4 if u in A else 5, u)
        tc.edges.add_row(l, r, 6, 4)
        tc.edges.add_row(l, r, 6, 5)
        for q, who in enumerate(pats[j]):
            node = {"X": 4, "Y": 5}.get(who, who)
            sid = tc.sites.add_row(position=l + 1 + q, ancestral_state="A")
            tc.mutations.add_row(site=sid, node=node, derived_state="T")
    tc.sort()
    tc.edges.squash()
    tc.sort()
    return tc


def ldhist_bases(full):
    G = 3
    for sets in itertools.product(LDH_SETS, repeat=G):
        for pats in itertools.product(LDH_SITE_PATTERNS, repeat=G):
            yield {"sets": [list(x) for x in sets], "pats": [list(x) for x in pats]}, None


def check_paircoal_time_windows(ts, rts, acc, case):
    """pair_coalescence_counts with explicit time windows = the per-node counts binned by node time, on
    genealogies whose topology changes above a persisting young node, for window lists of 1..6 windows."""
    np = np_()
    L = rts.L
    tms = sorted(set(rts.times))
    mids = [(a + b) / 2 for a, b in zip(tms, tms[1:])]
    tws = [[0.0, math.inf]] + [[x, math.inf] for x in mids] + [[0.0, mids[0], math.inf], [mids[0], mids[-1], math.inf]]
    bps = sorted({l for l, _ in rts.intervals()} | {L})
    wlists = [None, [0.0, L], bps, sorted(set(bps) | {(a + b) / 2 for a, b in zip(bps, bps[1:])})]
    S = rts.samples
    for SS, idx in (([S], [(0, 0)]), ([S[:2], S[2:]], [(0, 1), (0, 0), (1, 1)])):
        for w in wlists:
            W = RS.parse_windows(rts, w)
            for sn in (False, True):
                refs = [to_arr(RS.pair_coalescence_counts(rts, SS, idx, W, sn, False, cap)) for cap in (False, True)]
                for tw in tws:
                    what = f"pair_coalescence_counts({SS}, indexes={idx}, windows={w}, span_normalise={sn}, time_windows={tw})"
                    try:
                        got = np.asarray(ts.pair_coalescence_counts(SS, indexes=idx, windows=w, span_normalise=sn,
                                                                    time_windows=np.array(tw)), dtype=float)
                    except Exception as e:  # noqa
                        acc.ev(1, False)
                        acc.fail("paircoal:time_windows:exception", f"{what} raised {e!r}", case)
                        continue
                    msgs = []
                    nt = False
                    for e in refs:
                        binned = np.zeros(e.shape[:-1] + (len(tw) - 1,))
                        for u, t in enumerate(rts.times):
                            for b in range(len(tw) - 1):
                                if tw[b] <= t < tw[b + 1]:
                                    binned[..., b] += e[..., u]
                        if w is None:
                            binned = binned[0]
                        m, nt1 = mismatch(got, binned)
                        msgs.append(m)
                        nt = nt or nt1
                    acc.ev(1, nt)
                    if all(msgs):
                        acc.fail("paircoal:time_windows", f"{what}: {msgs[0]}", case)


def check_ldhist(desc, tc, acc):
    tc = ldhist_tables([tuple(x) for x in desc["sets"]], [tuple(x) for x in desc["pats"]])
    case = {"part": "ldhist", "desc": desc}
    acc.enter(case)
    try:
        ts = tc.tree_sequence()
    except Exception as e:  # noqa
        raise RuntimeError(f"harness: ldhist base does not load: {e!r}")
    rts = RefTS.from_tables(tc)
    check_ld_histories(ts, rts, acc, case)
    check_paircoal_time_windows(ts, rts, acc, case)


# ====================================================================== part: tree distances
def check_dist(spec, acc):
    import tskit
    np = np_()
    b = spec["b"]
    members = list(U.enumerate_members(**b))
    valid = []
    for m in members:
        if len(m.samples) < 2:
            continue
        rts = RefTS(m.times, m.flags, m.edges(), m.L)
        trees = rts.trees()
        if all(RS.kc_valid(t) for t in trees):
            valid.append((m, rts))
    acc.count("kc_valid_members", len(valid))
    groups = {}
    for m, rts in valid:
        groups.setdefault(tuple(m.flags), []).append((m, rts))
    pairs = []
    for fl, lst in groups.items():
        for i in range(len(lst)):
            for j in range(len(lst)):
                pairs.append((lst[i], lst[j]))
    for (m1, r1), (m2, r2) in U.shard(iter(pairs), spec["k"], spec["n"]):
        case = {"part": "dist", "member": m1.desc(), "other": m2.desc()}
        dist_pair(m1, r1, m2, r2, acc, case)


def sample_above_sample(rt):
    S = set(rt.rts.samples)
    return any(a in S for s in S for a in rt.ancestors(s)[1:])


def dist_pair(m1, r1, m2, r2, acc, case):
    """kc: Tree.kc_distance against the Kendall-Colijn vectors (trees in which no sample is an
    ancestor of another sample: the metric is defined on tips); TreeSequence.kc_distance
    against its docstring, the overlap-weighted average of Tree.kc_distance (real values)."""
    acc.enter(case)
    ts1, ts2 = m1.ts(), m2.ts()
    trees1 = {t.interval.left: t for t in ts1.aslist(sample_lists=True)}
    trees2 = {t.interval.left: t for t in ts2.aslist(sample_lists=True)}
    bps = sorted(set(r1.breakpoints()) | set(r2.breakpoints()))
    nested = any(sample_above_sample(t) for t in r1.trees() + r2.trees())
    sample_root = any(t.roots(1)[0] in r.samples for r in (r1, r2) for t in r.trees())
    for lam in (0.0, 0.5, 1.0):
        try:
            got = ts1.kc_distance(ts2, lam)
        except Exception as e:  # noqa
            acc.ev(1, False)
            acc.fail("kc:ts:exception", f"kc_distance lambda={lam} raised {e!r}", case)
            continue
        avg = 0.0
        for l, r in zip(bps[:-1], bps[1:]):
            t1 = trees1[max(x for x in trees1 if x <= l)]
            t2 = trees2[max(x for x in trees2 if x <= l)]
            avg += t1.kc_distance(t2, lam) * (r - l)
        avg /= m1.L
        acc.ev(1, avg > 0)
        if abs(got - avg) > 1e-9 * max(1.0, avg):
            acc.fail("kc:ts:vs_tree_average" + (":internal_sample" if (sample_root or nested) else ""),
                     f"TreeSequence.kc_distance lambda={lam} = {got} but the overlap-weighted "
                     f"average of Tree.kc_distance is {avg}", case)
        # Trees in which a sample is an ancestor of another sample are NOT judged against the vector
        # definition: there the per-tree algorithm, the tree-sequence algorithm and the naive reading of
        # "internal samples are treated identically to sample tips" give three different answers on the
        # unchanged tree (see the known finding kc:ts:vs_tree_average:internal_sample).
        if not nested:
            exp = RS.kc_distance_ts(r1, r2, lam)
            acc.ev(1, exp > 0)
            if abs(avg - exp) > 1e-9 * max(1.0, exp):
                acc.fail("kc:tree", f"average Tree.kc_distance lambda={lam} = {avg} expected {exp}",
                         case)
    if m1.G == 1:
        t1, t2 = ts1.first(sample_lists=True), ts2.first(sample_lists=True)
        rt1, rt2 = r1.tree_at(0), r2.tree_at(0)
        # rf: skip trees with sample-less subtrees (an empty clade is not a bipartition)
        dead = any(not rt.samples_below(u) for rt in (rt1, rt2) for u in rt.nodes_in_tree(1))
        if not dead:
            try:
                got = t1.rf_distance(t2)
            except Exception as e:  # noqa
                acc.ev(1, False)
                acc.fail("rf:exception", f"rf_distance raised {e!r}", case)
            else:
                exp = RS.rf_distance(rt1, rt2)
                acc.ev(1, exp > 0)
                if got != exp:
                    acc.fail("rf:value", f"rf_distance = {got} expected {exp}", case)


# ====================================================================== enumeration
def members_2s(b):
    for m in U.enumerate_members(**b):
        if len(m.samples) >= 2:
            yield m


def single_site_placements(m, max_muts, states, positions=None):
    """One site at each position x every <= max_muts mutation list (canonical valid order)."""
    yield from (pl for pl in MU.enumerate_placements(m, 1, max_muts, states, positions) if pl)


def two_site_placements(m, states=("1",)):
    """Two sites at every pair of positions, one mutation each."""
    pos = MU.site_positions(m)
    alphabet = [(u, s) for u in range(m.N) for s in states]
    for x, y in itertools.combinations(pos, 2):
        for a in alphabet:
            for b in alphabet:
                yield [(x, "0", [a]), (y, "0", [b])]


def rich_placement(m):
    """A fixed placement touching every position: used where sites are only context."""
    pos = MU.site_positions(m)
    pl = []
    for j, x in enumerate(pos):
        ml = [(j % m.N, "1")]
        if j % 3 == 1:
            ml.append(((j + 1) % m.N, "2"))
        if j % 4 == 3:
            ml = [(j % m.N, "1"), (j % m.N, "0")]
        pl.append((x, "0", ml))
    # mutation lists must be in non-decreasing depth order per site: add_sites sorts them
    return pl


def placements_for(m, scheme):
    if scheme == "none":
        return [[]]
    if scheme == "rich":
        return [rich_placement(m)]
    if scheme == "one2":       # 1 site, <= 2 mutations, states 0/1/2, all positions
        return list(single_site_placements(m, 2, ("0", "1", "2")))
    if scheme == "one2mid":    # as one2 but only first cell's two positions
        return list(single_site_placements(m, 2, ("0", "1", "2"), MU.site_positions(m)[:2]))
    if scheme == "one2at1":    # as one2 but only at the first cell's midpoint
        return list(single_site_placements(m, 2, ("0", "1", "2"), MU.site_positions(m)[1:2]))
    if scheme == "one1":
        return list(single_site_placements(m, 1, ("1", "2")))
    if scheme == "two1":
        return list(two_site_placements(m))
    if scheme == "one3":       # 1 site at the first midpoint, <= 3 mutations
        return list(single_site_placements(m, 3, ("0", "1", "2"), MU.site_positions(m)[1:2]))
    if scheme == "emptyalleles":   # zero-length allele strings, reached more than once at the site
        pos = MU.site_positions(m)[1:2]
        out = []
        for anc in ("", "G"):
            out += [pl for pl in MU.enumerate_placements(m, 1, 3, ("", "G"), pos, ancestral=anc) if pl]
        return out
    if scheme == "ld3":        # one mutation on every half-grid position, every assignment of nodes
        pos = MU.site_positions(m)
        return [[(x, "0", [(u, "1")]) for x, u in zip(pos, nodes)] for nodes in itertools.product(range(m.N), repeat=len(pos))]
    if scheme == "ld3x":       # as ld3 with the node alphabet {oldest node, node 0}
        pos = MU.site_positions(m)
        return [[(x, "0", [(u, "1")]) for x, u in zip(pos, nodes)]
                for nodes in itertools.product((m.N - 1, 0), repeat=len(pos))]
    if scheme == "mixed":      # for named/dedicated: a few single and double placements
        out = [rich_placement(m)]
        out += list(single_site_placements(m, 2, ("0", "1"), MU.site_positions(m)[1:2]))
        return out
    raise ValueError(scheme)


def bounds(tier):
    return {"tier": tier, "plan": [dict(p, b=_b_pickle(p["b"])) for p in _plan(tier)]}


def _plan(tier):
    """(part, universe bounds, placement scheme, options, members per shard)"""
    P = []

    def add(part, b, scheme="none", per=50, **opt):
        P.append(dict(part=part, b=b, scheme=scheme, per=per, opt=opt))

    if tier == "quick":
        # general stat, branch + node
        for n, g in ((2, 1), (2, 2), (2, 3), (3, 1), (3, 2)):
            add("gen", dict(N=n, G=g), per=40, modes=["branch", "node"])
        add("gen", dict(N=4, G=1), per=40, modes=["branch", "node"])
        add("gen", dict(N=3, G=3, flags="allsamples"), per=30, modes=["branch", "node"], wlimit=12)
        add("gen", dict(N=4, G=2, flags="allsamples"), per=40, modes=["branch", "node"])
        add("gen", dict(N=3, G=2, times="weak", grid="frac", timescale="quarter", flags="allsamples"),
            per=60, modes=["branch", "node"])
        # general stat, site
        add("gen", dict(N=2, G=2), "one2", per=2, modes=["site"])
        add("gen", dict(N=3, G=1), "one2", per=2, modes=["site"])
        add("gen", dict(N=3, G=2, flags="allsamples"), "two1", per=2, modes=["site"])
        add("gen", dict(N=3, G=2, flags="allsamples"), "one1", per=2, modes=["site"])
        add("gen", dict(N=4, G=1, flags="allsamples"), "one2at1", per=1, modes=["site"])
        add("gen", dict(N=3, G=1, flags="allsamples"), "one3", per=1, modes=["site"])
        add("gen", dict(N=3, G=1, flags="allsamples"), "emptyalleles", per=1, modes=["site"])
        # named statistics
        add("named", dict(N=2, G=2), "mixed", per=1, modes=["site"])
        add("named", dict(N=2, G=2), "rich", per=2)
        add("named", dict(N=3, G=1, flags="allsamples"), "mixed", per=1, modes=["site"])
        add("named", dict(N=3, G=1), "rich", per=8)
        add("named", dict(N=3, G=2), "rich", per=6)
        add("named", dict(N=4, G=1, flags=_flags_n4), "rich", per=2)
        add("named", dict(N=5, G=1, flags="allsamples"), "rich", per=6, modes=["site", "branch"])
        # schedules
        add("sched", dict(N=3, G=3, flags="allsamples"), "rich", per=12, maxk=4)
        add("sched", dict(N=3, G=2), "rich", per=12, maxk=4)
        add("sched5", None, "rich", per=4)
        # dedicated
        add("ded", dict(N=3, G=1), "mixed", per=4, site_only=True)
        add("ded", dict(N=3, G=1), "rich", per=12)
        add("ded", dict(N=3, G=2), "rich", per=12)
        add("ded", dict(N=4, G=1), "rich", per=20)
        add("ded", dict(N=3, G=3, flags="allsamples"), "rich", per=12)
        add("ded", dict(N=3, G=2), "two1", per=12, ld_only=True)
        add("ded", dict(N=4, G=1), "two1", per=40, ld_only=True)
        add("ded", dict(N=3, G=2, flags="allsamples"), "ld3", per=2, ld_only=True)
        add("ded", dict(N=4, G=2, flags=_flags_first3), "ld3x", per=8, ld_only=True)
        add("dist", dict(N=4, G=1), per=None, nsh=2)
        add("dist", dict(N=5, G=1), per=None, nsh=6)
        add("dist", dict(N=5, G=2, flags=_flags_first3), per=None, nsh=12)
    else:
        for n, g in ((2, 1), (2, 2), (2, 3), (3, 1), (3, 2), (3, 3)):
            add("gen", dict(N=n, G=g, times="weak"), per=240 if g < 3 else 120,
                modes=["branch", "node"], wlimit=12 if g == 3 else None)
        add("gen", dict(N=4, G=1, times="weak"), per=1500, modes=["branch", "node"])
        add("gen", dict(N=4, G=2), per=400, modes=["branch", "node"])
        add("gen", dict(N=5, G=1), per=800, modes=["branch", "node"])
        add("gen", dict(N=3, G=2, times="weak", grid="frac", timescale="big"), per=240,
            modes=["branch", "node"])
        add("gen", dict(N=2, G=2), "one2", per=1, modes=["site"])
        add("gen", dict(N=3, G=1), "one2", per=6, modes=["site"])
        add("gen", dict(N=3, G=2), "one2", per=2, modes=["site"])
        add("gen", dict(N=3, G=2), "two1", per=8, modes=["site"])
        add("gen", dict(N=4, G=1), "one2mid", per=6, modes=["site"])
        add("gen", dict(N=3, G=1), "one3", per=2, modes=["site"])
        add("gen", dict(N=3, G=2, flags="allsamples"), "emptyalleles", per=1, modes=["site"])
        add("named", dict(N=3, G=1, flags="allsamples"), "emptyalleles", per=1, modes=["site"])
        add("gen", dict(N=3, G=3, flags="allsamples"), "one1", per=4, modes=["site"], wlimit=12)
        add("named", dict(N=2, G=2), "one2", per=1, full=True, modes=["site"])
        add("named", dict(N=2, G=2), "rich", per=2, full=True)
        add("named", dict(N=3, G=1), "mixed", per=2, full=True, modes=["site"])
        add("named", dict(N=3, G=1), "rich", per=8, full=True)
        add("named", dict(N=3, G=2, flags="allsamples"), "mixed", per=1, full=True, modes=["site"])
        add("named", dict(N=3, G=2), "rich", per=8, full=True)
        add("named", dict(N=4, G=1, flags="allsamples"), "mixed", per=1, modes=["site"])
        add("named", dict(N=4, G=1), "rich", per=6, full=True)
        add("named", dict(N=4, G=2, flags="allsamples"), "rich", per=12)
        add("named", dict(N=3, G=3, flags="allsamples"), "rich", per=8)
        add("named", dict(N=5, G=1, flags="allsamples"), "rich", per=4)
        add("sched", dict(N=3, G=3), "rich", per=36, maxk=4)
        add("sched", dict(N=4, G=2, flags="allsamples"), "rich", per=24, maxk=4)
        add("sched5", None, "rich", per=8, big=True)
        add("ded", dict(N=3, G=1), "one2", per=4, full=True, site_only=True)
        add("ded", dict(N=3, G=1), "rich", per=12, full=True)
        add("ded", dict(N=3, G=2), "mixed", per=4, full=True, site_only=True)
        add("ded", dict(N=3, G=2), "rich", per=8, full=True)
        add("ded", dict(N=4, G=1), "mixed", per=8, full=True, site_only=True)
        add("ded", dict(N=4, G=1), "rich", per=20, full=True)
        add("ded", dict(N=4, G=2), "rich", per=120)
        add("ded", dict(N=3, G=3, times="weak", flags="allsamples"), "rich", per=60)
        add("ded", dict(N=3, G=2, times="weak"), "two1", per=240, ld_only=True)
        add("ded", dict(N=4, G=1, times="weak"), "two1", per=1500, ld_only=True)
        add("ded", dict(N=4, G=2, flags="allsamples"), "two1", per=100, ld_only=True)
        add("ded", dict(N=3, G=2), "ld3", per=4, ld_only=True)
        add("ded", dict(N=4, G=2, flags=_flags_first3), "ld3x", per=8, ld_only=True)
        add("dist", dict(N=4, G=1, times="weak"), per=None, nsh=8)
        add("dist", dict(N=5, G=1), per=None, nsh=2)
        add("dist", dict(N=5, G=2, flags=_flags_first3), per=None, nsh=8)
        add("dist", dict(N=5, G=2, flags=_flags_int), per=None, nsh=8)
    return P


def _flags_first3(N, ranks, cells):
    return [tuple([1, 1, 1] + [0] * (N - 3))]


def _flags_n4(N, ranks, cells):
    return [(1, 1, 1, 1), (1, 1, 1, 0), (0, 1, 1, 1), (1, 0, 1, 0)]


def _flags_int(N, ranks, cells):
    return [tuple([1, 1, 0, 1] + [0] * (N - 4))]


FLAGFN = {"_flags_first3": _flags_first3, "_flags_int": _flags_int, "_flags_n4": _flags_n4}


def _b_pickle(b):
    if b is None:
        return None
    b = dict(b)
    if callable(b.get("flags")):
        b["flags"] = "@" + b["flags"].__name__
    return b


def _b_unpickle(b):
    if b is None:
        return None
    b = dict(b)
    if isinstance(b.get("flags"), str) and b["flags"].startswith("@"):
        b["flags"] = FLAGFN[b["flags"][1:]]
    return b


def sched5_members(big):
    """G=5 members (N=3, all samples): every sequence of cells over three (quick) or all six
    (thorough: adjacent cells differ) parent vectors, so that up to 5 trees / tasks exist."""
    pv = U.parent_vectors((0, 1, 2))
    base = pv if big else [pv[1], pv[4], pv[5]]
    out = []
    for cells in itertools.product(base, repeat=5):
        if all(a != b for a, b in zip(cells[:-1], cells[1:])):
            out.append(U.Member(3, 5, (0, 1, 2), cells, (1, 1, 1)))
    if big:
        out = out[::5]
    return out


def _count(b):
    if b is None:
        return 0
    fl = b.get("flags", "all")
    kw = dict(times=b.get("times", "id"))
    structures = U.count_members(b["N"], b["G"], flags="one", **kw)
    if fl == "all":  # flag subsets with >= 2 samples
        return structures * (2 ** b["N"] - b["N"] - 1)
    if callable(fl):
        return structures * len(fl(b["N"], None, None))
    return structures


def shards(tier, seed):
    import os
    only = os.environ.get("C08_PARTS")  # development aid: run a subset of the parts
    specs = []
    for p in _plan(tier):
        part = p["part"]
        if only and part not in only.split(","):
            continue
        if part == "dist":
            for k in range(p["opt"]["nsh"]):
                specs.append(dict(part=part, b=_b_pickle(p["b"]), k=k, n=p["opt"]["nsh"]))
            continue
        if part == "sched5":
            cnt = len(sched5_members(p["opt"].get("big", False)))
        else:
            cnt = _count(p["b"])
        n = max(1, -(-cnt // p["per"]))
        for k in range(n):
            specs.append(dict(part=part, b=_b_pickle(p["b"]), scheme=p["scheme"], opt=p["opt"],
                              k=k, n=n))
    if not only or "ldhist" in only.split(","):
        nl = 16 if tier == "quick" else 48
        for k in range(nl):
            specs.append(dict(part="ldhist", b=_b_pickle({}), k=k, n=nl, full=tier != "quick"))
    if not only or "tsan" in only.split(","):
        # free-running real-thread pass under the ThreadSanitizer build (see mc/tsan_pass.py)
        for (N, G) in ((3, 2), (4, 1)) if tier == "quick" else ((3, 2), (4, 1), (3, 3), (4, 2)):
            specs.append(dict(part="tsan", N=N, G=G, b=_b_pickle({})))
    return specs


# ====================================================================== driver
def check_case(part, m, placement, opt, acc):
    case = {"part": part, "member": m.desc(), "placement": placement_desc(placement), "opt": opt}
    acc.enter(case)
    ts, rts = build(m, placement, allow_uncalibrated=part == "gen")
    modes = opt.get("modes", ["site", "branch", "node"])
    if ts.time_units == "uncalibrated":
        import tskit

        if "branch" in modes:
            acc.ev(1, True)
            try:
                ts.diversity(mode="branch")
                acc.fail("uncalibrated:branch_accepted", "branch-mode diversity on time_units='uncalibrated' did not raise", case)
            except tskit.LibraryError:
                pass
        modes = [x for x in modes if x != "branch"]
        acc.count("uncalibrated_members")
        if not modes:
            return
    full = bool(opt.get("full"))
    if part == "gen":
        check_general(ts, rts, modes, acc, case, opt.get("wlimit"),
                      with_sites_windows=("site" in modes))
    elif part == "named":
        for SS in sample_set_lists(rts.samples, full):
            check_named(ts, rts, SS, modes, acc, case, full)
        check_weighted(ts, rts, modes, acc, case, full)
        check_trait(ts, rts, modes, acc, case, full)
    elif part in ("sched", "sched5"):
        check_sched(ts, rts, acc, case, maxk=opt.get("maxk", 5))
    elif part == "ded":
        check_dedicated(ts, rts, acc, case, full, bool(opt.get("site_only")), bool(opt.get("ld_only")))
    else:
        raise ValueError(part)
    acc.sample({"part": part, "member": m.desc(), "placement": placement_desc(placement)[:2]})


def tsan_pass(spec, acc):
    """Free-running pass of the threaded statistics under the ThreadSanitizer build (see mc/tsan_pass.py)."""
    import os
    import re
    import subprocess

    from .. import build as B

    case = {"kind": "tsan", "N": spec["N"], "G": spec["G"]}
    acc.enter(case)
    env = dict(os.environ)
    env.update(B.sanitizer_env("tsan"))
    env.pop("VERIF_BUILD_DIR_PLAIN", None)
    r = subprocess.run([B.PY, "-m", "mc.tsan_pass", str(spec["N"]), str(spec["G"])], cwd=B.VERIF, env=env,
                       capture_output=True, text=True, timeout=1200)
    m = re.search(r"TSAN-PASS-DONE (\d+)", r.stdout)
    calls = int(m.group(1)) if m else 0
    acc.ev(max(calls, 1), nontrivial=calls > 0)
    acc.count("tsan_threaded_calls", calls)
    races = re.findall(r"WARNING: ThreadSanitizer: data race.*?(?=\n\n|\Z)", r.stderr, flags=re.S)
    ours = [x for x in races if "/c/tskit/" in x or "_tskitmodule" in x or "kastore" in x]
    for x in ours[:3]:
        fn = re.search(r"#0 (\w+) ", x)
        acc.fail("tsan:data_race:" + (fn.group(1) if fn else "unknown"), x[:1500], case)
    if not m:
        acc.fail("tsan:pass_failed", (r.stdout + r.stderr)[-1500:], case)
    acc.sample({"tsan_pass": case, "threaded_calls": calls, "race_reports_in_tskit": len(ours)})


def run_shard(spec):
    acc = Acc()
    part = spec["part"]
    if part == "tsan":
        tsan_pass(spec, acc)
        return acc.result()
    if part == "ldhist":
        for i, (desc, tc) in enumerate(ldhist_bases(bool(spec.get("full")))):
            if i % spec["n"] == spec["k"]:
                check_ldhist(desc, tc, acc)
        return acc.result()
    b = _b_unpickle(spec["b"])
    if part == "dist":
        check_dist(dict(spec, b=b), acc)
        return acc.result()
    if part == "sched5":
        gen = iter(sched5_members(spec["opt"].get("big", False)))
    else:
        gen = members_2s(b)
    for m in U.shard(gen, spec["k"], spec["n"]):
        for pl in placements_for(m, spec["scheme"]):
            check_case(part, m, pl, spec["opt"], acc)
    return acc.result()


def replay(case):
    if case.get("kind") == "tsan":
        acc = Acc()
        tsan_pass(case, acc)
        return acc.failures
    acc = Acc()
    if case.get("part") == "ldhist":
        check_ldhist(case["desc"], None, acc)
        return acc.failures
    m = U.Member.from_desc(case["member"])
    if case["part"] == "dist":
        m2 = U.Member.from_desc(case["other"])
        r1 = RefTS(m.times, m.flags, m.edges(), m.L)
        r2 = RefTS(m2.times, m2.flags, m2.edges(), m2.L)
        dist_pair(m, r1, m2, r2, acc, case)
        return acc.failures
    check_case(case["part"], m, placement_from_desc(case["placement"]), case.get("opt", {}), acc)
    return acc.failures
