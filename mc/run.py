"""CLI:  python -m mc.run CNN [--tier quick|thorough] [--replay FILE]

Exit 0: property held on everything explored (KNOWN-FINDING lines possible).
Exit 1: at least one `VIOLATION property=CNN replay=<path>` line was printed.
Exit 2: harness error (never a VIOLATION line).
"""
import argparse
import hashlib
import importlib
import json
import os
import re
import subprocess
import sys
import time

from . import build as _build

VERIF = _build.VERIF
REPLAY_DIR = os.path.join(VERIF, "replays")
EVIDENCE_DIR = os.path.join(VERIF, "evidence")
KNOWN = os.path.join(VERIF, "known_findings.json")


def load_known(prop):
    try:
        with open(KNOWN) as f:
            data = json.load(f)
    except FileNotFoundError:
        return []
    return [k for k in data.get("findings", []) if k["property"] == prop]


def match_known(known, failure):
    for k in known:
        if re.fullmatch(k["match"], failure["key"]):
            return k
    return None


def crash_signature(text):
    """A stable name for a crash: sanitizer summary site, failed library assertion, or hang."""
    m = re.search(r"SUMMARY: \w+Sanitizer: ([\w-]+) \S+ in (\w+)", text)
    if m:
        return f"{m.group(1)}:{m.group(2)}"
    m = re.search(r"([\w/\.]+):(\d+):\d+: runtime error: ([^\n]{0,60})", text)
    if m:
        return f"ubsan:{os.path.basename(m.group(1))}:{m.group(3).strip()[:40]}"
    m = re.search(r"Bug detected in (\S+) at line (\d+)", text)
    if m:
        return f"bug_assert:{os.path.basename(m.group(1))}:{m.group(2)}"
    return None


def write_replay(prop, failure):
    os.makedirs(REPLAY_DIR, exist_ok=True)
    blob = json.dumps({"property": prop, **failure}, sort_keys=True, default=str, indent=1)
    h = hashlib.sha256(blob.encode()).hexdigest()[:12]
    path = os.path.join(REPLAY_DIR, f"{prop}-{h}.json")
    with open(path, "w") as f:
        f.write(blob)
    return path


def do_replay(prop, path):
    mod = importlib.import_module(f"mc.props.{prop.lower()}")
    from . import env

    env.setup(getattr(mod, "VARIANT", "plain"))
    with open(path) as f:
        rec = json.load(f)
    try:
        fails = mod.replay(rec["case"])
    except Exception as e:  # the implementation raised where the module expects a value
        import traceback

        fails = [{"key": f"exception:{type(e).__name__}", "what": traceback.format_exc()[-1500:]}]
    same = [x for x in fails if x["key"] == rec["key"]]
    for x in fails:
        print(f"replay: {x['key']}: {x['what']}")
    if same or (rec["key"].startswith("crash") and any(x["key"].startswith("crash") for x in fails)):
        print(f"VIOLATION property={prop} replay={path}")
        return 1
    if isinstance(rec.get("shard"), dict) and not rec["key"].startswith("crash"):
        # not reproducible from the single case: the failure may depend on the calls made earlier on the
        # same objects; re-run the whole shard (deterministic) in this fresh process
        print("replay: single case did not reproduce; re-running its shard")
        try:
            res = mod.run_shard(dict(rec["shard"]))
            fails = res.get("failures", [])
        except Exception as e:  # noqa
            import traceback

            fails = [{"key": f"exception:{type(e).__name__}", "what": traceback.format_exc()[-1500:]}]
        if any(x["key"] == rec["key"] for x in fails):
            print(f"replay (whole shard): {rec['key']} reproduced")
            print(f"VIOLATION property={prop} replay={path}")
            return 1
    print("replay: no failure reproduced")
    return 0


def confirm(prop, variant, path, timeout=1800):
    """Re-execute a failing case in a fresh process. True iff it fails again."""
    env = dict(os.environ)
    env.update(_build.sanitizer_env(variant))
    env["PYTHONHASHSEED"] = "0"
    try:
        r = subprocess.run(
            [_build.PY, "-m", "mc.run", prop, "--replay", path],
            cwd=VERIF, env=env, capture_output=True, text=True, timeout=timeout,
        )
    except subprocess.TimeoutExpired:
        return True, "replay hangs"
    if r.returncode == 1:
        return True, r.stdout[-500:]
    if r.returncode < 0 or r.returncode not in (0, 1, 2):
        return True, f"replay process died with status {r.returncode}: {r.stderr[-800:]}"
    return False, r.stdout[-500:] + r.stderr[-500:]


def main(argv=None):
    ap = argparse.ArgumentParser()
    ap.add_argument("prop")
    ap.add_argument("--tier", default=os.environ.get("VERIF_TIER", "quick"))
    ap.add_argument("--replay")
    ap.add_argument("--workers", type=int, default=None)
    ap.add_argument("--no-evidence", action="store_true")
    args = ap.parse_args(argv)
    prop = args.prop.upper()
    if args.replay:
        return do_replay(prop, args.replay)
    tier = args.tier if args.tier in ("quick", "thorough") else "quick"
    seed = int(os.environ.get("VERIF_SEED", "0") or 0)
    t0 = time.time()
    mod = importlib.import_module(f"mc.props.{prop.lower()}")
    variant = getattr(mod, "VARIANT", "plain")
    try:
        bdir = _build.build(variant)
    except Exception as e:
        print(f"HARNESS-ERROR: build failed: {e}", file=sys.stderr)
        return 2
    os.environ["VERIF_BUILD_DIR_" + variant.upper()] = bdir
    from . import pool

    specs = mod.shards(tier, seed)
    import random

    random.Random(seed).shuffle(specs)
    results = pool.run_shards(prop, variant, specs, tier, seed, nworkers=args.workers,
                              shard_timeout=getattr(mod, "SHARD_TIMEOUT", 1500))
    evals = nontrivial = suppressed = 0
    counters = {}
    samples = []
    failures = []
    harness_errors = []
    for sid, res in results:
        if "crash" in res:
            case = None
            try:
                case = json.loads(res.get("journal", "").strip() or "null")
            except Exception:
                case = {"journal": res.get("journal", "")}
            ckey = "crash"
            sig = crash_signature(res["crash"] + " " + res.get("stderr", ""))
            if sig:
                # the failing site reported by the sanitizer / assertion identifies the defect
                ckey = "crash:" + sig
            elif isinstance(case, dict) and case.get("_key"):
                ckey = "crash:" + str(case["_key"])
            failures.append({
                "key": ckey, "case": case if case is not None else {"shard": res.get("spec")},
                "what": res["crash"] + " | " + res.get("stderr", "")[-1500:],
            })
            continue
        if "harness_error" in res:
            harness_errors.append(res)
            continue
        evals += res["evals"]
        nontrivial += res["nontrivial"]
        suppressed += res.get("suppressed", 0)
        for k, v in res.get("counters", {}).items():
            if isinstance(v, (int, float)):
                counters[k] = counters.get(k, 0) + v
        if len(samples) < 6:
            samples.extend(res["samples"][:2])
        for f in res["failures"]:
            # remember which shard produced it: a failure that depends on the calls made before it in the
            # shard (caches, reused objects) is confirmed by re-running the shard, see do_replay
            try:
                f.setdefault("shard", {k: v for k, v in specs[sid].items() if k not in ("_skip",)})
            except Exception:  # noqa
                pass
            failures.append(f)
    # de-duplicate failures per key
    known = load_known(prop)
    perkey = {}
    for f in failures:
        perkey.setdefault(f["key"], []).append(f)
    nviol = 0
    nknown = 0
    printed_known = set()
    for key in sorted(perkey):
        fl = perkey[key]
        f = fl[0]
        k = match_known(known, f)
        if k is not None:
            if k["match"] not in printed_known:
                printed_known.add(k["match"])
                print(f"KNOWN-FINDING: property={prop} {k['what']} [{len(fl)} case(s), e.g. key={key}]")
            nknown += 1
            continue
        if nviol >= 25:
            nviol += 1
            continue
        # confirm in a fresh process; several records of the same key may exist (different shards)
        ok = False
        for cand in fl[:4]:
            path = write_replay(prop, cand)
            ok, msg = confirm(prop, variant, path)
            if ok:
                f = cand
                break
        if not ok:
            harness_errors.append({"harness_error": f"failure did not reproduce: {key}: {f['what']} :: {msg}"})
            continue
        nviol += 1
        print(f"VIOLATION property={prop} replay={path}")
        print(f"  key={key}\n  what={f['what'][:1500]}")
    wall = time.time() - t0
    if not args.no_evidence:
        os.makedirs(EVIDENCE_DIR, exist_ok=True)
        level = getattr(mod, "LEVEL", "exploration")
        cov = {
            "evaluations": evals,
            "distinct_nontrivial": nontrivial,
            "rule": getattr(mod, "RULE", ""),
            "samples": samples[:6] or ["<none>"],
            "exhaustive": bool(getattr(mod, "EXHAUSTIVE", True)) and not harness_errors
            and not any("crash" in r for _, r in results),
            "shards": len(specs),
            "counters": counters,
            "bounds": mod.bounds(tier) if hasattr(mod, "bounds") else {},
            "known_findings_matched": nknown,
            "failures_suppressed_duplicates": suppressed,
            "c_build": os.path.basename(bdir),
            "py_source_hash": _build.python_source_hash(),
        }
        if level == "model_checking":
            cov["states"] = int(counters.get("states", 0))
            cov["transitions"] = int(counters.get("transitions", 0))
            cov["traces_validated_against_impl"] = int(
                counters.get("traces_validated", counters.get("transitions", 0)))
        ev = {
            "property_id": prop, "tier": tier, "seed": seed, "level": level,
            "coverage": cov,
            "assumptions": list(getattr(mod, "ASSUMPTIONS", [])),
            "wall_s": round(wall, 2), "violations": nviol,
        }
        with open(os.path.join(EVIDENCE_DIR, f"{prop}.json"), "w") as f:
            json.dump(ev, f, indent=1, default=str)
    print(f"{prop} tier={tier} seed={seed} evaluations={evals} nontrivial={nontrivial} "
          f"violations={nviol} known={nknown} wall={wall:.1f}s "
          + " ".join(f"{k}={v}" for k, v in sorted(counters.items())))
    if harness_errors:
        for h in harness_errors[:5]:
            print("HARNESS-ERROR:", h["harness_error"][-3000:], file=sys.stderr)
        if nviol == 0:
            return 2
    return 1 if nviol else 0


if __name__ == "__main__":
    sys.exit(main())
