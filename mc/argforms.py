"""Array-valued arguments in the forms a caller can legitimately pass them.

The CPython glue converts every array argument with PyArray_FROMANY; a wrong flag there
(no forced copy of a strided view, wrong dtype cast) is invisible to lists and fresh arrays.
``array_forms(values)`` yields (name, object) pairs that all denote the same sequence."""


def array_forms(values, dtype="int32", wide="int64"):
    import numpy as np

    values = list(values)
    n = len(values)
    base = np.array(values, dtype=dtype)
    yield "tuple", tuple(values)
    # every second element of a longer buffer (positive stride != itemsize)
    buf = np.full(2 * n + 1, -7 if np.issubdtype(base.dtype, np.signedinteger) else 0, dtype=dtype)
    buf[:2 * n:2] = base
    yield "strided", buf[:2 * n:2]
    # negative stride
    yield "reversed-view", np.array(values[::-1], dtype=dtype)[::-1]
    # a column of a C-ordered 2-D array
    two = np.zeros((n, 2), dtype=dtype)
    two[:, 1] = base
    yield "column", two[:, 1]
    if wide is not None:
        yield "wide", np.array(values, dtype=wide)
        wbuf = np.zeros(2 * n, dtype=wide)
        wbuf[::2] = values
        yield "wide-strided", wbuf[::2]
    # not writeable
    ro = base.copy()
    ro.setflags(write=False)
    yield "readonly", ro


FORM_NAMES = ["list", "strided", "tuple", "reversed-view", "array", "column", "wide", "wide-strided", "readonly"]


def in_form(values, name, dtype="int32", wide="int64"):
    import numpy as np

    values = list(values)
    if name == "list":
        return values
    if name == "array":
        return np.array(values, dtype=dtype)
    for n, obj in array_forms(values, dtype=dtype, wide=wide):
        if n == name:
            return obj
    raise ValueError(name)


def pick(values, salt=0, dtype="int32", wide="int64"):
    """A form chosen deterministically from the argument itself (so that a replay takes the same
    one); over an exhaustive enumeration of argument values every form is used many times."""
    values = list(values)
    k = (sum(int(v) * (i + 1) for i, v in enumerate(values)) + len(values) + int(salt)) % len(FORM_NAMES)
    name = FORM_NAMES[k]
    if wide is None and name.startswith("wide"):
        name = "strided"
    return name, in_form(values, name, dtype=dtype, wide=wide)


REFORMS = ["asis", "strided", "reversed-view", "column", "readonly", "fortran-row"]


def reform(arr, k):
    """The same 1-D numpy array (any dtype) laid out differently in memory; k picks the layout."""
    import numpy as np

    arr = np.asarray(arr)
    name = REFORMS[k % len(REFORMS)]
    n = len(arr)
    if name == "asis" or arr.ndim != 1:
        return "asis", arr
    if name == "strided":
        buf = np.zeros(2 * n + 1, dtype=arr.dtype)
        buf[:2 * n:2] = arr
        return name, buf[:2 * n:2]
    if name == "reversed-view":
        return name, arr[::-1].copy()[::-1]
    if name == "column":
        two = np.zeros((n, 3), dtype=arr.dtype)
        two[:, 1] = arr
        return name, two[:, 1]
    if name == "fortran-row":
        two = np.zeros((2, n), dtype=arr.dtype, order="F")
        two[1, :] = arr
        return name, two[1, :]
    ro = arr.copy()
    ro.setflags(write=False)
    return name, ro


REFORMS2D = ["asis", "fortran", "row-strided", "col-strided", "readonly", "flipped"]


def reform2d(arr, k):
    """The same 2-D array in a different memory layout."""
    import numpy as np

    arr = np.asarray(arr)
    name = REFORMS2D[k % len(REFORMS2D)]
    if arr.ndim != 2 or name == "asis":
        return "asis", arr
    r, c = arr.shape
    if name == "fortran":
        return name, np.asfortranarray(arr)
    if name == "row-strided":
        buf = np.zeros((2 * r + 1, c), dtype=arr.dtype)
        buf[:2 * r:2] = arr
        return name, buf[:2 * r:2]
    if name == "col-strided":
        buf = np.zeros((r, 2 * c + 1), dtype=arr.dtype)
        buf[:, :2 * c:2] = arr
        return name, buf[:, :2 * c:2]
    if name == "flipped":
        return name, arr[::-1, ::-1].copy()[::-1, ::-1]
    ro = arr.copy()
    ro.setflags(write=False)
    return name, ro


def omit_defaults(kw, defaults, salt=0, none_ok=()):
    """The same call with some of the arguments that equal their documented default left out (or, for the
    names in none_ok, passed as None, where the documentation says None means the default).  Deterministic in
    salt, so that a replay makes the same call."""
    out = {}
    for i, (k, v) in enumerate(sorted(kw.items())):
        if k in defaults and v == defaults[k] and not (isinstance(v, bool) ^ isinstance(defaults[k], bool)):
            r = (salt + i) % 3
            if r == 1:
                continue
            if r == 2 and k in none_ok:
                out[k] = None
                continue
        out[k] = v
    return out
