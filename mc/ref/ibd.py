"""Reference model of identity-by-descent segments, from docs/ibd.md and the
TreeSequence.ibd_segments / TableCollection.ibd_segments docstrings:

  A pair (u, v) has an IBD segment [left, right) with ancestral node a iff the most
  recent common ancestor of u and v over [left, right) is a and the segment has been
  inherited along the same genealogical path; the segments returned are the longest
  possible ones.  (TableCollection.ibd_segments: adjacent edge rows with identical
  parent and child split the segments underneath them, i.e. "path" = chain of edge
  rows.)

Positional definition used here (no sweep over edges in time order): for every
elementary interval between consecutive edge end points, the signature of a pair is
(MRCA, edge-row chain u -> MRCA, edge-row chain v -> MRCA) or None when there is no common
ancestor; the segments of the pair are the maximal runs of equal non-None signature.
"""
from .trees import NULL


class RefIBD:
    def __init__(self, rts):
        self.rts = rts
        self.N = rts.N
        self.ivs = rts.intervals()
        # per elementary interval: for every node the list [(node, edge id into node's
        # parent)...] walking up
        self._up = []
        for l, _ in self.ivs:
            par = rts.parent_map(l)
            em = rts.edge_map(l)
            ups = []
            for u in range(self.N):
                nodes = [u]
                eids = []
                w = u
                while par[w] != NULL:
                    eids.append(em[w])
                    w = par[w]
                    nodes.append(w)
                ups.append((nodes, eids))
            self._up.append(ups)
        self._cache = {}

    def signature(self, k, u, v):
        """Signature of the pair in elementary interval k (None: no common ancestor)."""
        nu, eu = self._up[k][u]
        nv, ev = self._up[k][v]
        pos_v = {w: i for i, w in enumerate(nv)}
        for i, w in enumerate(nu):
            if w in pos_v:
                return (w, tuple(eu[:i]), tuple(ev[:pos_v[w]]))
        return None

    def pair_segments(self, u, v):
        """Unfiltered maximal segments [(left, right, mrca)] of the unordered pair."""
        if u > v:
            u, v = v, u
        key = (u, v)
        got = self._cache.get(key)
        if got is not None:
            return got
        out = []
        cur = None  # [left, right, sig]
        for k, (l, r) in enumerate(self.ivs):
            sig = self.signature(k, u, v) if u != v else None
            if cur is not None and sig is not None and cur[2] == sig and cur[1] == l:
                cur[1] = r
                continue
            if cur is not None:
                out.append((cur[0], cur[1], cur[2][0]))
                cur = None
            if sig is not None:
                cur = [l, r, sig]
        if cur is not None:
            out.append((cur[0], cur[1], cur[2][0]))
        self._cache[key] = out
        return out

    def filtered(self, u, v, min_span, max_time, strict=True):
        """Segments kept: span > min_span and MRCA time < max_time (<= if not strict)."""
        t = self.rts.times
        out = []
        for l, r, a in self.pair_segments(u, v):
            if not (r - l) > min_span:
                continue
            if max_time is not None:
                if strict and not t[a] < max_time:
                    continue
                if not strict and not t[a] <= max_time:
                    continue
            out.append((l, r, a))
        return out

    def expected(self, pairs, min_span, max_time, strict=True):
        """dict {(u, v) with u < v: sorted segment list} for the pairs with >= 1 segment."""
        out = {}
        for u, v in pairs:
            a, b = (u, v) if u < v else (v, u)
            segs = self.filtered(a, b, min_span, max_time, strict)
            if segs:
                out[(a, b)] = sorted(segs)
        return out


def within_pairs(nodes):
    nodes = sorted(set(nodes))
    return [(a, b) for i, a in enumerate(nodes) for b in nodes[i + 1:]]


def between_pairs(sets):
    out = []
    for i, A in enumerate(sets):
        for B in sets[i + 1:]:
            for a in A:
                for b in B:
                    out.append((a, b) if a < b else (b, a))
    return sorted(set(out))
