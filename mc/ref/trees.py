"""Reference model of marginal trees, straight from the data-model definition:
parent(u) = p at x iff some edge row (l, r, p, u) has l <= x < r."""

NULL = -1


class RefTS:
    def __init__(self, times, flags, edges, L, sites=(), mutations=()):
        self.times = list(times)
        self.flags = list(flags)
        self.edges = [tuple(e) for e in edges]  # (l, r, p, c) in table row order
        self.L = L
        self.N = len(self.times)
        # sites: list of (position, ancestral_state); mutations: list of
        # (site, node, derived_state, parent, time) in table row order
        self.sites = list(sites)
        self.mutations = list(mutations)

    @classmethod
    def from_tables(cls, tc):
        n = tc.nodes
        e = tc.edges
        edges = list(zip(e.left.tolist(), e.right.tolist(), e.parent.tolist(),
                         e.child.tolist()))
        sites = []
        s = tc.sites
        anc = s.ancestral_state.tobytes()
        off = s.ancestral_state_offset.tolist()
        for j in range(s.num_rows):
            sites.append((float(s.position[j]), anc[off[j]:off[j + 1]].decode()))
        muts = []
        m = tc.mutations
        der = m.derived_state.tobytes()
        off = m.derived_state_offset.tolist()
        for j in range(m.num_rows):
            muts.append((int(m.site[j]), int(m.node[j]),
                         der[off[j]:off[j + 1]].decode(), int(m.parent[j]),
                         float(m.time[j])))
        return cls(n.time.tolist(), [int(f) & 1 for f in n.flags.tolist()], edges,
                   tc.sequence_length, sites, muts)

    @property
    def samples(self):
        return [u for u in range(self.N) if self.flags[u]]

    def breakpoints(self):
        b = {0.0, float(self.L)}
        for l, r, _, _ in self.edges:
            b.add(l)
            b.add(r)
        return sorted(b)

    def intervals(self):
        b = self.breakpoints()
        return list(zip(b[:-1], b[1:]))

    def parent_map(self, x):
        par = [NULL] * self.N
        for l, r, p, c in self.edges:
            if l <= x < r:
                assert par[c] == NULL, "reference: contradictory children"
                par[c] = p
        return par

    def edge_map(self, x):
        em = [NULL] * self.N
        for j, (l, r, p, c) in enumerate(self.edges):
            if l <= x < r:
                em[c] = j
        return em

    def tree_at(self, x):
        return RefTree(self, self.parent_map(x))

    def trees(self):
        out = []
        for l, r in self.intervals():
            t = self.tree_at(l)
            t.interval = (l, r)
            out.append(t)
        return out


class RefTree:
    def __init__(self, rts, parent):
        self.rts = rts
        self.parent = list(parent)
        self.N = len(parent)
        self.children = [[] for _ in range(self.N)]
        for c, p in enumerate(parent):
            if p != NULL:
                self.children[p].append(c)
        self.interval = None
        self._ns = None

    def ancestors(self, u):
        """u, parent(u), ... up to the top."""
        out = []
        while u != NULL:
            out.append(u)
            u = self.parent[u]
        return out

    def top(self, u):
        return self.ancestors(u)[-1]

    def subtree(self, u):
        out = []
        stack = [u]
        while stack:
            v = stack.pop()
            out.append(v)
            stack.extend(self.children[v])
        return out

    def samples_below(self, u):
        fl = self.rts.flags
        return sorted(v for v in self.subtree(u) if fl[v])

    def leaves_below(self, u):
        return sorted(v for v in self.subtree(u) if not self.children[v])

    def num_samples(self, u):
        return len(self.samples_below(u))

    def num_tracked(self, u, tracked):
        tr = set(tracked)
        return sum(1 for v in self.subtree(u) if v in tr)

    def roots(self, threshold=1):
        return sorted(
            u for u in range(self.N)
            if self.parent[u] == NULL and self.num_samples(u) >= threshold
        )

    def mrca(self, u, v):
        au = self.ancestors(u)
        sv = set(self.ancestors(v))
        for a in au:
            if a in sv:
                return a
        return NULL

    def depth(self, u):
        return len(self.ancestors(u)) - 1

    def branch_length(self, u):
        p = self.parent[u]
        if p == NULL:
            return 0.0
        return self.rts.times[p] - self.rts.times[u]

    def is_descendant(self, u, v):
        return v in self.ancestors(u)

    def num_edges(self):
        return sum(1 for p in self.parent if p != NULL)

    def nodes_in_tree(self, threshold=1):
        out = []
        for r in self.roots(threshold):
            out.extend(self.subtree(r))
        return sorted(out)
