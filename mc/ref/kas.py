"""Independent parser of the kastore container layout (header, item descriptors, keys,
8-byte aligned arrays), used to locate file regions for fault enumeration."""
import struct

HEADER = 64
DESC = 64
MAGIC = b"\x89KAS\r\n\x1a\n"
TYPE_SIZE = [1, 1, 2, 2, 4, 4, 8, 8, 4, 8]


class Store:
    def __init__(self, data, start=0):
        self.start = start
        d = data[start:]
        assert d[:8] == MAGIC
        self.version = struct.unpack_from("<HH", d, 8)
        (self.num_items,) = struct.unpack_from("<I", d, 12)
        (self.file_size,) = struct.unpack_from("<Q", d, 16)
        self.items = []
        for j in range(self.num_items):
            off = HEADER + j * DESC
            typ = d[off]
            ks, kl, as_, al = struct.unpack_from("<QQQQ", d, off + 8)
            key = bytes(d[ks:ks + kl]).decode()
            self.items.append(dict(index=j, desc=off, type=typ, key=key, key_start=ks, key_len=kl,
                                   array_start=as_, array_len=al, array_bytes=al * TYPE_SIZE[typ]))
        self.desc_end = HEADER + self.num_items * DESC
        self.keys_end = self.desc_end + sum(i["key_len"] for i in self.items)

    def regions(self):
        """List of (name, lo, hi, detail) covering the store, offsets relative to start."""
        out = [("header.magic", 0, 8, None), ("header.version_major", 8, 10, None),
               ("header.version_minor", 10, 12, None), ("header.num_items", 12, 16, None),
               ("header.file_size", 16, 24, None), ("header.reserved", 24, 64, None)]
        for it in self.items:
            o = it["desc"]
            out.append(("desc.type", o, o + 1, it["key"]))
            out.append(("desc.reserved", o + 1, o + 8, it["key"]))
            out.append(("desc.key_start", o + 8, o + 16, it["key"]))
            out.append(("desc.key_len", o + 16, o + 24, it["key"]))
            out.append(("desc.array_start", o + 24, o + 32, it["key"]))
            out.append(("desc.array_len", o + 32, o + 40, it["key"]))
            out.append(("desc.reserved", o + 40, o + 64, it["key"]))
        for it in self.items:
            out.append(("key", it["key_start"], it["key_start"] + it["key_len"], it["key"]))
        pos = self.keys_end
        for it in self.items:
            if it["array_start"] > pos:
                out.append(("padding", pos, it["array_start"], it["key"]))
            out.append(("data", it["array_start"], it["array_start"] + it["array_bytes"], it["key"]))
            pos = it["array_start"] + it["array_bytes"]
        return out

    def region_of(self, offset):
        for name, lo, hi, detail in self.regions():
            if lo <= offset < hi:
                return name, detail
        return "beyond", None


def stores(data):
    """All back-to-back stores in a byte string."""
    out = []
    pos = 0
    while pos < len(data):
        s = Store(data, pos)
        out.append(s)
        pos += s.file_size
    return out
