"""Three-valued reference predicate for 'is this table collection a valid tree sequence',
written from docs/data-model.md (sec_valid_tree_sequence_requirements).

A collection is described by a plain dict ("spec"):
  L, nodes [(flags,time,population,individual)], individuals [(flags, parents tuple)],
  populations (count), edges [(l,r,p,c)], sites [(pos, anc)],
  mutations [(site,node,derived,parent,time)], migrations [(l,r,node,source,dest,time)],
  index None | (insertion_order, removal_order)
verdict(spec) -> (VALID|INVALID|DONTCARE, reason)
"""
import math

VALID, INVALID, DONTCARE = "VALID", "INVALID", "DONTCARE"
UNKNOWN_BITS = 0x7FF874736B697421  # documented in core.h: TSK_UNKNOWN_TIME_HEX


def is_unknown(t):
    import struct

    return isinstance(t, float) and math.isnan(t) and \
        struct.unpack("<Q", struct.pack("<d", t))[0] == UNKNOWN_BITS


def unknown_time():
    import struct

    return struct.unpack("<d", struct.pack("<Q", UNKNOWN_BITS))[0]


def finite(x):
    return not (math.isnan(x) or math.isinf(x))


def verdict(spec):
    bad = []      # definite violations
    dont = []     # don't-care departures
    L = spec["L"]
    if not (L > 0):
        bad.append("sequence_length not positive")
        return INVALID, bad[0]
    if math.isinf(L):
        dont.append("infinite sequence length")
    nodes = spec["nodes"]
    nn = len(nodes)
    npop = spec.get("populations", 0)
    inds = spec.get("individuals", [])
    nind = len(inds)
    for (fl, t, pop, ind) in nodes:
        if not finite(t):
            bad.append("node time nonfinite")
        if pop < -1 or pop >= npop:
            bad.append("node population out of bounds")
        if ind < -1 or ind >= nind:
            bad.append("node individual out of bounds")
    for j, (fl, parents) in enumerate(inds):
        for p in parents:
            if p < -1 or p >= nind:
                bad.append("individual parent out of bounds")
            elif p == j:
                dont.append("individual is its own parent")
    edges = spec.get("edges", [])
    edges_ok = True
    for (l, r, p, c) in edges:
        if p < 0 or p >= nn or c < 0 or c >= nn:
            bad.append("edge node out of bounds")
            edges_ok = False
            continue
        if not (finite(l) and finite(r)):
            bad.append("edge coords nonfinite")
            edges_ok = False
            continue
        if not (0 <= l < r <= L):
            bad.append("bad edge interval")
            edges_ok = False
        if finite(nodes[p][1]) and finite(nodes[c][1]) and not (nodes[p][1] > nodes[c][1]):
            bad.append("parent not older than child")
            edges_ok = False
    if edges_ok and not bad:
        # sortedness
        seen_parents = set()
        last = None
        for (l, r, p, c) in edges:
            if last is not None:
                lp = last[2]
                if nodes[p][1] < nodes[lp][1]:
                    bad.append("edges not sorted by parent time")
                if p != lp:
                    seen_parents.add(lp)
                    if p in seen_parents:
                        bad.append("edges for a parent not contiguous")
                else:
                    if (c, l) < (last[3], last[0]):
                        bad.append("edges not sorted by child/left within parent")
                    if (c, l) == (last[3], last[0]):
                        bad.append("duplicate edges")
            last = (l, r, p, c)
        # disjoint child intervals
        per_child = {}
        for (l, r, p, c) in edges:
            per_child.setdefault(c, []).append((l, r))
        for c, ivs in per_child.items():
            ivs.sort()
            for a, b in zip(ivs, ivs[1:]):
                if b[0] < a[1]:
                    bad.append("contradictory children (overlapping intervals for a child)")
    sites = spec.get("sites", [])
    last_pos = None
    sites_ok = True
    for (pos, anc) in sites:
        if not finite(pos) or not (0 <= pos < L):
            bad.append("bad site position")
            sites_ok = False
            continue
        if last_pos is not None:
            if pos == last_pos:
                bad.append("duplicate site position")
            elif pos < last_pos:
                bad.append("unsorted sites")
        last_pos = pos
    muts = spec.get("mutations", [])
    nm = len(muts)
    ns = len(sites)
    refs_ok = True
    for j, (s, u, der, par, t) in enumerate(muts):
        if s < 0 or s >= ns:
            bad.append("mutation site out of bounds")
            refs_ok = False
        if u < 0 or u >= nn:
            bad.append("mutation node out of bounds")
            refs_ok = False
        if par < -1 or par >= nm:
            bad.append("mutation parent out of bounds")
            refs_ok = False
        elif par == j:
            bad.append("mutation is its own parent")
    if refs_ok:
        per_site_known = {}
        last_site = None
        last_known = math.inf
        for j, (s, u, der, par, t) in enumerate(muts):
            unk = is_unknown(t)
            if not unk:
                if not finite(t):
                    bad.append("mutation time nonfinite")
                    continue
                if finite(nodes[u][1]) and t < nodes[u][1]:
                    bad.append("mutation time younger than node")
            per_site_known.setdefault(s, set()).add(not unk)
            if last_site is not None and s < last_site:
                bad.append("mutations not sorted by site")
            if s != last_site:
                last_known = math.inf
            if par != -1:
                if muts[par][0] != s:
                    bad.append("mutation parent at a different site")
                if par > j:
                    bad.append("mutation parent after child")
                pt = muts[par][4]
                if not unk and not is_unknown(pt) and finite(pt) and t > pt:
                    bad.append("mutation older than parent mutation")
            if not unk:
                if t > last_known:
                    bad.append("mutation times not non-increasing within site")
                last_known = t
            last_site = s
        for s, kinds in per_site_known.items():
            if len(kinds) == 2:
                bad.append("known and unknown mutation times mixed at a site")
        # time below the parent node at the site position
        if not bad and edges_ok and sites_ok:
            for (s, u, der, par, t) in muts:
                if is_unknown(t):
                    continue
                pos = sites[s][0]
                for (l, r, p, c) in edges:
                    if c == u and l <= pos < r:
                        if not (t < nodes[p][1]):
                            bad.append("mutation time not below parent node time")
    migs = spec.get("migrations", [])
    last_t = None
    for (l, r, u, src, dst, t) in migs:
        if u < 0 or u >= nn:
            bad.append("migration node out of bounds")
        for q in (src, dst):
            if q < -1 or q >= npop:
                bad.append("migration population out of bounds")
            elif q == -1:
                dont.append("migration population null")
        if not finite(t):
            bad.append("migration time nonfinite")
        elif last_t is not None and t < last_t:
            bad.append("migrations not sorted by time")
        if finite(t):
            last_t = t
        if not (finite(l) and finite(r)) or not (0 <= l < r <= L):
            bad.append("bad migration interval")
    idx = spec.get("index")
    if idx is not None and not bad:
        I, O = idx
        ne = len(edges)
        if len(I) != ne or len(O) != ne:
            bad.append("index of wrong length")
        elif sorted(I) != list(range(ne)) or sorted(O) != list(range(ne)):
            bad.append("index not a permutation of the edges")
        else:
            tm = [nodes[e[2]][1] for e in edges]
            expI = sorted(range(ne), key=lambda e: (edges[e][0], tm[e], edges[e][2], edges[e][3]))
            expO = sorted(range(ne), key=lambda e: (edges[e][1], -tm[e], -edges[e][2], -edges[e][3]))
            if list(I) != expI or list(O) != expO:
                lefts = [edges[e][0] for e in I]
                rights = [edges[e][1] for e in O]
                if lefts != sorted(lefts) or rights != sorted(rights):
                    bad.append("index not sorted by coordinate")
                else:
                    dont.append("index with a different tie order")
    if bad:
        return INVALID, bad[0]
    if dont:
        return DONTCARE, dont[0]
    return VALID, ""
