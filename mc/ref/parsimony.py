"""Reference for C20: minimum number of state changes on a forest (Sankoff dynamic
programme with unit costs), written from the definition of a reconstruction:

  a reconstruction assigns one state to the (virtual) point above all tree tops -- the
  ancestral state -- and one state to every node; a sample with a non-missing observation
  must carry the observed state; its cost is the number of (parent, child) pairs, the tops
  being children of the ancestral point, whose states differ.

`root_costs` returns, for every candidate ancestral state a, the minimum cost over all
reconstructions with ancestral state a.  `brute_root_costs` is the same quantity by
enumeration of every assignment (used to validate the DP on tiny trees)."""
import itertools

from .trees import NULL

INF = 10 ** 9


def root_costs(parent, obs, states):
    """parent: list (NULL for tops); obs: {node: state} for non-missing samples;
    states: list of candidate states.  Returns {a: min cost with ancestral state a}."""
    n = len(parent)
    children = [[] for _ in range(n)]
    tops = []
    for c, p in enumerate(parent):
        if p == NULL:
            tops.append(c)
        else:
            children[p].append(c)
    ns = len(states)

    def up(row, s_index):
        """cheapest way to hang a subtree with cost row under a point in state s."""
        best = INF
        for j in range(ns):
            v = row[j] + (0 if j == s_index else 1)
            if v < best:
                best = v
        return best

    def rec(u):
        kids = [rec(c) for c in children[u]]
        row = []
        for i, s in enumerate(states):
            if u in obs and obs[u] != s:
                row.append(INF)
                continue
            tot = 0
            for k in kids:
                tot += up(k, i)
            row.append(tot)
        return row

    top_rows = [rec(r) for r in tops]
    return {a: sum(up(k, i) for k in top_rows) for i, a in enumerate(states)}


def brute_root_costs(parent, obs, states):
    n = len(parent)
    out = {a: INF for a in states}
    for assign in itertools.product(states, repeat=n):
        if any(assign[u] != s for u, s in obs.items()):
            continue
        for a in states:
            c = 0
            for u in range(n):
                above = a if parent[u] == NULL else assign[parent[u]]
                if above != assign[u]:
                    c += 1
            if c < out[a]:
                out[a] = c
    return out
