"""Tiny Newick reader and order-free canonical form, written from the Newick grammar

    tree     := subtree ';'
    subtree  := '(' subtree (',' subtree)* ')' [label] [':' length]   |   [label] [':' length]

and not from tskit's writers.  Everything is iterative (trees in the scale probes are
10^4 levels deep).  A parsed tree is a list of nodes ``[label, length_text_or_None,
[child indexes]]`` in creation (pre-)order, node 0 being the root; lengths are kept as the
*text* that was written so that the rendering precision can be checked exactly."""
import re

_TOKEN = re.compile(r"[(),:;]|[^(),:;]+")
_NUMBER = re.compile(r"-?[0-9]+(\.[0-9]+)?\Z")


class NewickError(ValueError):
    pass


def parse(s):
    if not isinstance(s, str):
        raise NewickError(f"not a string: {type(s)}")
    toks = _TOKEN.findall(s)
    if not toks or toks[-1] != ";":
        raise NewickError("does not end with ';'")
    if "".join(toks) != s:
        raise NewickError("untokenisable text")
    n = len(toks) - 1
    nodes = []
    stack = []
    i = 0

    def new_node():
        nodes.append(["", None, []])
        u = len(nodes) - 1
        if stack:
            nodes[stack[-1]][2].append(u)
        elif u != 0:
            raise NewickError("more than one top-level subtree")
        return u

    def tail(u, i):
        # [label] [':' length]
        if i < n and toks[i] not in "(),:;":
            nodes[u][0] = toks[i]
            i += 1
        if i < n and toks[i] == ":":
            i += 1
            if i >= n or toks[i] in "(),:;":
                raise NewickError("':' without a length")
            if not _NUMBER.match(toks[i]):
                raise NewickError(f"malformed length {toks[i]!r}")
            nodes[u][1] = toks[i]
            i += 1
        return i

    start = True  # expecting the start of a subtree
    while True:
        if start:
            if i < n and toks[i] == "(":
                stack.append(new_node())
                i += 1
            else:
                u = new_node()
                i = tail(u, i)
                start = False
        else:
            if i >= n:
                break
            t = toks[i]
            if t == ",":
                if not stack:
                    raise NewickError("',' outside parentheses")
                i += 1
                start = True
            elif t == ")":
                if not stack:
                    raise NewickError("unbalanced ')'")
                u = stack.pop()
                i = tail(u, i + 1)
            else:
                raise NewickError(f"unexpected token {t!r} at {i}")
    if stack:
        raise NewickError("unbalanced '('")
    if i != n:
        raise NewickError("trailing text")
    return nodes


def build(children, root, label_of, length_of):
    """Expected tree below `root` in the same node-list form.  children: node -> list;
    label_of(u) -> str; length_of(u) -> str or None (never called for the root)."""
    nodes = [[label_of(root), None, []]]
    stack = [(root, 0)]
    while stack:
        u, iu = stack.pop()
        for c in children[u]:
            nodes.append([label_of(c), length_of(c), []])
            ic = len(nodes) - 1
            nodes[iu][2].append(ic)
            stack.append((c, ic))
    return nodes


def canon(nodes, intern, level=2):
    """Order-free canonical id. level 0: shape only; 1: + labels; 2: + length texts.
    Two trees have equal ids (with the same `intern` dict) iff they are equal up to the
    order of children.  Children always have larger indexes than their parent."""
    ids = [0] * len(nodes)
    for i in range(len(nodes) - 1, -1, -1):
        label, length, ch = nodes[i]
        key = (level, label if level >= 1 else "", length if level >= 2 else None,
               tuple(sorted([ids[c] for c in ch])))
        v = intern.get(key)
        if v is None:
            v = intern[key] = len(intern)
        ids[i] = v
    return ids[0]


def same_order(a, b):
    """True iff two node lists are identical including child order."""
    return a == b
