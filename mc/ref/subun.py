"""Reference model of subset / union on plain Python row lists.

Written from the docstrings of TreeSequence.subset, TreeSequence.union,
TableCollection.subset/union/canonicalise and the C API documentation in tables.h
(tsk_table_collection_subset / _union), not from the C algorithms.

A table is a list of row tuples:
  nodes  (flags, time, population, individual, metadata)
  inds   (flags, location tuple, parents tuple, metadata)
  pops   (metadata,)
  edges  (left, right, parent, child, metadata)
  sites  (position, ancestral_state, metadata)
  muts   (site, node, parent, time or None when unknown, derived_state, metadata)

Comparison (`compare`) is exact on node order and row data, and tolerant exactly where
the documentation leaves freedom: edge and mutation row order (validity of the order is
checked separately by loading the result), the order of individuals (caller passes the
documented alternatives), the order of newly added populations/individuals in union.
"""
import math
from collections import Counter

NULL = -1
DROPPED = -2  # marker in an expected parents tuple: reference to an individual that is not retained


class RT:
    __slots__ = ("L", "nodes", "inds", "pops", "edges", "sites", "muts", "time_units",
                 "metadata", "nprov")

    def __init__(self):
        self.L = 0.0
        self.nodes = []
        self.inds = []
        self.pops = []
        self.edges = []
        self.sites = []
        self.muts = []
        self.time_units = None
        self.metadata = None
        self.nprov = None

    def shallow(self):
        o = RT()
        for k in self.__slots__:
            v = getattr(self, k)
            setattr(o, k, list(v) if isinstance(v, list) else v)
        return o


def _ragged(col, off):
    b = col.tobytes()
    o = off.tolist()
    return [b[o[i]:o[i + 1]] for i in range(len(o) - 1)]


def from_tables(tc):
    """Read a tskit TableCollection into an RT (column access only)."""
    t = RT()
    t.L = float(tc.sequence_length)
    t.time_units = tc.time_units
    t.metadata = tc.metadata_bytes if hasattr(tc, "metadata_bytes") else None
    t.nprov = tc.provenances.num_rows
    n = tc.nodes
    t.nodes = list(zip(n.flags.tolist(), n.time.tolist(), n.population.tolist(),
                       n.individual.tolist(), _ragged(n.metadata, n.metadata_offset)))
    i = tc.individuals
    if i.num_rows:
        loc = i.location.tolist()
        lo = i.location_offset.tolist()
        par = i.parents.tolist()
        po = i.parents_offset.tolist()
        md = _ragged(i.metadata, i.metadata_offset)
        fl = i.flags.tolist()
        t.inds = [(fl[j], tuple(loc[lo[j]:lo[j + 1]]), tuple(par[po[j]:po[j + 1]]), md[j])
                  for j in range(i.num_rows)]
    p = tc.populations
    if p.num_rows:
        t.pops = [(x,) for x in _ragged(p.metadata, p.metadata_offset)]
    e = tc.edges
    if e.num_rows:
        t.edges = list(zip(e.left.tolist(), e.right.tolist(), e.parent.tolist(),
                           e.child.tolist(), _ragged(e.metadata, e.metadata_offset)))
    s = tc.sites
    if s.num_rows:
        t.sites = list(zip(s.position.tolist(),
                           _ragged(s.ancestral_state, s.ancestral_state_offset),
                           _ragged(s.metadata, s.metadata_offset)))
    m = tc.mutations
    if m.num_rows:
        tm = [None if math.isnan(x) else x for x in m.time.tolist()]
        t.muts = list(zip(m.site.tolist(), m.node.tolist(), m.parent.tolist(), tm,
                          _ragged(m.derived_state, m.derived_state_offset),
                          _ragged(m.metadata, m.metadata_offset)))
    return t


# ---------------------------------------------------------------------------------------
# subset
# ---------------------------------------------------------------------------------------
def ref_subset(T, nodes, ro=True, ru=True):
    """Expected result of subset(nodes, reorder_populations=ro, remove_unreferenced=ru).

    Returns (E, ind_orders): E lists the retained individuals in original table order (C
    API doc: "Retained individuals ... appear in the same order as in the original
    tables"); ind_orders are the documented alternatives for their order, as lists of
    E-ids: table order, and first-reference order with unreferenced ones at the end
    (TreeSequence.subset docstring)."""
    E = RT()
    E.L = T.L
    E.time_units = T.time_units
    E.metadata = T.metadata
    nmap = {u: k for k, u in enumerate(nodes)}
    # individuals
    ref_i = []
    ref_p = []
    for u in nodes:
        i = T.nodes[u][3]
        if i != NULL and i not in ref_i:
            ref_i.append(i)
        p = T.nodes[u][2]
        if p != NULL and p not in ref_p:
            ref_p.append(p)
    keep_i = sorted(ref_i) if ru else list(range(len(T.inds)))
    imap = {i: k for k, i in enumerate(keep_i)}
    for i in keep_i:
        fl, loc, par, md = T.inds[i]
        E.inds.append((fl, loc, tuple(NULL if q == NULL else imap.get(q, DROPPED) for q in par), md))
    first = [imap[i] for i in ref_i] + [imap[i] for i in keep_i if i not in ref_i]
    ind_orders = [list(range(len(keep_i))), first]
    # populations
    if not ro:
        E.pops = list(T.pops)
        pmap = {j: j for j in range(len(T.pops))}
    else:
        keep_p = list(ref_p)
        if not ru:
            keep_p += [j for j in range(len(T.pops)) if j not in ref_p]
        pmap = {j: k for k, j in enumerate(keep_p)}
        E.pops = [T.pops[j] for j in keep_p]
    for u in nodes:
        fl, tm, p, i, md = T.nodes[u]
        E.nodes.append((fl, tm, NULL if p == NULL else pmap[p], NULL if i == NULL else imap[i], md))
    for l, r, p, c, md in T.edges:
        if p in nmap and c in nmap:
            E.edges.append((l, r, nmap[p], nmap[c], md))
    kept_m = [j for j, mu in enumerate(T.muts) if mu[1] in nmap]
    mmap = {j: k for k, j in enumerate(kept_m)}
    used_sites = {T.muts[j][0] for j in kept_m}
    keep_s = [s for s in range(len(T.sites)) if (not ru) or s in used_sites]
    smap = {s: k for k, s in enumerate(keep_s)}
    E.sites = [T.sites[s] for s in keep_s]
    for j in kept_m:
        s, u, par, tm, der, md = T.muts[j]
        E.muts.append((smap[s], nmap[u], NULL if par == NULL else mmap.get(par, NULL), tm, der, md))
    return E, ind_orders


def materialise(E):
    """Concrete tables from an expected RT: dropped parent references are omitted."""
    o = E.shallow()
    o.inds = [(fl, loc, tuple(q for q in par if q != DROPPED), md) for fl, loc, par, md in E.inds]
    return o


# ---------------------------------------------------------------------------------------
# union
# ---------------------------------------------------------------------------------------
def parent_map_at(edges, n, x):
    par = [NULL] * n
    for l, r, p, c, _ in edges:
        if l <= x < r:
            if par[c] != NULL and par[c] != p:
                return None
            par[c] = p
    return par


def ref_union(A, B, mapping, add_pop=True):
    """Expected result of A.union(B, mapping, add_populations=add_pop) per the union
    docstring: the nodes of B mapped to NULL are added (in B's order) together with
    1. individuals whose nodes are new, 2. edges whose parent or child is new,
    3. mutations whose node is new, 4. sites not present in A that carry a new mutation;
    populations of new nodes are new populations when add_pop, else ids are kept.
    Mutation parents follow the nearest-mutation rule in the resulting genealogy."""
    E = RT()
    E.L = A.L
    E.time_units = A.time_units
    E.metadata = A.metadata
    E.nodes = list(A.nodes)
    E.inds = list(A.inds)
    E.pops = list(A.pops)
    imap = {}
    for k, u in enumerate(mapping):
        if u != NULL and B.nodes[k][3] != NULL:
            imap[B.nodes[k][3]] = A.nodes[u][3]
    nmap = {}
    pmap = {}
    new_inds = []
    for k in range(len(B.nodes)):
        if mapping[k] != NULL:
            nmap[k] = mapping[k]
            continue
        fl, tm, p, i, md = B.nodes[k]
        if i != NULL:
            if i not in imap:
                imap[i] = len(E.inds)
                new_inds.append(len(E.inds))
                E.inds.append(B.inds[i])
            i = imap[i]
        if p != NULL and add_pop:
            if p not in pmap:
                pmap[p] = len(E.pops)
                E.pops.append(B.pops[p])
            p = pmap[p]
        nmap[k] = len(E.nodes)
        E.nodes.append((fl, tm, p, i, md))
    for j in new_inds:
        fl, loc, par, md = E.inds[j]
        E.inds[j] = (fl, loc, tuple(NULL if q == NULL else imap.get(q, DROPPED) for q in par), md)
    E.edges = list(A.edges)
    for l, r, p, c, md in B.edges:
        if mapping[p] == NULL or mapping[c] == NULL:
            E.edges.append((l, r, nmap[p], nmap[c], md))
    # sites keyed by position; A's version wins
    bypos = {}
    for s in A.sites:
        bypos.setdefault(s[0], s)
    new_m = [mu for mu in B.muts if mapping[mu[1]] == NULL]
    for mu in new_m:
        s = B.sites[mu[0]]
        bypos.setdefault(s[0], s)
    E.sites = [bypos[x] for x in sorted(bypos)]
    sid = {x: k for k, x in enumerate(sorted(bypos))}
    rows = [(sid[A.sites[s][0]], u, tm, der, md) for s, u, _, tm, der, md in A.muts]
    rows += [(sid[B.sites[s][0]], nmap[u], tm, der, md) for s, u, _, tm, der, md in new_m]
    # parents: nearest-mutation rule in the resulting topology
    n = len(E.nodes)
    persite = {}
    for j, r in enumerate(rows):
        persite.setdefault(r[0], []).append(j)
    parents = [NULL] * len(rows)
    for s, idxs in persite.items():
        x = E.sites[s][0]
        par = parent_map_at(E.edges, n, x)
        if par is None:
            return None  # contradictory genealogy: outside the model
        on = {}
        for j in idxs:
            on.setdefault(rows[j][1], []).append(j)
        for u, js in on.items():
            for a, j in enumerate(js):
                if a > 0:
                    parents[j] = js[a - 1]
                else:
                    v = par[u]
                    guard = 0
                    while v != NULL and v not in on:
                        v = par[v]
                        guard += 1
                        if guard > n:
                            return None
                    parents[j] = on[v][-1] if v != NULL else NULL
    E.muts = [(r[0], r[1], parents[j], r[2], r[3], r[4]) for j, r in enumerate(rows)]
    return E


def new_mutation_above_old(A, E):
    """True iff some mutation that was already in A has, in the expected union E, a parent
    mutation that was added from the other side (ids >= len(A.muts))."""
    na = len(A.muts)
    return any(j < na and mu[2] >= na for j, mu in enumerate(E.muts))


def new_ind_parent_after_child(A, E):
    """True iff in E (new individuals appended in first-reference order) a newly added
    individual refers to a parent with a larger id."""
    na = len(A.inds)
    for j in range(na, len(E.inds)):
        if any(q > j for q in E.inds[j][2] if q >= 0):
            return True
    return False


# ---------------------------------------------------------------------------------------
# comparison
# ---------------------------------------------------------------------------------------
def _bind(fwd, inv, g, e, ng):
    if (g == NULL) != (e == NULL):
        return f"got {g} expected {e}"
    if g == NULL:
        return None
    if not (0 <= g < ng):
        return f"reference {g} out of range"
    if fwd.get(g, e) != e or inv.get(e, g) != g:
        return f"got {g} expected {e} (inconsistent with earlier rows: {fwd})"
    fwd[g] = e
    inv[e] = g
    return None


def compare(G, E, ind_orders=None, pops_ordered=False, toplevel=True):
    """List of (key, message) differences between observed G and expected E."""
    d = []
    if toplevel:
        if G.L != E.L:
            d.append(("sequence_length", f"{G.L} expected {E.L}"))
        if G.time_units != E.time_units:
            d.append(("time_units", f"{G.time_units!r} expected {E.time_units!r}"))
        if G.metadata != E.metadata:
            d.append(("ts_metadata", f"{G.metadata!r} expected {E.metadata!r}"))
    if len(G.nodes) != len(E.nodes):
        d.append(("nodes:count", f"{len(G.nodes)} nodes expected {len(E.nodes)}"))
        return d
    pm, pinv, im, iinv = {}, {}, {}, {}
    for k, (g, e) in enumerate(zip(G.nodes, E.nodes)):
        if (g[0], g[1], g[4]) != (e[0], e[1], e[4]):
            d.append(("nodes:row", f"node {k}: got {g} expected {e}"))
        err = _bind(pm, pinv, g[2], e[2], len(G.pops))
        if err:
            d.append(("nodes:population", f"node {k} population: {err}"))
        err = _bind(im, iinv, g[3], e[3], len(G.inds))
        if err:
            d.append(("nodes:individual", f"node {k} individual: {err}"))
    # populations
    if len(G.pops) != len(E.pops):
        d.append(("populations:count", f"{len(G.pops)} populations {G.pops} expected {len(E.pops)} {E.pops}"))
    else:
        ug = [j for j in range(len(G.pops)) if j not in pm]
        ue = [j for j in range(len(E.pops)) if j not in pinv]
        for a, b in zip(ug, ue):
            pm[a] = b
        for g, e in pm.items():
            if G.pops[g] != E.pops[e]:
                d.append(("populations:row", f"population {g}: {G.pops[g]} expected {E.pops[e]} (all: {G.pops} vs {E.pops})"))
        if pops_ordered and any(g != e for g, e in pm.items()):
            d.append(("populations:order", f"got {G.pops} expected {E.pops}"))
    # individuals
    if len(G.inds) != len(E.inds):
        d.append(("individuals:count", f"{len(G.inds)} individuals {G.inds} expected {len(E.inds)} {E.inds}"))
    else:
        ug = [j for j in range(len(G.inds)) if j not in im]
        ue = [j for j in range(len(E.inds)) if j not in iinv]
        for a, b in zip(ug, ue):
            im[a] = b
        for g, e in im.items():
            gr, er = G.inds[g], E.inds[e]
            if (gr[0], gr[1], gr[3]) != (er[0], er[1], er[3]):
                d.append(("individuals:row", f"individual {g}: {gr} expected {er}"))
            gp = tuple(NULL if q == NULL else im.get(q, ("?", q)) for q in gr[2])
            ep1 = tuple(q for q in er[2] if q != DROPPED)
            ep2 = tuple(NULL if q == DROPPED else q for q in er[2])
            if gp != ep1 and gp != ep2:
                d.append(("individuals:parents",
                          f"individual {g} ({gr[3]!r}): parents {gr[2]} -> {gp} expected {er[2]} (-2 = not retained)"))
        if ind_orders is not None:
            order = [im[g] for g in range(len(G.inds))]
            if order not in ind_orders:
                d.append(("individuals:order", f"order {order} not one of {ind_orders}"))
    # edges
    cg, ce = Counter(G.edges), Counter(E.edges)
    miss = ce - cg
    extra = cg - ce
    if miss:
        d.append(("edges:missing", f"missing {sorted(miss.elements())}; got {G.edges}"))
    if extra:
        d.append(("edges:extra", f"unexpected {sorted(extra.elements())}; expected {E.edges}"))
    # sites
    if len(G.sites) != len(E.sites):
        d.append(("sites:count", f"{G.sites} expected {E.sites}"))
    elif G.sites != E.sites:
        d.append(("sites:row", f"{G.sites} expected {E.sites}"))
    # mutations (matched through their metadata, unique in E)
    gm = {}
    for j, r in enumerate(G.muts):
        gm.setdefault(r[5], []).append(j)
    em = {}
    for j, r in enumerate(E.muts):
        em.setdefault(r[5], []).append(j)

    def ident(M, p):
        if p == NULL:
            return None
        if 0 <= p < len(M.muts):
            return M.muts[p][5]
        return ("?", p)

    for md, js in em.items():
        if md not in gm:
            d.append(("mutations:missing", f"mutation {md!r} missing; got {G.muts}"))
            continue
        if len(gm[md]) != len(js):
            d.append(("mutations:duplicated", f"mutation {md!r} x{len(gm[md])} expected x{len(js)}"))
            continue
        for a, b in zip(gm[md], js):
            g, e = G.muts[a], E.muts[b]
            for idx, nm in ((0, "site"), (1, "node"), (3, "time"), (4, "derived_state")):
                if g[idx] != e[idx]:
                    d.append((f"mutations:{nm}", f"mutation {md!r}: {nm} {g[idx]!r} expected {e[idx]!r}"))
            if ident(G, g[2]) != ident(E, e[2]):
                d.append(("mutations:parent",
                          f"mutation {md!r}: parent {ident(G, g[2])!r} expected {ident(E, e[2])!r}; got {G.muts}"))
    for md in gm:
        if md not in em:
            d.append(("mutations:extra", f"unexpected mutation {md!r}; expected {E.muts}"))
    return d
