"""Reference model of TreeSequence.write_vcf, written from the write_vcf docstring,
docs/export.md (section "VCF") and the C16 property statement -- not from vcf.py.

Two parts:
  parse(text)            a tiny VCF reader (meta lines, #CHROM line, tab separated rows)
  expected(model, cfg)   what the documentation says the call must produce: either
                         ("error", [reasons]) or ("ok", {...}) with the header names,
                         the acceptable contig lengths and one row per unmasked site.

`model` is built by build_model() from plain data (a RefTS with sites and mutations,
the node->individual column and the number of individual rows).
`cfg` is a JSON-able dict of the arguments, see mc/props/c16.py.

Don't-cares (fields the documentation does not fix) are returned as None and are not
compared.
"""
import math
import re
from fractions import Fraction

from . import geno
from .trees import NULL, RefTS

FIXED_COLUMNS = ["#CHROM", "POS", "ID", "REF", "ALT", "QUAL", "FILTER", "INFO", "FORMAT"]


class VcfParseError(Exception):
    pass


def parse(text):
    """-> dict(meta=[...], contigs=[(id, length)], columns=[...], rows=[[fields]])."""
    if text == "" or not text.endswith("\n"):
        raise VcfParseError("output does not end with a newline")
    lines = text.split("\n")[:-1]
    meta, columns, rows = [], None, []
    for ln in lines:
        if columns is None:
            if ln.startswith("##"):
                meta.append(ln)
            elif ln.startswith("#CHROM"):
                columns = ln.split("\t")
            else:
                raise VcfParseError(f"data line before the #CHROM line: {ln!r}")
        else:
            if ln.startswith("#"):
                raise VcfParseError(f"header line after the #CHROM line: {ln!r}")
            rows.append(ln.split("\t"))
    if columns is None:
        raise VcfParseError("no #CHROM line")
    if not meta or not meta[0].startswith("##fileformat=VCF"):
        raise VcfParseError("first line is not ##fileformat=VCF...")
    contigs = []
    for ln in meta:
        if ln.startswith("##contig="):
            mt = re.fullmatch(r"##contig=<ID=(.*),length=(-?\d+)>", ln)
            if mt is None:
                raise VcfParseError(f"unreadable contig line {ln!r}")
            contigs.append((mt.group(1), int(mt.group(2))))
    return {"meta": meta, "contigs": contigs, "columns": columns, "rows": rows}


# ---------------------------------------------------------------- coordinates
def round_half_even(x):
    """numpy.round / round(): nearest integer, ties to the even one."""
    f = math.floor(x)
    d = x - f
    if d > Fraction(1, 2) or (d == Fraction(1, 2) and f % 2 == 1):
        return f + 1
    return f


def transform(kind, xs):
    """The documented coordinate transforms on a list of exact positions.  Returns a
    list of Fractions; a non-integer value means "the callable did not return an
    integer", for which the documentation promises nothing."""
    xs = [Fraction(x) for x in xs]
    if kind is None:
        return [Fraction(round_half_even(x)) for x in xs]
    if kind == "legacy":
        # "rounding values to the nearest integer (starting from 1) and avoiding the
        # output of identical positions by incrementing"
        out = []
        last = 0
        for x in xs:
            p = round_half_even(x)
            if p <= last:
                p = last + 1
            out.append(Fraction(p))
            last = p
        return out
    if kind in ("raw_plus1", "arr_plus1"):
        return [x + 1 for x in xs]
    if kind == "raw_fmax":
        return [max(Fraction(1), x) for x in xs]
    if kind == "floor":
        return [Fraction(math.floor(x)) for x in xs]
    raise ValueError(kind)


def as_int(fr):
    return int(fr) if fr is not None and fr.denominator == 1 else None


# ---------------------------------------------------------------- model
def build_model(rts, node_ind, num_ind):
    """Pre-compute per-site alleles and per-node allele indexes (None = missing) for
    isolated_as_missing True and False, using the shared reference genotype rule."""
    by_site = {}
    for row in rts.mutations:
        by_site.setdefault(row[0], []).append(row)
    nodes = list(range(rts.N))
    sites = []
    for sid, (pos, anc) in enumerate(rts.sites):
        one = RefTS(rts.times, rts.flags, rts.edges, rts.L, [(pos, anc)],
                    [(0,) + tuple(r[1:]) for r in by_site.get(sid, [])])
        alleles = geno.site_allele_list(one, 0)
        gts = {}
        for iam in (True, False):
            al = geno.site_alleles(one, 0, nodes, iam)
            gts[iam] = [None if a is None else alleles.index(a) for a in al]
        sites.append({"pos": pos, "alleles": alleles, "gt": gts})
    return {"N": rts.N, "flags": list(rts.flags), "L": rts.L, "sites": sites,
            "node_ind": list(node_ind), "num_ind": num_ind,
            "samples": [u for u in range(rts.N) if rts.flags[u]]}


def sample_mapping(model, cfg):
    """-> (errors, groups) where groups is the list of node lists, one per VCF sample."""
    errors = []
    samples = model["samples"]
    node_ind = model["node_ind"]
    K = model["num_ind"]
    ploidy = cfg.get("ploidy")
    individuals = cfg.get("individuals")
    if ploidy is not None and K > 0:
        # "It is therefore an error to supply a value for ploidy when individual
        # information is present in a tree sequence."
        errors.append("ploidy_with_individuals")
    if individuals is None:
        referenced = sorted({node_ind[u] for u in samples if node_ind[u] != NULL})
        if referenced:
            if any(node_ind[u] == NULL for u in samples):
                errors.append("samples_partly_in_individuals")
            individuals = referenced  # "in increasing order of individual ID"
    elif len(individuals) == 0:
        errors.append("individuals_empty")
    groups = []
    if individuals is not None:
        for i in individuals:
            if i < 0 or i >= K:
                errors.append("individual_out_of_range")
                continue
            nodes = [u for u in range(model["N"]) if node_ind[u] == i]
            if not nodes:
                errors.append("individual_without_nodes")
                continue
            kinds = {bool(model["flags"][u]) for u in nodes}
            if kinds == {True, False}:
                errors.append("individual_mixed_sample_nonsample")
            elif kinds == {False}:
                # "It is an error to specify any individuals ... whose nodes are not
                # all samples."
                errors.append("individual_all_nonsample")
            groups.append(nodes)
    else:
        p = 1 if ploidy is None else ploidy
        if p < 1:
            errors.append("ploidy_not_positive")
        elif len(samples) % p != 0:
            errors.append("samples_not_divisible_by_ploidy")
        else:
            groups = [samples[j:j + p] for j in range(0, len(samples), p)]
    return errors, groups


def sample_mask_at(cfg_mask, site_id, out_nodes):
    """Boolean list over the output nodes, or "badlen"."""
    if cfg_mask is None:
        return [False] * len(out_nodes)
    form = cfg_mask["form"]
    if form == "call_nodes":
        hit = set(cfg_mask["nodes"])
        shift = cfg_mask.get("shift", 0)
        if shift:
            hit = {(u + shift * site_id) % cfg_mask["N"] for u in hit}
        return [u in hit for u in out_nodes]
    pat = [bool(x) for x in cfg_mask["pattern"]]
    if len(pat) != len(out_nodes):
        return "badlen"
    if form == "call_dyn":
        n = len(pat)
        return [pat[(j + site_id) % n] for j in range(n)] if n else []
    return pat


def expected(model, cfg):
    errors, groups = sample_mapping(model, cfg)
    S = len(model["sites"])
    names = cfg.get("names")
    if not errors:
        if names is None:
            names = [f"tsk_{j}" for j in range(len(groups))]
        elif len(names) != len(groups):
            errors.append("names_wrong_length")
    sm = cfg.get("site_mask")
    if sm is None:
        masked = [False] * S
    else:
        masked = [bool(x) for x in sm["pattern"]]
        if len(masked) != S:
            errors.append("site_mask_wrong_length")
            masked = [False] * S
    kind = cfg.get("transform")
    cache = model.setdefault("_transformed", {})
    if kind not in cache:
        cache[kind] = (transform(kind, [s["pos"] for s in model["sites"]]),
                       transform(kind, [model["L"]])[0])
    tpos, tL = cache[kind]
    apz = bool(cfg.get("apz"))
    iam = cfg.get("iam")
    iam = True if iam is None else bool(iam)
    unmasked = [j for j in range(S) if not masked[j]]
    dontcare_error = False
    for j in unmasked:
        if len(model["sites"][j]["alleles"]) > 9:
            errors.append("more_than_9_alleles")
        if not apz and tpos[j] == 0:
            errors.append("position_zero")
    out_nodes = [u for g in groups for u in g]
    rows = []
    if not errors:
        for j in unmasked:
            site = model["sites"][j]
            mask = sample_mask_at(cfg.get("sample_mask"), j, out_nodes)
            if mask == "badlen":
                errors.append("sample_mask_wrong_length")
                break
            gt = site["gt"][iam]
            calls = {}
            for u, mk in zip(out_nodes, mask):
                calls[u] = "." if (mk or gt[u] is None) else str(gt[u])
            alleles = site["alleles"]
            rows.append({
                "site": j, "pos": as_int(tpos[j]), "id": str(j), "ref": alleles[0],
                "alt": ",".join(alleles[1:]) if len(alleles) > 1 else ".",
                "gt": ["|".join(calls[u] for u in g) for g in groups],
            })
    if errors:
        return "error", errors
    # a wrong-length sample mask is only noticed when a line is written
    sm_cfg = cfg.get("sample_mask")
    if sm_cfg is not None and not unmasked and sm_cfg["form"] != "call_nodes" \
            and len(sm_cfg["pattern"]) != len(out_nodes):
        dontcare_error = True
    # contig length: at least 1, the transformed sequence length, and never smaller
    # than a position that is written; the documentation leaves open whether a masked
    # last site counts, so both are accepted.
    base = as_int(tL)
    lengths = None
    if base is not None and all(as_int(p) is not None for p in tpos):
        base = max(1, base)
        lengths = {max([base] + [int(tpos[j]) for j in unmasked]),
                   max([base] + [int(p) for p in tpos])}
    return "ok", {"names": list(names), "contig_lengths": lengths, "rows": rows,
                  "unmasked": unmasked, "error_also_accepted": dontcare_error,
                  "num_out_nodes": len(out_nodes)}
