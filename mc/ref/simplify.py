"""Reference model of simplify: a per-position definition of the retained genealogy.

Written from the simplify docstrings (python/tskit/trees.py TreeSequence.simplify,
python/tskit/tables.py TableCollection.simplify), the option descriptions in
c/tskit/tables.h (API_FLAGS_SIMPLIFY_GROUP, tsk_table_collection_simplify) and the
property statement C04.  It does not follow the segment-merging algorithm of the
implementation: everything here is "at position x, walk up from the chosen samples".

At a position x with input parent map `par`:

* T_x is the union of the paths from every chosen sample up to its root.
* A node is *retained at x* iff it is in T_x and
    - it is a chosen sample, or
    - it has two or more children in T_x (a coalescence of sample lineages), or
    - keep_unary is set ("preserve unary nodes ... on the path from samples to root"), or
    - keep_unary_in_individuals is set and the node refers to an individual, or
    - keep_input_roots is set and the node is the root of its tree ("the roots of all
      trees in the returned tree sequence will be the same roots as in the original").
* The output parent of a retained node is its nearest retained proper ancestor.
* Nodes not retained at x take no part in the output tree at x.

One point is left open by the documentation and therefore has two accepted readings:
with keep_unary / keep_unary_in_individuals but *without* keep_input_roots the unary
nodes above the topmost sample/coalescence are "on the path from samples to root"
(keep_unary text: preserved) and at the same time "topology older than the MRCAs of the
samples" (keep_input_roots=False text: not included).  `genealogy_variants` returns the
first reading and, when it differs, the second; a check accepts either.
"""
from .trees import NULL

OPTION_NAMES = (
    "keep_unary", "keep_unary_in_individuals", "keep_input_roots", "filter_nodes",
    "filter_sites", "filter_individuals", "filter_populations", "update_sample_flags",
    "reduce_to_site_topology",
)
DEFAULTS = {
    "keep_unary": False, "keep_unary_in_individuals": False, "keep_input_roots": False,
    "filter_nodes": True, "filter_sites": True, "filter_individuals": True,
    "filter_populations": True, "update_sample_flags": True,
    "reduce_to_site_topology": False,
}


def full_options(opts):
    d = dict(DEFAULTS)
    d.update(opts or {})
    return d


class Genealogy:
    """Retained genealogy at one position under one reading."""
    __slots__ = ("in_t", "kept", "parent", "only_child")

    def __init__(self, in_t, kept, parent, only_child):
        self.in_t = in_t          # tuple[bool]: node lies on a sample-to-root path
        self.kept = kept          # tuple[bool]: node is retained at this position
        self.parent = parent      # tuple[int]: output parent (input ids) or NULL
        self.only_child = only_child  # the unique child in T_x for unary nodes, else NULL

    def carrier(self, u):
        """The retained node that carries the lineage of u (u in T_x): u itself if it
        is retained, else the first retained node below it (u is then unary in T_x)."""
        guard = 0
        while not self.kept[u]:
            u = self.only_child[u]
            guard += 1
            if u == NULL or guard > len(self.kept):
                return NULL
        return u


def lineages(par, samples):
    n = len(par)
    in_t = [False] * n
    for s in samples:
        v = s
        while v != NULL and not in_t[v]:
            in_t[v] = True
            v = par[v]
    return in_t


def _genealogy(par, sample_set, in_t, has_individual, keep_unary, keep_unary_in_individuals,
               keep_input_roots, above_top):
    n = len(par)
    nch = [0] * n
    only = [NULL] * n
    for c in range(n):
        p = par[c]
        if in_t[c] and p != NULL:
            nch[p] += 1
            only[p] = c
    base = [in_t[u] and (u in sample_set or nch[u] >= 2) for u in range(n)]
    kept = list(base)
    for u in range(n):
        if not in_t[u] or kept[u]:
            continue
        unary_kept = keep_unary or (keep_unary_in_individuals and has_individual[u])
        if unary_kept and not above_top:
            # second reading: only below some sample/coalescence
            v = par[u]
            unary_kept = False
            while v != NULL:
                if base[v]:
                    unary_kept = True
                    break
                v = par[v]
        if unary_kept:
            kept[u] = True
        elif keep_input_roots and par[u] == NULL:
            kept[u] = True
    parent = [NULL] * n
    for u in range(n):
        if kept[u]:
            v = par[u]
            while v != NULL and not kept[v]:
                v = par[v]
            parent[u] = v
    for u in range(n):
        if nch[u] != 1:
            only[u] = NULL
    return Genealogy(tuple(in_t), tuple(kept), tuple(parent), tuple(only))


def genealogy_variants(par, samples, has_individual, opts):
    """Accepted retained genealogies at a position whose input parent map is `par`.
    The first entry is the reading "unary nodes up to the root are kept"."""
    sset = set(samples)
    in_t = lineages(par, samples)
    ku = bool(opts["keep_unary"])
    kui = bool(opts["keep_unary_in_individuals"])
    kir = bool(opts["keep_input_roots"])
    first = _genealogy(par, sset, in_t, has_individual, ku, kui, kir, True)
    out = [first]
    if (ku or kui) and not kir:
        second = _genealogy(par, sset, in_t, has_individual, ku, kui, kir, False)
        if second.kept != first.kept:
            out.append(second)
    return out


def expected_flags(in_flags, is_chosen, update_sample_flags):
    """Flag rule: with update_sample_flags exactly the chosen samples carry the sample
    bit and every other bit is untouched; without it flags are carried unchanged."""
    if not update_sample_flags:
        return in_flags
    return (in_flags & ~1) | (1 if is_chosen else 0)
