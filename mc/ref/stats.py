"""Reference model for the statistics API (C08), written from docs/stats.md and the
method docstrings, never from the C algorithms.

Everything is evaluated naively per genome cell / per site with exact arithmetic
(fractions.Fraction).  A value that the documentation leaves undefined (a division by
zero in a summary function, e.g. the diversity of a one-element sample set) is
represented by ``None`` and is sticky under addition.

Definitions used (docs/stats.md, "Mode", "Windows", "Span normalise", "Polarisation",
"Summary functions", TreeSequence.general_stat docstring):

* weight of a node in a tree = sum of the sample weights of all samples at or below it;
* site mode:   for every site with windows[k] <= position < windows[k+1], the sum over the
               alleles at the site (the ancestral allele left out iff polarised) of
               f(total weight of the samples carrying the allele); isolated samples carry
               the ancestral allele (docs/stats.md warning on missing data);
* branch mode: sum over trees, over nodes with a parent, of
               branch length x (span of tree within the window) x F(weight of node);
* node mode:   for every node, sum over trees of (span within the window) x F(weight);
  where F(x) = f(x) if polarised else f(x) + f(total - x);
* span_normalise divides a window's value by the window's span.
"""
import math
from fractions import Fraction as Fr
from itertools import combinations

from . import geno
from .trees import NULL

UNDEF = None


# --------------------------------------------------------------------------- vectors
def q(num, den):
    """num / den, or UNDEF when the documentation's formula divides by zero."""
    if num is UNDEF or den is UNDEF or den == 0:
        return UNDEF
    return Fr(num) / den


def vadd(a, b):
    return [UNDEF if (x is UNDEF or y is UNDEF) else x + y for x, y in zip(a, b)]


def vscale(c, a):
    return [UNDEF if x is UNDEF else c * x for x in a]


def zeros(m):
    return [Fr(0)] * m


# ----------------------------------------------------------------------------- counts
class Counts:
    """Per-cell, per-node weight vectors and per-site, per-allele weight vectors.

    W maps every sample node of ``rts`` to its weight vector (list of Fractions)."""

    def __init__(self, rts, W):
        self.rts = rts
        samples = rts.samples
        self.samples = samples
        self.k = len(W[samples[0]]) if samples else 0
        k = self.k
        self.total = [sum(W[s][j] for s in samples) for j in range(k)]
        self.cells = []
        for l, r in rts.intervals():
            rt = rts.tree_at(l)
            x = []
            for u in range(rts.N):
                below = rt.samples_below(u)
                x.append([sum(W[s][j] for s in below) for j in range(k)])
            self.cells.append((Fr(l), Fr(r), list(rt.parent), x))
        self.sites = []
        for sid, (pos, _anc) in enumerate(rts.sites):
            alleles = geno.site_allele_list(rts, sid)
            carried = geno.site_alleles(rts, sid, samples, isolated_as_missing=False)
            vec = {a: [0] * k for a in alleles}
            num = {a: 0 for a in alleles}
            for s, a in zip(samples, carried):
                vec[a] = [x + y for x, y in zip(vec[a], W[s])]
                num[a] += 1
            self.sites.append((Fr(pos), [(a, vec[a], num[a]) for a in alleles]))


def site_atoms(counts, f, m, polarised, present_only=False):
    """[(position, value)] ; present_only leaves out alleles carried by no sample (the
    documentation does not say whether an allele that no sample carries is 'an allele
    at the site'; only matters when f(0) != 0)."""
    out = []
    for pos, alleles in counts.sites:
        tot = zeros(m)
        for i, (_a, vec, ncar) in enumerate(alleles):
            if polarised and i == 0:
                continue
            if present_only and ncar == 0:
                continue
            tot = vadd(tot, f(vec))
        out.append((pos, tot))
    return out


def _F(f, total, polarised):
    if polarised:
        return f

    def g(x):
        return vadd(f(x), f([t - y for t, y in zip(total, x)]))

    return g


def branch_atoms(counts, f, m, polarised):
    """[(left, right, value)]"""
    times = counts.rts.times
    F = _F(f, counts.total, polarised)
    out = []
    for l, r, parent, x in counts.cells:
        tot = zeros(m)
        for u, p in enumerate(parent):
            if p == NULL:
                continue
            b = Fr(times[p]) - Fr(times[u])
            tot = vadd(tot, vscale(b, F(x[u])))
        out.append((l, r, tot))
    return out


def node_atoms(counts, f, m, polarised):
    """[(left, right, [value per node])]"""
    F = _F(f, counts.total, polarised)
    out = []
    for l, r, _parent, x in counts.cells:
        out.append((l, r, [F(x[u]) for u in range(counts.rts.N)]))
    return out


def window_pairs(windows):
    w = [Fr(x) for x in windows]
    return list(zip(w[:-1], w[1:]))


def windowed_sites(atoms, windows, m, span_normalise):
    out = []
    for a, b in window_pairs(windows):
        tot = zeros(m)
        for pos, v in atoms:
            if a <= pos < b:
                tot = vadd(tot, v)
        if span_normalise:
            tot = vscale(1 / (b - a), tot)
        out.append(tot)
    return out


def windowed_intervals(atoms, windows, m, span_normalise):
    out = []
    for a, b in window_pairs(windows):
        tot = zeros(m)
        for l, r, v in atoms:
            ov = min(r, b) - max(l, a)
            if ov > 0:
                tot = vadd(tot, vscale(ov, v))
        if span_normalise:
            tot = vscale(1 / (b - a), tot)
        out.append(tot)
    return out


def windowed_nodes(atoms, windows, m, N, span_normalise):
    out = []
    for a, b in window_pairs(windows):
        rows = [zeros(m) for _ in range(N)]
        for l, r, vals in atoms:
            ov = min(r, b) - max(l, a)
            if ov > 0:
                for u in range(N):
                    rows[u] = vadd(rows[u], vscale(ov, vals[u]))
        if span_normalise:
            rows = [vscale(1 / (b - a), row) for row in rows]
        out.append(rows)
    return out


def _np_vals(v):
    """nested lists of Fraction/None -> (float array with 0 for undefined, bool mask of undefined)"""
    import numpy as np

    def conv(x):
        if isinstance(x, list):
            return [conv(y) for y in x]
        return float("nan") if x is None else float(x)

    a = np.array(conv(v), dtype=float)
    und = np.isnan(a)
    return np.where(und, 0.0, a), und


class Evaluator:
    """Atoms (exact, Fractions) are computed once per (mode, polarised) for one
    (tree sequence, weights, f); the linear window accounting is then done on their
    float images (nan = undefined, sticky)."""

    def __init__(self, counts, f, m, selfcheck=False):
        self.counts, self.m = counts, m
        self._atoms = {}
        self._exact = {}
        self.selfcheck = selfcheck
        self._checked = set()
        memo = {}

        def fm(x):  # the summary function is pure: evaluate once per distinct argument
            key = tuple(x)
            r = memo.get(key)
            if r is None:
                r = memo[key] = f(list(x))
            return r

        self.f = fm

    def atoms(self, mode, polarised, present_only=False):
        import numpy as np
        key = (mode, polarised, present_only)
        if key not in self._atoms:
            if mode == "site":
                a = site_atoms(self.counts, self.f, self.m, polarised, present_only)
                l = np.array([float(p) for p, _ in a], dtype=float)
                r = None
                vals, und = _np_vals([v for _, v in a]) if a else (np.zeros((0, self.m)),
                                                                    np.zeros((0, self.m), bool))
            else:
                if mode == "branch":
                    a = branch_atoms(self.counts, self.f, self.m, polarised)
                else:
                    a = node_atoms(self.counts, self.f, self.m, polarised)
                l = np.array([float(x[0]) for x in a])
                r = np.array([float(x[1]) for x in a])
                vals, und = _np_vals([x[2] for x in a])
            shape = vals.shape[1:]
            flat = vals.reshape(vals.shape[0], -1)
            # A summary-function output whose documented formula divides by zero (for these
            # sample-set sizes) is undefined everywhere ("you'll just get nan everywhere that
            # the division by zero happens ... do not rely on 0 or nan"): whole column.
            ucol = np.zeros(self.m, dtype=bool)
            if und.any():
                ucol |= und.reshape(-1, self.m).any(axis=0)
            for probe in (zeros(self.counts.k), self.counts.total):
                ucol |= np.array([v is UNDEF for v in self.f(list(probe))], dtype=bool)
            self._atoms[key] = (l, r, flat, ucol if ucol.any() else None, shape)
        return self._atoms[key]

    def stat(self, windows, mode, polarised, span_normalise, present_only=False):
        """float array (num_windows, m) [site, branch] or (num_windows, N, m) [node]."""
        import numpy as np
        l, r, flat, uflat, shape = self.atoms(mode, polarised, present_only)
        w = np.asarray(windows, dtype=float)
        a, b = w[:-1, None], w[1:, None]
        if mode == "site":
            ov = ((a <= l) & (l < b)).astype(float)
        else:
            ov = np.minimum(r, b) - np.maximum(l, a)
            ov[ov < 0] = 0.0
        out = ov @ flat
        if span_normalise:
            out = out / (w[1:] - w[:-1])[:, None]
        out = out.reshape((len(w) - 1,) + shape)
        if self.selfcheck:
            self._selfcheck(out, windows, mode, polarised, span_normalise, present_only)
        if uflat is not None:
            out[..., uflat] = np.nan
        return out

    def _selfcheck(self, out, windows, mode, polarised, span_normalise, present_only):
        """Once per (mode, polarised, span_normalise, number of windows): the float window
        accounting must agree with the exact list-based definition above."""
        import numpy as np
        key = (mode, polarised, span_normalise, present_only, len(windows))
        if key in self._checked:
            return
        self._checked.add(key)
        akey = (mode, polarised, present_only)
        if akey not in self._exact:
            if mode == "site":
                self._exact[akey] = site_atoms(self.counts, self.f, self.m, polarised, present_only)
            elif mode == "branch":
                self._exact[akey] = branch_atoms(self.counts, self.f, self.m, polarised)
            else:
                self._exact[akey] = node_atoms(self.counts, self.f, self.m, polarised)
        a = self._exact[akey]
        if mode == "site":
            ex = windowed_sites(a, windows, self.m, span_normalise)
        elif mode == "branch":
            ex = windowed_intervals(a, windows, self.m, span_normalise)
        else:
            ex = windowed_nodes(a, windows, self.m, self.counts.rts.N, span_normalise)
        vals, und = _np_vals(ex)
        ok = np.abs(vals - out) <= 1e-12 * np.maximum(1.0, np.abs(vals))
        assert (ok | und).all(), "reference model: float window accounting differs from exact"


def indicator_weights(samples, sample_sets):
    """Plain ints: the weight of a node is then the number of samples of each set below it."""
    return {s: [1 if s in A else 0 for A in sample_sets] for s in samples}


def parse_windows(rts, windows):
    """docs/stats.md 'Windows'."""
    if windows is None:
        return [0.0, rts.L]
    if isinstance(windows, str):
        if windows == "trees":
            return rts.breakpoints()
        if windows == "sites":
            # "equivalent to passing [s.position for s in ts.sites()] + [sequence_length]";
            # the first window must begin at 0 ("a list of n+1 increasing numbers beginning
            # with 0"), so the first site's window starts at 0.
            pos = [p for p, _ in rts.sites]
            w = pos + [rts.L]
            if not pos:
                w = [0.0, rts.L]
            w[0] = 0.0
            return w
        raise ValueError(windows)
    return list(windows)


# ------------------------------------------------------- summary functions (docs/stats.md)
def sf_diversity(n):
    return lambda x: [q(x[j] * (n[j] - x[j]), n[j] * (n[j] - 1)) for j in range(len(n))]


def sf_segregating_sites(n):
    def f(x):
        out = []
        for j in range(len(n)):
            out.append((1 - Fr(x[j]) / n[j]) if x[j] > 0 else Fr(0))
        return out
    return f


def sf_Y1(n):
    return lambda x: [q(x[j] * (n[j] - x[j]) * (n[j] - x[j] - 1),
                        n[j] * (n[j] - 1) * (n[j] - 2)) for j in range(len(n))]


def sf_divergence(n, idx):
    def f(x):
        out = []
        for i, j in idx:
            if i == j:  # "unless the two indices are the same, when the diversity function is used"
                out.append(q(x[i] * (n[i] - x[i]), n[i] * (n[i] - 1)))
            else:
                out.append(q(x[i] * (n[j] - x[j]), n[i] * n[j]))
        return out
    return f


def sf_genetic_relatedness(n, idx, centre):
    K = len(n)

    def f(x):
        p = [Fr(x[k]) / n[k] for k in range(K)]
        mean = sum(p, Fr(0)) / K if centre else Fr(0)
        return [(p[i] - mean) * (p[j] - mean) for i, j in idx]
    return f


def sf_Y2(n, idx):
    return lambda x: [q(x[i] * (n[j] - x[j]) * (n[j] - x[j] - 1), n[i] * n[j] * (n[j] - 1))
                      for i, j in idx]


def sf_f2(n, idx):
    def f(x):
        out = []
        for i, j in idx:
            den = n[i] * (n[i] - 1) * n[j] * (n[j] - 1)
            num = (x[i] * (x[i] - 1) * (n[j] - x[j]) * (n[j] - x[j] - 1)
                   - x[i] * (n[i] - x[i]) * (n[j] - x[j]) * x[j])
            out.append(q(num, den))
        return out
    return f


def sf_Y3(n, idx):
    return lambda x: [q(x[i] * (n[j] - x[j]) * (n[k] - x[k]), n[i] * n[j] * n[k])
                      for i, j, k in idx]


def sf_f3(n, idx):
    def f(x):
        out = []
        for i, j, k in idx:
            den = n[i] * (n[i] - 1) * n[j] * n[k]
            num = (x[i] * (x[i] - 1) * (n[j] - x[j]) * (n[k] - x[k])
                   - x[i] * (n[i] - x[i]) * (n[j] - x[j]) * x[k])
            out.append(q(num, den))
        return out
    return f


def sf_f4(n, idx):
    def f(x):
        out = []
        for i, j, k, l in idx:
            den = n[i] * n[j] * n[k] * n[l]
            num = (x[i] * x[k] * (n[j] - x[j]) * (n[l] - x[l])
                   - x[i] * x[l] * (n[j] - x[j]) * (n[k] - x[k]))
            out.append(q(num, den))
        return out
    return f


def sf_relatedness_weighted(colsum, idx, centre, nsamples):
    """x = (weights below ..., number of samples below); docs/stats.md
    'genetic_relatedness_weighted'."""
    def f(x):
        p = Fr(x[-1]) / nsamples if centre else Fr(0)
        return [(x[i] - colsum[i] * p) * (x[j] - colsum[j] * p) for i, j in idx]
    return f


# ------------------------------------------------------------------------ trait statistics
# Written from the docstrings' definitions on the inheritance indicator g itself (x is the 0/1
# vector "sample i inherits from this allele / branch / node", obtained with one indicator
# weight per sample), not from the weight-sum form the library uses.
def _centre(col):
    mu = Fr(sum(col)) / len(col)
    return [c - mu for c in col]


def sf_trait_covariance(cols):
    """(sample covariance of g and w)^2 / 2 per atom; the unpolarised evaluation adds the
    complement's equal share (trait_covariance docstring; docs/stats.md f(w) = w^2/(2(n-1)^2))."""
    n = len(cols[0])
    cen = [_centre(c) for c in cols]

    def f(g):
        return [(sum(gi * wi for gi, wi in zip(g, w)) / (n - 1)) ** 2 / 2 for w in cen]
    return f


def sf_trait_correlation(cols):
    """squared Pearson correlation of g and w, halved; 0 where g is constant (p(1-p) = 0)."""
    n = len(cols[0])
    cen = [_centre(c) for c in cols]
    var = [sum(x * x for x in w) / (n - 1) for w in cen]

    def f(g):
        gc = _centre(list(g))
        vg = sum(x * x for x in gc) / (n - 1)
        if vg == 0:
            return [Fr(0)] * len(cen)
        return [(sum(a * b for a, b in zip(gc, w)) / (n - 1)) ** 2 / (vg * vw) / 2
                for w, vw in zip(cen, var)]
    return f


def _solve(A, b):
    """exact Gaussian elimination; A square non-singular (lists of Fractions)."""
    k = len(A)
    M = [list(r) + [x] for r, x in zip(A, b)]
    for c in range(k):
        piv = next(r for r in range(c, k) if M[r][c] != 0)
        M[c], M[piv] = M[piv], M[c]
        pv = M[c][c]
        M[c] = [x / pv for x in M[c]]
        for r in range(k):
            if r != c and M[r][c] != 0:
                fct = M[r][c]
                M[r] = [x - fct * y for x, y in zip(M[r], M[c])]
    return [M[r][k] for r in range(k)]


def _independent(cols):
    """a maximal linearly independent prefix-greedy subset of the columns."""
    out = []
    for c in cols:
        if _residual(c, out) is not None:
            out.append(c)
    return out


def _residual(v, basis):
    """v minus its least-squares projection on span(basis); None if that is the zero vector."""
    if basis:
        A = [[sum(a * b for a, b in zip(bi, bj)) for bj in basis] for bi in basis]
        rhs = [sum(a * b for a, b in zip(bi, v)) for bi in basis]
        coef = _solve(A, rhs)
        r = [x - sum(c * bi[i] for c, bi in zip(coef, basis)) for i, x in enumerate(v)]
    else:
        r = list(v)
    return r if any(x != 0 for x in r) else None


def sf_trait_linear_model(cols, zcols):
    """(coefficient of g in the least-squares fit w ~ 1 + g + Z)^2 / 2; 0 if g lies in the span
    of the intercept and the covariates (trait_linear_model docstring)."""
    n = len(cols[0])
    basis = _independent([[Fr(1)] * n] + [list(z) for z in zcols])

    def f(g):
        r = _residual(list(g), basis)
        if r is None:
            return [Fr(0)] * len(cols)
        d = sum(x * x for x in r)
        return [(sum(a * b for a, b in zip(r, w)) / d) ** 2 / 2 for w in cols]
    return f


ONE_WAY = {"diversity": sf_diversity, "segregating_sites": sf_segregating_sites, "Y1": sf_Y1}
K_WAY = {"divergence": (2, sf_divergence), "Y2": (2, sf_Y2), "f2": (2, sf_f2),
         "Y3": (3, sf_Y3), "f3": (3, sf_f3), "f4": (4, sf_f4)}


# -------------------------------------------------------------------------------- AFS
def afs_increments(rts, sample_sets, mode, polarised):
    """Unfolded increments, docs/stats.md 'Allele frequency spectrum'.
    Returns ("site", [(pos, coord, inc)]) or ("branch", [(l, r, coord, inc)]).
    For the unpolarised site AFS each allele (ancestral included) adds 1/2, for the
    unpolarised branch AFS each branch adds its full length (expected value of the site
    AFS); folding is applied by the caller.  Alleles / branches inherited by none or by
    all of the samples of the tree sequence are not counted."""
    samples = rts.samples
    ns = len(samples)
    W = {s: [1 if s in A else 0 for A in sample_sets] + [1] for s in samples}
    counts = Counts(rts, W)
    out = []
    if mode == "site":
        for pos, alleles in counts.sites:
            for i, (_a, vec, _n) in enumerate(alleles):
                if polarised and i == 0:
                    continue
                tot = vec[-1]
                if 0 < tot < ns:
                    out.append((pos, tuple(int(c) for c in vec[:-1]),
                                Fr(1) if polarised else Fr(1, 2)))
        return out
    times = rts.times
    for l, r, parent, x in counts.cells:
        for u, p in enumerate(parent):
            if p == NULL:
                continue
            tot = x[u][-1]
            if 0 < tot < ns:
                out.append((l, r, tuple(int(c) for c in x[u][:-1]),
                            Fr(times[p]) - Fr(times[u])))
    return out


def afs_windows(incs, mode, windows, span_normalise):
    """list over windows of {coord: value} (unfolded)."""
    out = []
    for a, b in window_pairs(windows):
        d = {}
        for rec in incs:
            if mode == "site":
                pos, c, inc = rec
                if not (a <= pos < b):
                    continue
                v = inc
            else:
                l, r, c, bl = rec
                ov = min(r, b) - max(l, a)
                if ov <= 0:
                    continue
                v = bl * ov
            d[c] = d.get(c, Fr(0)) + v
        if span_normalise:
            d = {c: v / (b - a) for c, v in d.items()}
        out.append(d)
    return out


# ------------------------------------------------------------- dedicated algorithms
def gnn(rts, focal, reference_sets):
    """TreeSequence.genealogical_nearest_neighbours docstring.  Returns rows of
    Fractions, or None for a focal node with no defined GNN in any tree."""
    ref_of = {}
    for k, S in enumerate(reference_sets):
        for u in S:
            ref_of[u] = k
    K = len(reference_sets)
    out = []
    for u in focal:
        acc = [Fr(0)] * K
        length = Fr(0)
        for l, r in rts.intervals():
            rt = rts.tree_at(l)
            a = u
            found = None
            while a != NULL:
                others = [v for v in rt.subtree(a) if v in ref_of and v != u]
                if others:
                    found = others
                    break
                a = rt.parent[a]
            if found is None:
                continue
            span = Fr(r) - Fr(l)
            length += span
            for k in range(K):
                acc[k] += span * Fr(sum(1 for v in found if ref_of[v] == k), len(found))
        out.append([x / length for x in acc] if length > 0 else None)
    return out


def mean_descendants(rts, sample_sets, denominator="reference"):
    """TreeSequence.mean_descendants docstring: C[node, j] = total span of all genomes in
    sample_sets[j] that inherit from node / total span on which node is an ancestor of
    any sample.  denominator: "reference" = any node of the given sets, "samples" = any
    sample of the tree sequence (the docstring's literal wording)."""
    allref = set()
    for S in sample_sets:
        allref.update(S)
    samples = set(rts.samples)
    out = []
    for u in range(rts.N):
        num = [Fr(0)] * len(sample_sets)
        den = Fr(0)
        for l, r in rts.intervals():
            rt = rts.tree_at(l)
            sub = set(rt.subtree(u))
            span = Fr(r) - Fr(l)
            anc = sub & (allref if denominator == "reference" else samples)
            if anc:
                den += span
            for j, S in enumerate(sample_sets):
                num[j] += span * len(sub & set(S))
        out.append([q(x, den) for x in num])
    return out


def pair_coalescence_counts(rts, sample_sets, indexes, windows, span_normalise,
                            pair_normalise, count_ancestor_pairs):
    """TreeSequence.pair_coalescence_counts docstring: for every node the number of
    sample pairs (one from each indexed set; unordered distinct pairs when the two
    indexes are equal) whose most recent common ancestor is that node, summed over trees
    weighted by span.  count_ancestor_pairs: whether a pair in which one sample is an
    ancestor of the other counts as coalescing in the ancestor (not specified)."""
    N = rts.N
    out = []
    for a, b in window_pairs(windows):
        rows = [[Fr(0)] * N for _ in indexes]
        nonmissing = Fr(0)
        for l, r in rts.intervals():
            ov = min(Fr(r), b) - max(Fr(l), a)
            if ov <= 0:
                continue
            rt = rts.tree_at(l)
            if any(p != NULL for p in rt.parent):
                nonmissing += ov
            for ii, (j, k) in enumerate(indexes):
                if j == k:
                    pairs = list(combinations(sample_sets[j], 2))
                else:
                    pairs = [(x, y) for x in sample_sets[j] for y in sample_sets[k]]
                for x, y in pairs:
                    m = rt.mrca(x, y)
                    if m == NULL:
                        continue
                    if (m == x or m == y) and not count_ancestor_pairs:
                        continue
                    rows[ii][m] += ov
        for ii, (j, k) in enumerate(indexes):
            den = Fr(1)
            if span_normalise:
                den *= nonmissing
            if pair_normalise:
                nj, nk = len(sample_sets[j]), len(sample_sets[k])
                den *= Fr(nj * (nj - 1), 2) if j == k else Fr(nj * nk)
            rows[ii] = [q(v, den) for v in rows[ii]]
        out.append(rows)
    return out


def r2(rts, a, b):
    """r^2 between two biallelic sites from the samples' genotype vectors."""
    samples = rts.samples
    n = len(samples)
    ga = [x != rts.sites[a][1] for x in geno.site_alleles(rts, a, samples, False)]
    gb = [x != rts.sites[b][1] for x in geno.site_alleles(rts, b, samples, False)]
    pa, pb = Fr(sum(ga), n), Fr(sum(gb), n)
    pab = Fr(sum(1 for x, y in zip(ga, gb) if x and y), n)
    D = pab - pa * pb
    return q(D * D, pa * (1 - pa) * pb * (1 - pb))


# ------------------------------------------------------------------- tree distances
def kc_valid(rt):
    """Single root, no unary nodes (Tree.kc_distance requirements)."""
    if len(rt.roots(1)) != 1:
        return False
    return all(len(c) != 1 for c in rt.children)


def kc_vectors(rt):
    """Kendall & Colijn (2016): for every pair of samples the number of edges / the
    branch length between the root and their MRCA, then for every sample 1 / the length
    of the branch above it."""
    rts = rt.rts
    S = rts.samples
    root = rt.roots(1)[0]
    m, M = [], []
    for x, y in combinations(S, 2):
        a = rt.mrca(x, y)
        m.append(rt.depth(a))
        M.append(rts.times[root] - rts.times[a])
    for x in S:
        m.append(1)
        M.append(rt.branch_length(x))
    return m, M


def kc_distance(rt1, rt2, lam):
    m1, M1 = kc_vectors(rt1)
    m2, M2 = kc_vectors(rt2)
    tot = 0.0
    for a, A, b, B in zip(m1, M1, m2, M2):
        d = (lam * A + (1 - lam) * a) - (lam * B + (1 - lam) * b)
        tot += d * d
    return math.sqrt(tot)


def kc_distance_ts(rts1, rts2, lam):
    """TreeSequence.kc_distance docstring: average Tree.kc_distance over overlapping
    tree pairs weighted by the fraction of the sequence of the overlap."""
    bps = sorted(set(rts1.breakpoints()) | set(rts2.breakpoints()))
    tot = 0.0
    for l, r in zip(bps[:-1], bps[1:]):
        tot += kc_distance(rts1.tree_at(l), rts2.tree_at(l), lam) * (r - l)
    return tot / rts1.L


def clades(rt):
    """Sample sets below every node of the rooted tree (non-empty ones)."""
    out = set()
    for u in rt.nodes_in_tree(1):
        s = frozenset(rt.samples_below(u))
        if s:
            out.add(s)
    return out


def rf_distance(rt1, rt2):
    return len(clades(rt1) ^ clades(rt2))
