"""Reference model of the editing operations (C11), written from the method docstrings
in python/tskit/trees.py / tables.py and the property statement -- not from the numpy / C code.

A *model* is a plain dict of Python row lists (see mc/props/c11.py:snap):

  L            float
  nodes        [(flags, time, population, individual, metadata)]
  edges        [(left, right, parent, child, metadata)]
  sites        [(position, ancestral_state, metadata)]
  mutations    [(site, node, derived_state, parent, time|None, metadata)]   (None = UNKNOWN_TIME)
  migrations   [(left, right, node, source, dest, time, metadata)]
  individuals  [(flags, location, parents, metadata)]
  populations  [(metadata,)]
  provenances  [(timestamp, record)]
  top          tuple of top-level things (metadata bytes, schemas, time units)

Every function returns a new model (or a partial expectation) and never touches its input.
"""
NULL = -1
REFUSE = "REFUSE"


def clone(M):
    return {k: (list(v) if isinstance(v, list) else v) for k, v in M.items()}


# ----------------------------------------------------------------------------------
# position-wise views
# ----------------------------------------------------------------------------------
def edge_cover(edges, x):
    """Sorted list of (child, parent, metadata) of all edge rows covering x."""
    return sorted((c, p, md) for (l, r, p, c, md) in edges if l <= x < r)


def migration_cover(migrations, x):
    return sorted((n, s, d, t, md) for (l, r, n, s, d, t, md) in migrations if l <= x < r)


def parent_map(edges, N, x):
    par = [NULL] * N
    for (l, r, p, c, _md) in edges:
        if l <= x < r:
            par[c] = p
    return par


def in_intervals(intervals, x):
    return any(a <= x < b for a, b in intervals)


# ----------------------------------------------------------------------------------
# sites / mutations filtering with order preserving id remap
# ----------------------------------------------------------------------------------
def filter_sites(M, keep_site):
    """keep_site: list of bool per site.  Returns (sites, mutations) rows; mutation parents
    always sit at the same site, so a retained mutation's parent is retained too."""
    smap = {}
    sites = []
    for j, row in enumerate(M["sites"]):
        if keep_site[j]:
            smap[j] = len(sites)
            sites.append(row)
    mmap = {NULL: NULL}
    kept = []
    for j, row in enumerate(M["mutations"]):
        if row[0] in smap:
            mmap[j] = len(kept)
            kept.append(row)
    muts = []
    for (s, node, der, par, t, md) in kept:
        muts.append((smap[s], node, der, mmap[par], t, md))
    return sites, muts


# ----------------------------------------------------------------------------------
# keep_intervals / delete_intervals  (simplify=False)
# ----------------------------------------------------------------------------------
def negate(intervals, L):
    out = []
    last = 0.0
    for a, b in intervals:
        if a != last:
            out.append((last, a))
        last = b
    if last != L:
        out.append((last, L))
    return out


def keep_intervals_sites(M, intervals):
    """Exact expected site and mutation tables after keeping `intervals`."""
    keep = [in_intervals(intervals, row[0]) for row in M["sites"]]
    return filter_sites(M, keep)


def edge_piece_bounds(rows, intervals):
    """(min, max) number of output rows for the interval-bearing `rows` (edges or migrations):
    every row is truncated to the intervals, so it yields at least one piece per maximal
    retained run it meets and at most one piece per listed interval it meets."""
    merged = []
    for a, b in intervals:
        if merged and merged[-1][1] == a:
            merged[-1] = (merged[-1][0], b)
        else:
            merged.append((a, b))
    lo = hi = 0
    for row in rows:
        l, r = row[0], row[1]
        lo += sum(1 for a, b in merged if l < b and a < r)
        hi += sum(1 for a, b in intervals if l < b and a < r)
    return lo, hi


# ----------------------------------------------------------------------------------
# delete_sites
# ----------------------------------------------------------------------------------
def delete_sites(M, site_ids):
    out = clone(M)
    drop = set(site_ids)
    keep = [j not in drop for j in range(len(M["sites"]))]
    out["sites"], out["mutations"] = filter_sites(M, keep)
    return out


# ----------------------------------------------------------------------------------
# ltrim / rtrim / trim
# ----------------------------------------------------------------------------------
def trim(M, op):
    """Returns (expected model | REFUSE, must_refuse, may_refuse).

    Documented: ltrim moves the leftmost edge to 0 and throws away sites left of the new
    zero; rtrim sets sequence_length to the end of the rightmost edge and throws away sites
    at or beyond it; trim does both.  Nothing else may change.  A table collection with no
    edges is refused.  Migrations reaching beyond the span of the edges cannot be
    represented after the shift (left < 0 or right > L), so such a call must be refused
    (the library's message says: "Cannot trim a tree sequence with migrations which exist
    to the left of the leftmost edge or to the right of the rightmost edge")."""
    if not M["edges"]:
        return REFUSE, True, True
    leftmost = min(e[0] for e in M["edges"])
    rightmost = max(e[1] for e in M["edges"])
    lo = leftmost if op in ("ltrim", "trim") else 0.0
    hi = rightmost if op in ("rtrim", "trim") else M["L"]
    migs = M["migrations"]
    must = any(g[0] < lo or g[1] > hi for g in migs)
    may = any(g[0] < leftmost or g[1] > rightmost for g in migs)
    out = clone(M)
    out["L"] = hi - lo
    out["edges"] = [(l - lo, r - lo, p, c, md) for (l, r, p, c, md) in M["edges"]]
    out["migrations"] = [(l - lo, r - lo, n, s, d, t, md) for (l, r, n, s, d, t, md) in migs]
    keep = [lo <= row[0] < hi for row in M["sites"]]
    sites, muts = filter_sites(M, keep)
    out["sites"] = [(x - lo, anc, md) for (x, anc, md) in sites]
    out["mutations"] = muts
    return out, must, may


# ----------------------------------------------------------------------------------
# time edits
# ----------------------------------------------------------------------------------
def mutation_time(M, row):
    """A mutation's time is its time value, or the time of its node if unknown."""
    t = row[4]
    return M["nodes"][row[1]][1] if t is None else t


def filter_mutations_older(M, mutations, cutoff):
    """Remove every mutation whose time is >= cutoff, remapping parents; a parent that is
    removed leaves NULL (it is at least as old as its child, so are all its ancestors)."""
    mmap = {NULL: NULL}
    kept = []
    for j, row in enumerate(mutations):
        if mutation_time(M, row) < cutoff:
            mmap[j] = len(kept)
            kept.append(row)
    out = []
    for (s, node, der, par, t, md) in kept:
        out.append((s, node, der, mmap.get(par, NULL), t, md))
    return out


def delete_older(M, cutoff):
    """TableCollection.delete_older docstring: edges with parent time > cutoff removed,
    mutations with time >= cutoff removed, migrations with time >= cutoff removed, node table
    unaffected, mutation parents maintained."""
    out = clone(M)
    tm = [n[1] for n in M["nodes"]]
    out["edges"] = [e for e in M["edges"] if not tm[e[2]] > cutoff]
    out["mutations"] = filter_mutations_older(M, M["mutations"], cutoff)
    out["migrations"] = [g for g in M["migrations"] if not g[5] >= cutoff]
    return out


def _covering_edge(M, child, x):
    for j, (l, r, p, c, _md) in enumerate(M["edges"]):
        if c == child and l <= x < r:
            return j
    return None


def split_edges(M, cutoff, flags, population, metadata):
    """TreeSequence.split_edges docstring.  New nodes are named ("new", left, child) of the
    edge they split (an edge is identified by its child and left end in a valid tree
    sequence); the caller canonicalises the real output the same way."""
    out = clone(M)
    tm = [n[1] for n in M["nodes"]]
    edges = []
    nsplit = 0
    is_split = []
    for (l, r, p, c, md) in M["edges"]:
        if tm[c] < cutoff < tm[p]:
            u = ("new", l, c)
            edges.append((l, r, p, u, md))
            edges.append((l, r, u, c, md))
            nsplit += 1
            is_split.append(True)
        else:
            edges.append((l, r, p, c, md))
            is_split.append(False)
    out["edges"] = edges
    out["nodes"] = list(M["nodes"]) + [(flags, cutoff, population, NULL, metadata)] * nsplit
    muts = []
    for row in M["mutations"]:
        s, node, der, par, t, md = row
        x = M["sites"][s][0]
        e = _covering_edge(M, node, x)
        if e is not None and is_split[e] and mutation_time(M, row) >= cutoff:
            node = ("new", M["edges"][e][0], M["edges"][e][3])
        muts.append((s, node, der, par, t, md))
    out["mutations"] = muts
    return out


def decapitate(M, cutoff, flags, population, metadata):
    """TreeSequence.decapitate docstring: edges whose child time is >= cutoff are removed;
    edges intersecting the cutoff get a new parent node at time cutoff; edges wholly at or
    below the cutoff stay; mutations with time >= cutoff are removed; the node table is
    only appended to."""
    out = clone(M)
    tm = [n[1] for n in M["nodes"]]
    edges = []
    nnew = 0
    for (l, r, p, c, md) in M["edges"]:
        if tm[c] >= cutoff:
            continue
        if tm[c] < cutoff < tm[p]:
            edges.append((l, r, ("new", l, c), c, md))
            nnew += 1
        elif tm[p] <= cutoff:
            edges.append((l, r, p, c, md))
    out["edges"] = edges
    out["nodes"] = list(M["nodes"]) + [(flags, cutoff, population, NULL, metadata)] * nnew
    out["mutations"] = filter_mutations_older(M, M["mutations"], cutoff)
    return out


def canonical_new_nodes(M, N0):
    """Rename nodes with id >= N0 in a real output model to ("new", left, child) using
    the unique edge row in which the node is the parent.  Returns (model, problems)."""
    problems = []
    down = {}
    for (l, r, p, c, md) in M["edges"]:
        if isinstance(p, int) and p >= N0:
            if p in down:
                problems.append(f"new node {p} is the parent in more than one edge row")
            down[p] = ("new", l, c)
    # chains of new nodes cannot occur (a new node's child is an old node)
    for u, name in down.items():
        if isinstance(name[2], int) and name[2] >= N0:
            problems.append(f"new node {u} has new node {name[2]} as child")

    def nm(u):
        if isinstance(u, int) and u >= N0:
            if u not in down:
                return ("orphan", u)
            return down[u]
        return u

    out = clone(M)
    out["edges"] = [(l, r, nm(p), nm(c), md) for (l, r, p, c, md) in M["edges"]]
    out["mutations"] = [(s, nm(n), der, par, t, md) for (s, n, der, par, t, md) in M["mutations"]]
    for u in range(N0, len(M["nodes"])):
        if u not in down:
            problems.append(f"new node {u} is not the parent of any edge")
    return out, problems


# ----------------------------------------------------------------------------------
# extend_haplotypes: documented invariants
# ----------------------------------------------------------------------------------
def path_up(par, u):
    out = []
    while u != NULL:
        out.append(u)
        u = par[u]
        if len(out) > len(par) + 1:
            raise RuntimeError("cycle")
    return out


def extend_position_problems(Min, Mout, x):
    """At position x the output tree may differ from the input tree only by non-sample
    nodes that were not in the input tree at x having been inserted, as unary nodes, into
    existing parent-child paths ("n is inserted into the path from p to c")."""
    N = len(Min["nodes"])
    pin = parent_map(Min["edges"], N, x)
    pout = parent_map(Mout["edges"], N, x)
    in_tree = set()
    for c, p in enumerate(pin):
        if p != NULL:
            in_tree.add(c)
            in_tree.add(p)
    kids_out = [0] * N
    for c, p in enumerate(pout):
        if p != NULL:
            kids_out[p] += 1
    problems = []
    for c in range(N):
        if c in in_tree:
            a = path_up(pin, c)
            b = [v for v in path_up(pout, c) if v in in_tree]
            if a != b:
                problems.append(f"x={x}: path from node {c} was {a}, is now {path_up(pout, c)}")
        elif pout[c] != NULL or kids_out[c] > 0:
            if Min["nodes"][c][0] & 1:
                problems.append(f"x={x}: sample node {c} was inserted into the tree")
            if pout[c] == NULL or kids_out[c] != 1:
                problems.append(
                    f"x={x}: node {c} newly in the tree has parent {pout[c]} and "
                    f"{kids_out[c]} children (expected a unary node inside a path)")
    return problems


def extend_mutation_node_ok(Min, Mout, j):
    """The mutation keeps its place on the lineage: in the output tree at the site, its node
    must be on the path upwards from its old node, not younger than allowed by the
    mutation time and the branch above it must still contain the mutation time.  (A
    mutation exactly as old as an inserted node may sit on either side.)"""
    s, node_in, _, _, t, _ = Min["mutations"][j]
    node_out = Mout["mutations"][j][1]
    x = Min["sites"][s][0]
    N = len(Min["nodes"])
    pout = parent_map(Mout["edges"], N, x)
    tm = [n[1] for n in Min["nodes"]]
    path = path_up(pout, node_in)
    if node_out not in path:
        return False
    if tm[node_out] > t:
        return False
    p = pout[node_out]
    if p != NULL and tm[p] < t:
        return False
    return True
