"""Reference genotype rule: the allele of node u at a site is the derived state of the
nearest mutation at that site on the path from u towards its root (last listed if
several sit on one node), else the ancestral state; missing iff isolated_as_missing and
u is an isolated sample node with no mutation directly above it."""
from .trees import NULL

MISSING = None


def site_alleles(rts, site_id, nodes, isolated_as_missing=True):
    """Return list of allele strings (or MISSING) for the given nodes."""
    pos, anc = rts.sites[site_id]
    par = rts.parent_map(pos)
    has_child = [False] * rts.N
    for c, p in enumerate(par):
        if p != NULL:
            has_child[p] = True
    muts_on = {}
    for j, (s, node, der, _, _) in enumerate(rts.mutations):
        if s == site_id:
            muts_on.setdefault(node, []).append(der)
    out = []
    for u in nodes:
        v = u
        state = None
        while v != NULL:
            if v in muts_on:
                state = muts_on[v][-1]
                break
            v = par[v]
        if state is None:
            if (isolated_as_missing and rts.flags[u] and par[u] == NULL
                    and not has_child[u] and u not in muts_on):
                out.append(MISSING)
                continue
            state = anc
        out.append(state)
    return out


def site_allele_list(rts, site_id):
    """Alleles in tskit's documented order: ancestral first, then derived states in
    mutation table order, without repeats."""
    pos, anc = rts.sites[site_id]
    alleles = [anc]
    for s, node, der, _, _ in rts.mutations:
        if s == site_id and der not in alleles:
            alleles.append(der)
    return alleles
