"""Reference model for C07 (sort / repair tools): a table is a Python list of row tuples.

Written from the documentation of TableCollection.sort / deduplicate_sites /
compute_mutation_parents / compute_mutation_times / EdgeTable.squash and the data-model
requirement lists -- not from the C algorithms.

A collection ("coll") is a dict
    L            sequence length
    nodes        [(flags, time, population, individual, metadata)]
    individuals  [(flags, location tuple, parents tuple, metadata)]
    populations  [(metadata,)]
    edges        [(left, right, parent, child, metadata)]
    sites        [(position, ancestral_state, metadata)]
    mutations    [(site, node, derived_state, parent, time | None, metadata)]   None = UNKNOWN_TIME
    migrations   [(left, right, node, source, dest, time, metadata)]
All strings are str (latin-1 on the wire), so a coll is JSON-serialisable.
"""
from .trees import NULL, RefTS

TABLES = ("nodes", "individuals", "populations", "edges", "sites", "mutations", "migrations")


def empty(L):
    c = {"L": float(L)}
    for t in TABLES:
        c[t] = []
    return c


def clone(c):
    out = {"L": c["L"]}
    for t in TABLES:
        out[t] = list(c[t])
    return out


def from_json(d):
    """Normalise a coll that went through JSON (lists -> tuples)."""
    out = {"L": float(d["L"])}
    for t in TABLES:
        rows = []
        for r in d.get(t, []):
            r = list(r)
            if t == "individuals":
                r[1] = tuple(r[1])
                r[2] = tuple(r[2])
            rows.append(tuple(r))
        out[t] = rows
    return out


# --------------------------------------------------------------------------------------
# permuting rows (new[i] = old[perm[i]]) with every reference to the table remapped
# --------------------------------------------------------------------------------------
def permute(c, table, perm):
    n = len(c[table])
    assert sorted(perm) == list(range(n)), (table, perm, n)
    new_of_old = [0] * n
    for i, o in enumerate(perm):
        new_of_old[o] = i

    def mp(x):
        return x if x == NULL else new_of_old[x]

    out = clone(c)
    rows = [c[table][o] for o in perm]
    if table == "sites":
        out["mutations"] = [(mp(s), nd, d, p, t, md) for s, nd, d, p, t, md in c["mutations"]]
    elif table == "mutations":
        rows = [(s, nd, d, mp(p), t, md) for s, nd, d, p, t, md in rows]
    elif table == "individuals":
        rows = [(f, loc, tuple(mp(p) for p in par), md) for f, loc, par, md in rows]
        out["nodes"] = [(f, t, pop, mp(ind), md) for f, t, pop, ind, md in c["nodes"]]
    elif table == "populations":
        out["nodes"] = [(f, t, mp(pop), ind, md) for f, t, pop, ind, md in c["nodes"]]
        out["migrations"] = [(l, r, nd, mp(s), mp(d), t, md)
                             for l, r, nd, s, d, t, md in c["migrations"]]
    elif table in ("edges", "migrations"):
        pass
    else:
        raise ValueError(table)
    out[table] = rows
    return out


# --------------------------------------------------------------------------------------
# TableCollection.sort
# --------------------------------------------------------------------------------------
def edge_key(times):
    return lambda e: (times[e[2]], e[2], e[3], e[0])


def migration_key(m):
    return (m[5], m[3], m[4], m[0], m[2])


def has_ties(rows, key):
    ks = [key(r) for r in rows]
    return len(set(ks)) != len(ks)


def ref_sort(c, edge_start=0, skip_sites_mutations=False):
    """Documented result of TableCollection.sort(edge_start, site_start, mutation_start)
    where the (site_start, mutation_start) pair is either (0, 0) or (len, len)."""
    out = clone(c)
    times = [n[1] for n in c["nodes"]]
    E = c["edges"]
    out["edges"] = E[:edge_start] + sorted(E[edge_start:], key=edge_key(times))
    out["migrations"] = sorted(c["migrations"], key=migration_key)
    if not skip_sites_mutations:
        S = c["sites"]
        order = sorted(range(len(S)), key=lambda j: S[j][0])  # stable: equal positions keep order
        new_site = [0] * len(S)
        for i, o in enumerate(order):
            new_site[o] = i
        out["sites"] = [S[o] for o in order]
        M = c["mutations"]

        def mkey(j):
            t = M[j][4]
            return (new_site[M[j][0]], 0.0 if t is None else -t)

        morder = sorted(range(len(M)), key=mkey)  # stable: equal/unknown times keep order
        new_mut = [0] * len(M)
        for i, o in enumerate(morder):
            new_mut[o] = i
        out["mutations"] = [
            (new_site[M[o][0]], M[o][1], M[o][2],
             NULL if M[o][3] == NULL else new_mut[M[o][3]], M[o][4], M[o][5])
            for o in morder
        ]
    return out


def sites_mixed_times(c):
    """True iff some site has both known and unknown mutation times (invalid input)."""
    kinds = {}
    for s, _, _, _, t, _ in c["mutations"]:
        kinds.setdefault(s, set()).add(t is None)
    return any(len(v) > 1 for v in kinds.values())


# --------------------------------------------------------------------------------------
# deduplicate_sites
# --------------------------------------------------------------------------------------
def ref_dedup(c):
    """Sites sorted by position on entry; keep the first row of each position and
    renumber mutation.site."""
    out = clone(c)
    S = c["sites"]
    assert all(a[0] <= b[0] for a, b in zip(S, S[1:]))
    keep = []
    m = []
    for j, s in enumerate(S):
        if j == 0 or S[j - 1][0] != s[0]:
            keep.append(s)
        m.append(len(keep) - 1)
    out["sites"] = keep
    out["mutations"] = [(m[s], nd, d, p, t, md) for s, nd, d, p, t, md in c["mutations"]]
    return out


# --------------------------------------------------------------------------------------
# trees / mutation parents / mutation times
# --------------------------------------------------------------------------------------
def rts_of(c):
    return RefTS(
        [n[1] for n in c["nodes"]], [n[0] & 1 for n in c["nodes"]],
        [(l, r, p, ch) for l, r, p, ch, _ in c["edges"]], c["L"],
        [(s[0], s[1]) for s in c["sites"]],
        [(s, nd, d, p, t) for s, nd, d, p, t, _ in c["mutations"]],
    )


def nearest_parents(par, nodes):
    """The documented rule: the parent of a mutation is the next mutation met walking up
    the tree from it.  nodes = the mutation nodes at one site in table order.  Several
    mutations on one node form a chain in table order (earlier = older), so the mutation
    met first when coming from below is the last listed one on that node.  Returns local
    indexes or -1."""
    out = []
    for j, u in enumerate(nodes):
        best = NULL
        for k in range(j - 1, -1, -1):
            if nodes[k] == u:
                best = k
                break
        if best == NULL:
            v = par[u]
            while v != NULL and best == NULL:
                for k in range(len(nodes) - 1, -1, -1):
                    if nodes[k] == v:
                        best = k
                        break
                v = par[v]
        out.append(best)
    return out


def ref_mutation_parents(c):
    """Expected mutation.parent column (global ids) for a coll whose sites are unique
    and sorted and whose mutations are sorted by site; or the string "after_child" if
    some mutation is listed before its parent (documented to be an error)."""
    rts = rts_of(c)
    M = c["mutations"]
    out = [NULL] * len(M)
    by_site = {}
    for j, mu in enumerate(M):
        by_site.setdefault(mu[0], []).append(j)
    for s, idx in by_site.items():
        par = rts.parent_map(c["sites"][s][0])
        loc = nearest_parents(par, [M[j][1] for j in idx])
        for a, p in enumerate(loc):
            if p != NULL:
                if p > a:
                    return "after_child"
                out[idx[a]] = idx[p]
    return out


def ref_mutation_times(c):
    """Documented compute_mutation_times values, as {(site, node): [times, oldest first]}:
    k mutations on the branch above `node` are spread evenly between the node above and
    the node below; above a root the node's own time."""
    rts = rts_of(c)
    groups = {}
    for s, nd, _, _, _, _ in c["mutations"]:
        groups[(s, nd)] = groups.get((s, nd), 0) + 1
    out = {}
    for (s, nd), k in groups.items():
        par = rts.parent_map(c["sites"][s][0])
        nt = rts.times[nd]
        if par[nd] == NULL:
            out[(s, nd)] = [nt] * k
        else:
            pt = rts.times[par[nd]]
            out[(s, nd)] = [pt - (pt - nt) * j / (k + 1) for j in range(1, k + 1)]
    return out


def mutation_time_clause_violations(c):
    """Data-model clauses on known mutation times (sec_mutation_requirements)."""
    rts = rts_of(c)
    bad = []
    M = c["mutations"]
    kinds = {}
    for j, (s, nd, _, p, t, _) in enumerate(M):
        kinds.setdefault(s, set()).add(t is None)
        if t is None:
            continue
        if t != t or t in (float("inf"), float("-inf")):
            bad.append((j, "non-finite"))
            continue
        par = rts.parent_map(c["sites"][s][0])
        if t < rts.times[nd]:
            bad.append((j, "younger than node"))
        if par[nd] != NULL and not t < rts.times[par[nd]]:
            bad.append((j, "not younger than the node above"))
        if p != NULL and M[p][4] is not None and t > M[p][4]:
            bad.append((j, "older than parent mutation"))
    for s, v in kinds.items():
        if len(v) > 1:
            bad.append((s, "site mixes known and unknown"))
    return bad


def mutation_order_violations(c):
    """Data-model ordering clauses: by site, non-increasing known time, parent first."""
    bad = []
    M = c["mutations"]
    for j in range(len(M)):
        if j and M[j - 1][0] > M[j][0]:
            bad.append((j, "site order"))
        if j and M[j - 1][0] == M[j][0] and M[j][4] is not None and M[j - 1][4] is not None \
                and M[j - 1][4] < M[j][4]:
            bad.append((j, "time order"))
        if M[j][3] != NULL and not M[j][3] < j:
            bad.append((j, "parent after child"))
    return bad


# --------------------------------------------------------------------------------------
# EdgeTable.squash
# --------------------------------------------------------------------------------------
def ref_squash(edges):
    """Maximal merge of adjacent (same parent, same child, touching) edges, rows in
    (parent, child, left, right) order.  edges: [(l, r, p, c)]."""
    groups = {}
    for l, r, p, c in edges:
        groups.setdefault((p, c), []).append((l, r))
    out = []
    for (p, c) in sorted(groups):
        cur = None
        for l, r in sorted(groups[(p, c)]):
            if cur is not None and cur[1] == l:
                cur[1] = r
            else:
                cur = [l, r]
                out.append((cur, p, c))
    return [(iv[0], iv[1], p, c) for iv, p, c in out]


# --------------------------------------------------------------------------------------
# logical content (row identity = metadata tag; references followed)
# --------------------------------------------------------------------------------------
def logical(c, drop_individuals=(), drop_populations=(), drop_sites=()):
    """Order-free content of the non-node tables plus the node list, references replaced
    by the metadata tag of the row referred to.  Requires unique metadata per table."""
    ind_tag = [r[3] for r in c["individuals"]]
    pop_tag = [r[0] for r in c["populations"]]
    site_tag = [r[2] for r in c["sites"]]
    mut_tag = [r[5] for r in c["mutations"]]
    di, dp, ds = set(drop_individuals), set(drop_populations), set(drop_sites)

    def it(x):
        return None if x == NULL else ind_tag[x]

    def pt(x):
        return None if x == NULL else pop_tag[x]

    out = {
        "nodes": [(f, t, pt(p), it(i), md) for f, t, p, i, md in c["nodes"]],
        "individuals": sorted(
            (f, tuple(loc), tuple(it(p) for p in par if p == NULL or ind_tag[p] not in di), md)
            for f, loc, par, md in c["individuals"] if md not in di),
        "populations": sorted(r for r in c["populations"] if r[0] not in dp),
        "edges": sorted(c["edges"]),
        "sites": sorted(r for r in c["sites"] if r[2] not in ds),
        "mutations": sorted(
            (site_tag[s], nd, d, None if p == NULL else mut_tag[p], -1.0 if t is None else t, md)
            for s, nd, d, p, t, md in c["mutations"]),
        "migrations": sorted((l, r, nd, pt(s), pt(d), t, md)
                             for l, r, nd, s, d, t, md in c["migrations"]),
    }
    return out


# --------------------------------------------------------------------------------------
# bridge to tskit (imported lazily)
# --------------------------------------------------------------------------------------
def to_tables(c):
    import tskit

    tc = tskit.TableCollection(c["L"])
    for md, in c["populations"]:
        tc.populations.add_row(metadata=md.encode("latin-1"))
    for f, loc, par, md in c["individuals"]:
        tc.individuals.add_row(flags=f, location=loc, parents=par, metadata=md.encode("latin-1"))
    for f, t, pop, ind, md in c["nodes"]:
        tc.nodes.add_row(flags=f, time=t, population=pop, individual=ind,
                         metadata=md.encode("latin-1"))
    for l, r, p, ch, md in c["edges"]:
        tc.edges.add_row(l, r, p, ch, metadata=md.encode("latin-1"))
    for x, a, md in c["sites"]:
        tc.sites.add_row(x, a, metadata=md.encode("latin-1"))
    unk = tskit.UNKNOWN_TIME
    for s, nd, d, p, t, md in c["mutations"]:
        tc.mutations.add_row(site=s, node=nd, derived_state=d, parent=p,
                             time=unk if t is None else t, metadata=md.encode("latin-1"))
    for l, r, nd, s, d, t, md in c["migrations"]:
        tc.migrations.add_row(l, r, nd, s, d, t, metadata=md.encode("latin-1"))
    return tc


class Corrupt(Exception):
    pass


_PROBLEMS = None  # when a list: collect damaged ragged columns instead of raising


def _ragged(table, name, data, offsets, n):
    off = offsets.tolist()
    if len(off) != n + 1 or off[0] != 0 or off[-1] != len(data) \
            or any(a > b for a, b in zip(off, off[1:])):
        msg = (f"{table}.{name}_offset = {off} with {name} length {len(data)} "
               f"and {n} rows is not a valid offset column")
        if _PROBLEMS is None:
            raise Corrupt(msg)
        _PROBLEMS.append((table, msg))
        return [0] * (n + 1)
    return off


def _strs(table, name, col, offsets, n):
    data = col.tobytes()
    off = _ragged(table, name, data, offsets, n)
    return [data[off[j]:off[j + 1]].decode("latin-1") for j in range(n)]


def from_tables(tc, only=TABLES, problems=None):
    """Read a TableCollection back into a coll from the raw columns (never through row
    accessors, so a damaged ragged column is reported as Corrupt rather than raising
    somewhere inside tskit).  With problems=[...] damaged ragged columns are appended to
    the list as (table, message) and read as empty values instead of raising."""
    global _PROBLEMS
    _PROBLEMS = problems
    try:
        return _from_tables(tc, only)
    finally:
        _PROBLEMS = None


def _from_tables(tc, only):
    import numpy as np
    import tskit

    c = empty(tc.sequence_length)
    if "populations" in only:
        t = tc.populations
        n = t.num_rows
        c["populations"] = [(m,) for m in _strs("populations", "metadata", t.metadata,
                                                t.metadata_offset, n)]
    if "individuals" in only:
        t = tc.individuals
        n = t.num_rows
        md = _strs("individuals", "metadata", t.metadata, t.metadata_offset, n)
        loc = t.location.tolist()
        lo = _ragged("individuals", "location", loc, t.location_offset, n)
        par = t.parents.tolist()
        po = _ragged("individuals", "parents", par, t.parents_offset, n)
        fl = t.flags.tolist()
        c["individuals"] = [(fl[j], tuple(loc[lo[j]:lo[j + 1]]), tuple(par[po[j]:po[j + 1]]),
                             md[j]) for j in range(n)]
    if "nodes" in only:
        t = tc.nodes
        n = t.num_rows
        md = _strs("nodes", "metadata", t.metadata, t.metadata_offset, n)
        c["nodes"] = list(zip(t.flags.tolist(), t.time.tolist(), t.population.tolist(),
                              t.individual.tolist(), md))
    if "edges" in only:
        t = tc.edges
        n = t.num_rows
        md = _strs("edges", "metadata", t.metadata, t.metadata_offset, n)
        c["edges"] = list(zip(t.left.tolist(), t.right.tolist(), t.parent.tolist(),
                              t.child.tolist(), md))
    if "sites" in only:
        t = tc.sites
        n = t.num_rows
        md = _strs("sites", "metadata", t.metadata, t.metadata_offset, n)
        an = _strs("sites", "ancestral_state", t.ancestral_state, t.ancestral_state_offset, n)
        c["sites"] = list(zip(t.position.tolist(), an, md))
    if "mutations" in only:
        t = tc.mutations
        n = t.num_rows
        md = _strs("mutations", "metadata", t.metadata, t.metadata_offset, n)
        de = _strs("mutations", "derived_state", t.derived_state, t.derived_state_offset, n)
        tm = t.time
        unk = tskit.is_unknown_time(tm) if n else np.zeros(0, dtype=bool)
        tl = [None if u else x for x, u in zip(tm.tolist(), unk.tolist())]
        c["mutations"] = list(zip(t.site.tolist(), t.node.tolist(), de, t.parent.tolist(),
                                  tl, md))
    if "migrations" in only:
        t = tc.migrations
        n = t.num_rows
        md = _strs("migrations", "metadata", t.metadata, t.metadata_offset, n)
        c["migrations"] = list(zip(t.left.tolist(), t.right.tolist(), t.node.tolist(),
                                   t.source.tolist(), t.dest.tolist(), t.time.tolist(), md))
    return c


def diff(got, exp, tables=TABLES):
    """[(table, description)] for every table that differs."""
    out = []
    for t in tables:
        if got[t] != exp[t]:
            out.append((t, f"{t}: got {got[t]} expected {exp[t]}"))
    return out
