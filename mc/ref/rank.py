"""Reference model for C15 (tree ranks and topology counts).

Nothing here follows tskit's ranking algorithm.  A rooted leaf-labelled tree without unary
nodes is represented by its *canonical form*: a leaf is its integer label, an internal node
is the frozenset of the forms of its children.  Two trees have the same topology (up to
internal node ids, child order and branch lengths) iff their forms are equal.

* all_forms(n): every such tree on labels 0..n-1, by brute force over set partitions.
* shape(form): the unlabelled canonical form (sorted nested tuples).
* num_labellings(shape) = n! / |Aut(shape)|: how many distinct labelled trees have the shape.
* num_shapes_upto / num_trees_upto: counting recurrences (exact integers) for large n.
* induced(parent, chosen): the topology a tree induces on a list of leaves
  (label i for chosen[i]); None when they do not hang below one common top node.
"""
import itertools
import math
from functools import lru_cache

NULL = -1

# OEIS values used only to self-check this reference (not tskit).
A000311 = [0, 1, 1, 4, 26, 236, 2752, 39208, 660032]
A000669 = [0, 1, 1, 2, 5, 12, 33, 90, 261, 766, 2312]


def set_partitions(items):
    """All partitions of the list `items` into non-empty blocks (each exactly once)."""
    items = list(items)
    if not items:
        yield []
        return
    first, rest = items[0], items[1:]
    for k in range(len(rest) + 1):
        for others in itertools.combinations(rest, k):
            block = [first] + list(others)
            remaining = [x for x in rest if x not in others]
            for p in set_partitions(remaining):
                yield [block] + p


@lru_cache(maxsize=None)
def _forms(labels):
    if len(labels) == 1:
        return (labels[0],)
    out = []
    for blocks in set_partitions(labels):
        if len(blocks) < 2:
            continue
        for combo in itertools.product(*(_forms(tuple(b)) for b in blocks)):
            out.append(frozenset(combo))
    return tuple(out)


def all_forms(n):
    """Every rooted leaf-labelled tree without unary nodes on labels 0..n-1."""
    forms = _forms(tuple(range(n)))
    assert len(set(forms)) == len(forms)
    if n < len(A000311):
        assert len(forms) == A000311[n], "reference self-check failed"
    return forms


def is_leaf(form):
    return not isinstance(form, frozenset)


def shape(form):
    if is_leaf(form):
        return ()
    return tuple(sorted(shape(c) for c in form))


def shape_leaves(sh):
    if sh == ():
        return 1
    return sum(shape_leaves(c) for c in sh)


def root_partition(sh):
    return sorted(shape_leaves(c) for c in sh)


def shape_has_unary(sh):
    if sh == ():
        return False
    return len(sh) == 1 or any(shape_has_unary(c) for c in sh)


def aut(sh):
    """Number of automorphisms of an unlabelled rooted tree."""
    if sh == ():
        return 1
    total = 1
    for c, grp in itertools.groupby(sh):  # sh is sorted: equal children are adjacent
        m = len(list(grp))
        total *= math.factorial(m) * aut(c) ** m
    return total


def num_labellings(sh):
    n = shape_leaves(sh)
    a = aut(sh)
    f = math.factorial(n)
    assert f % a == 0
    return f // a


def form_labels(form):
    if is_leaf(form):
        return [form]
    out = []
    for c in form:
        out.extend(form_labels(c))
    return out


def relabel(form, mapping):
    if is_leaf(form):
        return mapping[form]
    return frozenset(relabel(c, mapping) for c in form)


def form_str(form):
    """Deterministic printable version of a form."""
    if is_leaf(form):
        return str(form)
    return "(" + ",".join(sorted((form_str(c) for c in form),
                                 key=lambda s: (len(s), s))) + ")"


def form_to_nested(form):
    """JSON-serialisable nested lists (sorted deterministically)."""
    if is_leaf(form):
        return form
    return [form_to_nested(c) for c in sorted(form, key=form_str)]


def nested_to_form(x):
    if isinstance(x, list):
        return frozenset(nested_to_form(c) for c in x)
    return x


# ---- counting for large n (exact integers) ------------------------------------------

def num_trees_upto(nmax):
    """a[n] = number of leaf-labelled rooted trees without unary nodes, n leaves.

    A tree with n >= 2 leaves is a set partition of the labels into >= 2 blocks with a
    tree on every block.  F[n] = number of (partition, trees) pairs with any number of
    blocks; conditioning on the block that holds label 0 gives the recurrence."""
    a = [0] * (nmax + 1)
    F = [0] * (nmax + 1)
    F[0] = 1
    for n in range(1, nmax + 1):
        r = 0
        for j in range(1, n):
            r += math.comb(n - 1, j - 1) * a[j] * F[n - j]
        a[n] = 1 if n == 1 else r
        F[n] = a[n] + r
    for n in range(1, min(nmax + 1, len(A000311))):
        assert a[n] == A000311[n], "reference self-check failed"
    return a


def num_shapes_upto(nmax):
    """s[n] = number of unlabelled rooted trees without unary nodes with n leaves.

    A shape with n >= 2 leaves is a multiset of >= 2 shapes with n leaves in total; the
    generating function of multisets of shapes with < n leaves is prod_k (1-x^k)^(-s[k])."""
    s = [0] * (nmax + 1)
    P = [0] * (nmax + 1)
    P[0] = 1
    for n in range(1, nmax + 1):
        s[n] = 1 if n == 1 else P[n]
        # multiply P by (1 - x^n)^(-s[n]) = sum_j C(s[n]+j-1, j) x^(n j)
        Q = [0] * (nmax + 1)
        for j in range(0, nmax // n + 1):
            c = math.comb(s[n] + j - 1, j)
            for d in range(0, nmax + 1 - n * j):
                if P[d]:
                    Q[d + n * j] += P[d] * c
        P = Q
    for n in range(1, min(nmax + 1, len(A000669))):
        assert s[n] == A000669[n], "reference self-check failed"
    return s


def ascending_partitions(n):
    """Partitions of n into >= 2 parts as nondecreasing lists, in lexicographic order
    (the order in which ascending compositions are generated)."""
    def rec(remaining, smallest):
        if remaining == 0:
            yield []
            return
        for x in range(smallest, remaining + 1):
            if remaining - x == 0 or remaining - x >= x:
                for rest in rec(remaining - x, x):
                    yield [x] + rest
    return [p for p in rec(n, 1) if len(p) >= 2]


# ---- trees given as parent arrays -----------------------------------------------------

def children_of(parent):
    ch = [[] for _ in parent]
    for c, p in enumerate(parent):
        if p != NULL:
            ch[p].append(c)
    return ch


def tree_form(parent, root):
    """(form over node ids of the leaves below root, has_unary_node)."""
    ch = children_of(parent)
    unary = [False]

    def rec(u):
        if not ch[u]:
            return u
        if len(ch[u]) == 1:
            unary[0] = True
        return frozenset(rec(c) for c in ch[u])

    return rec(root), unary[0]


def order_relabel(form):
    """Relabel the leaves 0..n-1 preserving the order of the labels."""
    labs = sorted(form_labels(form))
    return relabel(form, {x: i for i, x in enumerate(labs)}), len(labs)


def induced(parent, chosen):
    """Topology induced on the leaves `chosen` (label i for chosen[i]) or None.

    The induced tree keeps the chosen leaves and every node where two of their lineages
    meet; nodes left with one child are removed.  None if the leaves do not all descend
    from one parentless node."""
    kids = {}
    tops = set()
    lab = {}
    for i, u in enumerate(chosen):
        assert u not in lab
        lab[u] = i
    for u in chosen:
        v = u
        while parent[v] != NULL:
            kids.setdefault(parent[v], set()).add(v)
            v = parent[v]
        tops.add(v)
    if len(tops) != 1:
        return None

    def rec(u):
        if u in lab:
            assert u not in kids, "chosen node is not a leaf of the induced tree"
            return lab[u]
        fs = [rec(c) for c in kids[u]]
        return fs[0] if len(fs) == 1 else frozenset(fs)

    return rec(next(iter(tops)))
